//! built-in match finder driven through the public Matcher trait (constructor through a verification hook):
//! line:  <slice_size> <max_slices> op op ...   ops: c<hex> commit_space, m start_matching, k skip_matching, r reset
//! output per op: c:ok | m:<seq>;<seq>.. (L<hex> / T<hex>,<off>,<len>) | k:ok | r:ok ; a panic ends the line with <op>:panic
use crate::util::{hex, unhex};
use ruzstd::encoding::{CompressionLevel, MatchGeneratorDriver, Matcher, Sequence};
use std::panic::{catch_unwind, AssertUnwindSafe};

pub fn run_line(line: &str) -> String {
    let w: Vec<&str> = line.split_whitespace().collect();
    let slice: usize = w[0].parse().unwrap();
    let slices: usize = w[1].parse().unwrap();
    let mut m = MatchGeneratorDriver::verif_new(slice, slices);
    let mut out = vec![format!("w:{}", m.window_size())];
    for op in &w[2..] {
        let r = catch_unwind(AssertUnwindSafe(|| match op.as_bytes()[0] {
            b'c' => {
                m.commit_space(unhex(&op[1..]));
                "c:ok".to_string()
            }
            // commit through a buffer obtained from get_next_space (as FrameCompressor does): its capacity is the slice
            // size whatever the number of bytes committed
            b'C' => {
                let d = unhex(&op[1..]);
                let mut v = m.get_next_space();
                if d.len() <= v.len() {
                    v[..d.len()].copy_from_slice(&d);
                    v.resize(d.len(), 0);
                } else {
                    v = d;
                }
                m.commit_space(v);
                "c:ok".to_string()
            }
            b'm' => {
                let mut s = Vec::new();
                m.start_matching(|seq| match seq {
                    Sequence::Literals { literals } => s.push(format!("L{}", hex(literals))),
                    Sequence::Triple { literals, offset, match_len } => s.push(format!("T{},{},{}", hex(literals), offset, match_len)),
                });
                format!("m:{}", if s.is_empty() { "-".to_string() } else { s.join(";") })
            }
            b'k' => {
                m.skip_matching();
                "k:ok".to_string()
            }
            b'g' => format!("g:{}", hex(m.get_last_space())),
            _ => {
                m.reset(CompressionLevel::Fastest);
                "r:ok".to_string()
            }
        }));
        match r {
            Ok(s) => out.push(s),
            Err(_) => {
                out.push(format!("{}:panic", op[..1].to_lowercase()));
                break;
            }
        }
    }
    out.join(" ")
}
