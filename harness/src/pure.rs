//! pass-through calls of the crate's private pure functions (hooks in ruzstd::verif_hooks)
use crate::util::*;
use ruzstd::verif_hooks as vh;

fn bt(t: vh::BlockType) -> u32 {
    match t {
        vh::BlockType::Raw => 0,
        vh::BlockType::RLE => 1,
        vh::BlockType::Compressed => 2,
        vh::BlockType::Reserved => 3,
    }
}

fn mt(m: ruzstd::verif_hooks::ModeType) -> u32 {
    match m {
        vh::ModeType::Predefined => 0,
        vh::ModeType::RLE => 1,
        vh::ModeType::FSECompressed => 2,
        vh::ModeType::Repeat => 3,
    }
}

pub fn run_line(line: &str) -> String {
    let w: Vec<&str> = line.split_whitespace().collect();
    let a = &w[1..];
    match w[0] {
        "ll_code" => {
            let (b, n) = vh::seqdec::lookup_ll_code(nums(a)[0] as u8);
            format!("ok {} {}", b, n)
        }
        "ml_code" => {
            let (b, n) = vh::seqdec::lookup_ml_code(nums(a)[0] as u8);
            format!("ok {} {}", b, n)
        }
        "enc_ll" => {
            let (c, x, n) = vh::encblocks::encode_literal_length(nums(a)[0] as u32);
            format!("ok {} {} {}", c, x, n)
        }
        "enc_ml" => {
            let (c, x, n) = vh::encblocks::encode_match_len(nums(a)[0] as u32);
            format!("ok {} {} {}", c, x, n)
        }
        "enc_of" => {
            let (c, x, n) = vh::encblocks::encode_offset(nums(a)[0] as u32);
            format!("ok {} {} {}", c, x, n)
        }
        "offhist" => {
            let v = nums(a);
            let mut h = [v[2] as u32, v[3] as u32, v[4] as u32];
            let r = vh::seqexec::do_offset_history(v[0] as u32, v[1] as u32, &mut h);
            format!("ok {} {} {} {}", r, h[0], h[1], h[2])
        }
        "seqnum" => format!("ok {}", hex(&vh::encblocks::encode_seqnum(nums(a)[0] as usize))),
        "seqhdr" => {
            let src = unhex(a[0]);
            let mut h = vh::SequencesHeader::new();
            match h.parse_from_header(&src) {
                Ok(used) => format!(
                    "ok {} {} {}",
                    used,
                    h.num_sequences,
                    h.modes
                        .map(|m| (mt(m.ll_mode()) << 4 | mt(m.of_mode()) << 2 | mt(m.ml_mode())) as i32)
                        .unwrap_or(-1)
                ),
                Err(_) => "err".to_string(),
            }
        }
        "minsize" => format!("ok {}", vh::find_min_size(nums(a)[0])),
        "blkhdr" => {
            let v = nums(a);
            let bytes = [v[0] as u8, v[1] as u8, v[2] as u8];
            let mut bd = vh::new_block_decoder();
            match bd.read_block_header(&bytes[..]) {
                Ok((h, n)) => format!(
                    "ok {} {} {} {} {}",
                    h.last_block as u8,
                    bt(h.block_type),
                    h.decompressed_size,
                    h.content_size,
                    n
                ),
                Err(_) => "err".to_string(),
            }
        }
        "blkser" => {
            let v = nums(a);
            let ty = match v[0] {
                0 => vh::BlockType::Raw,
                1 => vh::BlockType::RLE,
                2 => vh::BlockType::Compressed,
                _ => vh::BlockType::Reserved,
            };
            let mut out = Vec::new();
            vh::EncBlockHeader {
                last_block: v[2] != 0,
                block_type: ty,
                block_size: v[1] as u32,
            }
            .serialize(&mut out);
            format!("ok {}", hex(&out))
        }
        "framehdr" => {
            let src = unhex(a[0]);
            match vh::read_frame_header(&src[..]) {
                Ok((h, n)) => {
                    let w = match h.window_size() {
                        Ok(w) => format!("{}", w),
                        Err(_) => "werr".to_string(),
                    };
                    format!(
                        "ok {} {} {} {} {} {}",
                        n,
                        h.descriptor.0,
                        w,
                        h.dictionary_id().map(|d| d as i64).unwrap_or(-1),
                        h.frame_content_size(),
                        h.descriptor.content_checksum_flag() as u8
                    )
                }
                Err(ruzstd::decoding::errors::ReadFrameHeaderError::SkipFrame { magic_number, length }) => {
                    format!("skip {} {}", magic_number, length)
                }
                Err(_) => "err".to_string(),
            }
        }
        "lithdr" => {
            let src = unhex(a[0]);
            let mut ls = vh::LiteralsSection::new();
            match ls.parse_from_header(&src) {
                Ok(used) => format!(
                    "ok {} {} {} {} {}",
                    used,
                    match ls.ls_type {
                        vh::LiteralsSectionType::Raw => 0,
                        vh::LiteralsSectionType::RLE => 1,
                        vh::LiteralsSectionType::Compressed => 2,
                        vh::LiteralsSectionType::Treeless => 3,
                    },
                    ls.regenerated_size,
                    ls.compressed_size.map(|x| x as i64).unwrap_or(-1),
                    ls.num_streams.map(|x| x as i64).unwrap_or(-1)
                ),
                Err(_) => "err".to_string(),
            }
        }
        "lithdr_need" => {
            let ls = vh::LiteralsSection::new();
            match ls.header_bytes_needed(nums(a)[0] as u8) {
                Ok(n) => format!("ok {}", n),
                Err(_) => "err".to_string(),
            }
        }
        "rawlit" => {
            let n = nums(a)[0] as usize;
            let data = vec![0xABu8; n];
            let out = vh::encblocks::raw_literals(&data);
            format!("ok {}", hex(&out[..3.min(out.len())]))
        }
        // complit <hex literals> : the literals section compress_literals writes for a fresh compressor state
        "complit" => {
            let data = crate::util::unhex(a[0]);
            let (out, new_table) = vh::encblocks::compress_literals(&data);
            format!("ok {} {}", hex(&out), if new_table { 1 } else { 0 })
        }
        "framehdr_ser" => {
            // fcs(-1 none) single checksum dictid(-1 none) window(-1 none)
            let v: Vec<i64> = a.iter().map(|x| x.parse::<i64>().unwrap()).collect();
            let h = vh::EncFrameHeader {
                frame_content_size: if v[0] < 0 { None } else { Some(v[0] as u64) },
                single_segment: v[1] != 0,
                content_checksum: v[2] != 0,
                dictionary_id: if v[3] < 0 { None } else { Some(v[3] as u64) },
                window_size: if v[4] < 0 { None } else { Some(v[4] as u64) },
            };
            let mut out = Vec::new();
            h.serialize(&mut out);
            format!("ok {}", hex(&out))
        }
        "maxwin" => {
            let mut fd = ruzstd::decoding::FrameDecoder::new();
            fd.set_max_window_size(nums(a)[0]);
            format!("ok {}", fd.max_window_size())
        }
        other => format!("unknown {}", other),
    }
}
