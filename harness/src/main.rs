//! zh -- Rust side of the correspondence checks.  One sub-command per component; every sub-command reads
//! one case per line on stdin and prints exactly one canonical result line per case on stdout.
use std::io::{BufRead, Write};

mod bits;
mod codec;
mod dictb;
mod entropy;
mod matcher;
mod prog;
mod pure;
mod ring;
mod util;
mod xxh;

fn main() {
    let args: Vec<String> = std::env::args().collect();
    let cmd = args.get(1).map(|s| s.as_str()).unwrap_or("");
    // panics are results, not crashes
    if std::env::var("ZH_PANIC_MSG").is_err() {
        std::panic::set_hook(Box::new(|_| {}));
    }
    let stdin = std::io::stdin();
    let stdout = std::io::stdout();
    let mut out = std::io::BufWriter::new(stdout.lock());
    let f: fn(&str) -> String = match cmd {
        "pure" => pure::run_line,
        "ring" => ring::run_line,
        "prog" => prog::run_line,
        "codec" => codec::run_line,
        "xxh" => xxh::run_line,
        "entropy" => entropy::run_line,
        "matcher" => matcher::run_line,
        "dictb" => dictb::run_line,
        "bits" => bits::run_line,
        _ => {
            eprintln!("usage: zh <pure> < cases");
            std::process::exit(2);
        }
    };
    for line in stdin.lock().lines() {
        let line = line.unwrap();
        let line = line.trim();
        if line.is_empty() || line.starts_with('#') {
            continue;
        }
        let l = line.to_string();
        let r = std::panic::catch_unwind(move || f(&l)).unwrap_or_else(|_| "panic".to_string());
        writeln!(out, "{}", r).unwrap();
    }
}
