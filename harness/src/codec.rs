//! reference codec (libzstd through the `zstd` crate) and this crate's compressor, as oracles / frame producers
use crate::util::*;
use std::io::Write;

pub fn run_line(line: &str) -> String {
    let w: Vec<&str> = line.split_whitespace().collect();
    match w[0] {
        // zenc <level> <window_log|0> <checksum> <content_size> <ldm> <data-hex> [dict-hex] [flush-every]
        "zenc" => {
            let level: i32 = w[1].parse().unwrap();
            let wlog: u32 = w[2].parse().unwrap();
            let data = unhex(w[6]);
            let dict = if w.len() > 7 { unhex(w[7]) } else { Vec::new() };
            let flush_every: usize = if w.len() > 8 { w[8].parse().unwrap() } else { 0 };
            let mut enc = if dict.is_empty() {
                zstd::stream::Encoder::new(Vec::new(), level).unwrap()
            } else {
                zstd::stream::Encoder::with_dictionary(Vec::new(), level, &dict).unwrap()
            };
            if wlog != 0 {
                enc.window_log(wlog).unwrap();
            }
            enc.include_checksum(w[3] != "0").unwrap();
            enc.include_contentsize(w[4] != "0").unwrap();
            if w[4] != "0" {
                enc.set_pledged_src_size(Some(data.len() as u64)).unwrap();
            }
            if w[5] != "0" {
                enc.long_distance_matching(true).unwrap();
            }
            if w.len() > 9 && w[9] == "nodictid" {
                enc.include_dictid(false).unwrap();
            }
            if flush_every > 0 {
                for c in data.chunks(flush_every) {
                    enc.write_all(c).unwrap();
                    enc.flush().unwrap();
                }
            } else {
                enc.write_all(&data).unwrap();
            }
            let out = enc.finish().unwrap();
            format!("ok {}", hex(&out))
        }
        // zdec <frame-hex> [dict-hex] : reference decoder
        "zdec" => {
            let data = unhex(w[1]);
            let dict = if w.len() > 2 { unhex(w[2]) } else { Vec::new() };
            let mut out = Vec::new();
            let r = if dict.is_empty() {
                zstd::stream::copy_decode(&data[..], &mut out)
            } else {
                let mut d = zstd::stream::Decoder::with_dictionary(&data[..], &dict).unwrap();
                std::io::copy(&mut d, &mut out).map(|_| ())
            };
            match r {
                Ok(()) => format!("ok {}", hex(&out)),
                Err(_) => "err".to_string(),
            }
        }
        // ztrain <max-size> <sample-hex>... : libzstd dictionary trainer
        "ztrain" => {
            let max: usize = w[1].parse().unwrap();
            let samples: Vec<Vec<u8>> = w[2..].iter().map(|h| unhex(h)).collect();
            match zstd::dict::from_samples(&samples, max) {
                Ok(d) => format!("ok {}", hex(&d)),
                Err(_) => "err".to_string(),
            }
        }
        // renc <level 0|1> <data-hex> [frag] : this crate's compressor
        "renc" => {
            let level = if w[1] == "0" {
                ruzstd::encoding::CompressionLevel::Uncompressed
            } else {
                ruzstd::encoding::CompressionLevel::Fastest
            };
            let data = unhex(w[2]);
            let frag: usize = if w.len() > 3 { w[3].parse().unwrap() } else { 0 };
            let src = crate::prog::Src::new(data, frag);
            let out = ruzstd::encoding::compress_to_vec(src, level);
            format!("ok {}", hex(&out))
        }
        // renc_multi <level 0|1> <frag> <data-hex>... : several frames through ONE reused FrameCompressor
        "renc_multi" => {
            let level = if w[1] == "0" {
                ruzstd::encoding::CompressionLevel::Uncompressed
            } else {
                ruzstd::encoding::CompressionLevel::Fastest
            };
            let frag: usize = w[2].parse().unwrap();
            let mut comp = ruzstd::encoding::FrameCompressor::new(level);
            let mut outs = Vec::new();
            for h in &w[3..] {
                let src = crate::prog::Src::new(unhex(h), frag);
                comp.set_source(src);
                comp.set_drain(Vec::new());
                comp.compress();
                let out: Vec<u8> = comp.take_drain().unwrap();
                outs.push(hex(&out));
            }
            format!("ok {}", outs.join(" "))
        }
        other => format!("unknown {}", other),
    }
}
