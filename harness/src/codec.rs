//! reference codec (libzstd through the `zstd` crate) and this crate's compressor, as oracles / frame producers
use crate::util::*;
use std::io::Write;

pub fn run_line(line: &str) -> String {
    let w: Vec<&str> = line.split_whitespace().collect();
    match w[0] {
        // zenc <level> <window_log|0> <checksum> <content_size> <ldm> <data-hex> [dict-hex] [flush-every]
        "zenc" => {
            let level: i32 = w[1].parse().unwrap();
            let wlog: u32 = w[2].parse().unwrap();
            let data = unhex(w[6]);
            let dict = if w.len() > 7 { unhex(w[7]) } else { Vec::new() };
            let flush_every: usize = if w.len() > 8 { w[8].parse().unwrap() } else { 0 };
            let mut enc = if dict.is_empty() {
                zstd::stream::Encoder::new(Vec::new(), level).unwrap()
            } else {
                zstd::stream::Encoder::with_dictionary(Vec::new(), level, &dict).unwrap()
            };
            if wlog != 0 {
                enc.window_log(wlog).unwrap();
            }
            enc.include_checksum(w[3] != "0").unwrap();
            enc.include_contentsize(w[4] != "0").unwrap();
            if w[4] != "0" {
                enc.set_pledged_src_size(Some(data.len() as u64)).unwrap();
            }
            if w[5] != "0" {
                enc.long_distance_matching(true).unwrap();
            }
            if w.len() > 9 && w[9] == "nodictid" {
                enc.include_dictid(false).unwrap();
            }
            if flush_every > 0 {
                for c in data.chunks(flush_every) {
                    enc.write_all(c).unwrap();
                    enc.flush().unwrap();
                }
            } else {
                enc.write_all(&data).unwrap();
            }
            let out = enc.finish().unwrap();
            format!("ok {}", hex(&out))
        }
        // zdec <frame-hex> [dict-hex] : reference decoder
        "zdec" => {
            let data = unhex(w[1]);
            let dict = if w.len() > 2 { unhex(w[2]) } else { Vec::new() };
            let mut out = Vec::new();
            let r = if dict.is_empty() {
                zstd::stream::copy_decode(&data[..], &mut out)
            } else {
                let mut d = zstd::stream::Decoder::with_dictionary(&data[..], &dict).unwrap();
                std::io::copy(&mut d, &mut out).map(|_| ())
            };
            match r {
                Ok(()) => format!("ok {}", hex(&out)),
                Err(e) => format!("err {}", e.to_string().replace(' ', "_")),
            }
        }
        // zdeck <frame-hex> : reference decoder, prints only length and XXH64 of the output (large outputs)
        "zdeck" => {
            let data = unhex(w[1]);
            let mut out = Vec::new();
            match zstd::stream::copy_decode(&data[..], &mut out) {
                Ok(()) => format!("ok {} {}", out.len(), crate::xxh::xxh64(&out, 0)),
                Err(e) => format!("err {}", e.to_string().replace(' ', "_")),
            }
        }
        // ztrain <max-size> <sample-hex>... : libzstd dictionary trainer
        "ztrain" => {
            let max: usize = w[1].parse().unwrap();
            let samples: Vec<Vec<u8>> = w[2..].iter().map(|h| unhex(h)).collect();
            match zstd::dict::from_samples(&samples, max) {
                Ok(d) => format!("ok {}", hex(&d)),
                Err(_) => "err".to_string(),
            }
        }
        // renc <level 0|1> <data-hex> [frag] : this crate's compressor
        "renc" => {
            let level = if w[1] == "0" {
                ruzstd::encoding::CompressionLevel::Uncompressed
            } else {
                ruzstd::encoding::CompressionLevel::Fastest
            };
            let data = unhex(w[2]);
            let frag: usize = if w.len() > 3 { w[3].parse().unwrap() } else { 0 };
            let src = crate::prog::Src::new(data, frag);
            let out = ruzstd::encoding::compress_to_vec(src, level);
            format!("ok {}", hex(&out))
        }
        // renc_multi <level 0|1> <frag> <data-hex>... : several frames through ONE reused FrameCompressor
        "renc_multi" => {
            let level = if w[1] == "0" {
                ruzstd::encoding::CompressionLevel::Uncompressed
            } else {
                ruzstd::encoding::CompressionLevel::Fastest
            };
            let frag: usize = w[2].parse().unwrap();
            let mut comp = ruzstd::encoding::FrameCompressor::new(level);
            let mut outs = Vec::new();
            for h in &w[3..] {
                let src = crate::prog::Src::new(unhex(h), frag);
                comp.set_source(src);
                comp.set_drain(Vec::new());
                comp.compress();
                let out: Vec<u8> = comp.take_drain().unwrap();
                outs.push(hex(&out));
            }
            format!("ok {}", outs.join(" "))
        }
        // renc_multi_mut <level 0|1> <frag> <data-hex>... : several frames through ONE reused FrameCompressor whose
        // source and drain are installed once and afterwards only changed in place through source_mut() / drain_mut();
        // after the last input, compress() is called once more on the exhausted source (an empty frame)
        "renc_multi_mut" => {
            let level = if w[1] == "0" {
                ruzstd::encoding::CompressionLevel::Uncompressed
            } else {
                ruzstd::encoding::CompressionLevel::Fastest
            };
            let frag: usize = w[2].parse().unwrap();
            let mut comp = ruzstd::encoding::FrameCompressor::new(level);
            let mut outs = Vec::new();
            for (i, h) in w[3..].iter().enumerate() {
                let src = crate::prog::Src::new(unhex(h), frag);
                if i == 0 {
                    comp.set_source(src);
                    comp.set_drain(Vec::new());
                } else {
                    *comp.source_mut().unwrap() = src;
                }
                comp.compress();
                let out: Vec<u8> = core::mem::take(comp.drain_mut().unwrap());
                outs.push(hex(&out));
            }
            comp.compress();
            let out: Vec<u8> = core::mem::take(comp.drain_mut().unwrap());
            outs.push(hex(&out));
            format!("ok {}", outs.join(" "))
        }
        // rencm <level 0|1> <window> <frames> : frames separated by '/', blocks by '+';
        // block = <data-hex>:<ll>,<off>,<ml>;...  (a parse of the block: literal run, then match; the rest are
        // trailing literals) or <data-hex>:- (no sequences) ; a block spec starting with 'p' is a partial last block.
        // One reused FrameCompressor with a user-implemented Matcher replays the parses.
        "rencm" => {
            let level = if w[1] == "0" {
                ruzstd::encoding::CompressionLevel::Uncompressed
            } else {
                ruzstd::encoding::CompressionLevel::Fastest
            };
            let window: u64 = w[2].parse().unwrap();
            let frames: Vec<&str> = w[3].split('/').collect();
            let mut comp = ruzstd::encoding::FrameCompressor::new_with_matcher(
                Scripted { blocks: std::collections::VecDeque::new(), window, last: Vec::new(), seqs: Vec::new() },
                level,
            );
            let mut outs = Vec::new();
            for fr in frames {
                let mut data = Vec::new();
                let mut blocks = std::collections::VecDeque::new();
                for b in fr.split('+') {
                    let (partial, b) = if let Some(r) = b.strip_prefix('p') { (true, r) } else { (false, b) };
                    let mut it = b.split(':');
                    let d = unhex(it.next().unwrap());
                    let sq = it.next().unwrap_or("-");
                    let seqs: Vec<(usize, usize, usize)> = if sq == "-" {
                        Vec::new()
                    } else {
                        sq.split(';')
                            .map(|t| {
                                let v: Vec<usize> = t.split(',').map(|x| x.parse().unwrap()).collect();
                                (v[0], v[1], v[2])
                            })
                            .collect()
                    };
                    blocks.push_back((d.len() + partial as usize, seqs));
                    data.extend_from_slice(&d);
                }
                // replace the matcher's script for this frame
                let m = comp.replace_matcher(Scripted { blocks: std::collections::VecDeque::new(), window, last: Vec::new(), seqs: Vec::new() });
                let _ = comp.replace_matcher(Scripted { blocks, window, last: m.last, seqs: Vec::new() });
                comp.set_source(crate::prog::Src::new(data, 0));
                comp.set_drain(Vec::new());
                comp.compress();
                let out: Vec<u8> = comp.take_drain().unwrap();
                outs.push(hex(&out));
            }
            format!("ok {}", outs.join(" "))
        }
        other => format!("unknown {}", other),
    }
}


/// a user-implemented match finder that replays a given parse of each block
struct Scripted {
    blocks: std::collections::VecDeque<(usize, Vec<(usize, usize, usize)>)>,
    window: u64,
    last: Vec<u8>,
    seqs: Vec<(usize, usize, usize)>,
}

impl ruzstd::encoding::Matcher for Scripted {
    fn get_next_space(&mut self) -> Vec<u8> {
        let (len, seqs) = self.blocks.pop_front().unwrap_or((1, Vec::new()));
        self.seqs = seqs;
        vec![0; len.max(1)]
    }
    fn get_last_space(&mut self) -> &[u8] {
        &self.last
    }
    fn commit_space(&mut self, space: Vec<u8>) {
        self.last = space;
    }
    fn skip_matching(&mut self) {}
    fn start_matching(&mut self, mut handle_sequence: impl for<'a> FnMut(ruzstd::encoding::Sequence<'a>)) {
        let mut pos = 0;
        for (ll, off, ml) in self.seqs.iter() {
            handle_sequence(ruzstd::encoding::Sequence::Triple { literals: &self.last[pos..pos + ll], offset: *off, match_len: *ml });
            pos += ll + ml;
        }
        if pos < self.last.len() {
            handle_sequence(ruzstd::encoding::Sequence::Literals { literals: &self.last[pos..] });
        }
    }
    fn reset(&mut self, _level: ruzstd::encoding::CompressionLevel) {}
    fn window_size(&self) -> u64 {
        self.window
    }
}
