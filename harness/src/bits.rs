//! reversed bit reader: line = <source-hex> op op ... ; op = g<n> (get_bits) | t<n1>,<n2>,<n3> (get_bits_triple)
//! output per op: values joined by ',' then ':' bits_remaining
use crate::util::unhex;
use ruzstd::verif_hooks::BitReaderReversed;

pub fn run_line(line: &str) -> String {
    let w: Vec<&str> = line.split_whitespace().collect();
    let src = unhex(w[0]);
    let mut br = BitReaderReversed::new(&src);
    let mut out = Vec::new();
    for op in &w[1..] {
        if let Some(n) = op.strip_prefix('g') {
            let v = br.get_bits(n.parse().unwrap());
            out.push(format!("{}:{}", v, br.bits_remaining()));
        } else {
            let v: Vec<u8> = op[1..].split(',').map(|x| x.parse().unwrap()).collect();
            let (a, b, c) = br.get_bits_triple(v[0], v[1], v[2]);
            out.push(format!("{},{},{}:{}", a, b, c, br.bits_remaining()));
        }
    }
    out.join(" ")
}
