//! dictionary builder: line = <source_size_estimate> <dict_size> <chunk> <data-hex>
//! -> ok <output-hex> | panic   (the reader hands out at most <chunk> bytes per call, 0 = everything)
use crate::util::{hex, unhex};

pub fn run_line(line: &str) -> String {
    let w: Vec<&str> = line.split_whitespace().collect();
    let est: usize = w[0].parse().unwrap();
    let dict_size: usize = w[1].parse().unwrap();
    let chunk: usize = w[2].parse().unwrap();
    let data = unhex(w[3]);
    let src = crate::prog::Src::new(data, chunk);
    let mut out = Vec::new();
    ruzstd::dictionary::create_raw_dict_from_source(src, est, &mut out, dict_size);
    format!("ok {}", hex(&out))
}
