//! entropy-coder components: FSE and Huffman tables and streams of decoder and encoder (hooks + fuzz_exports)
use crate::util::*;
use ruzstd::fse::fse_encoder::verif as fe;
use ruzstd::huff0::huff0_encoder::verif as he;

pub fn run_line(line: &str) -> String {
    let w: Vec<&str> = line.split_whitespace().collect();
    match w[0] {
        // fse <max_symbol> <max_log> <hex> : decoder table from a serialized description
        "fse" => {
            let mut t = ruzstd::fse::FSETable::new(w[1].parse().unwrap());
            match t.build_decoder(&unhex(w[3]), w[2].parse().unwrap()) {
                Ok(used) => {
                    let mut s = format!("ok {} {}", used, t.accuracy_log);
                    for e in t.decode.iter() {
                        s.push_str(&format!(" {},{},{}", e.symbol, e.num_bits, e.base_line));
                    }
                    s
                }
                Err(e) => { if std::env::var("ZH_DEBUG").is_ok() { format!("err {:?}", e).chars().take(200).collect() } else { "err".to_string() } }
            }
        }
        // fseprobs <max_symbol> <acc_log> <p0,p1,...> : decoder table from probabilities
        "fseprobs" => {
            let probs: Vec<i32> = w[3].split(',').map(|x| x.parse().unwrap()).collect();
            let mut t = ruzstd::fse::FSETable::new(w[1].parse().unwrap());
            match t.build_from_probabilities(w[2].parse().unwrap(), &probs) {
                Ok(()) => {
                    let mut s = format!("ok 0 {}", t.accuracy_log);
                    for e in t.decode.iter() {
                        s.push_str(&format!(" {},{},{}", e.symbol, e.num_bits, e.base_line));
                    }
                    s
                }
                Err(_) => "err".to_string(),
            }
        }
        // huf <hex> : decoder table from a weight description
        "huf" => {
            let mut t = ruzstd::huff0::HuffmanTable::new();
            match t.build_decoder(&unhex(w[1])) {
                Ok(used) => {
                    let (m, d) = t.verif_dump();
                    let mut s = format!("ok {} {}", used, m);
                    for (sym, nb) in d {
                        s.push_str(&format!(" {},{}", sym, nb));
                    }
                    s
                }
                Err(_) => "err".to_string(),
            }
        }
        // encoder side ---------------------------------------------------------------------------------------
        // fsenorm <max_log> <avoid> <c0,c1,...> : normalisation of a histogram -> acc_log, probabilities, states
        "fsenorm" => {
            let counts: Vec<usize> = w[3].split(',').map(|x| x.parse().unwrap()).collect();
            let (al, probs, states) = fe::table_from_counts(&counts, w[1].parse().unwrap(), w[2] != "0");
            let mut st: Vec<_> = states;
            st.sort_by_key(|x| x.1);
            format!(
                "ok {} {} {}",
                al,
                probs.iter().map(|p| p.to_string()).collect::<Vec<_>>().join(","),
                st.iter().map(|(s, i, b, n)| format!("{},{},{},{}", s, i, b, n)).collect::<Vec<_>>().join(" ")
            )
        }
        // fsewrite <acc_log> <p0,p1,..> : serialized table description
        "fsewrite" => {
            let probs: Vec<i32> = w[2].split(',').map(|x| x.parse().unwrap()).collect();
            format!("ok {}", hex(&fe::write_table(&probs, w[1].parse().unwrap())))
        }
        // fseenc2 <max_log> <avoid> <hex data> : table description + two interleaved states
        "fseenc2" => format!("ok {}", hex(&fe::encode_interleaved(&unhex(w[3]), w[1].parse().unwrap(), w[2] != "0"))),
        // hufshape <n>
        "hufshape" => format!("ok {}", he::shape(w[1].parse().unwrap()).iter().map(|x| x.to_string()).collect::<Vec<_>>().join(",")),
        // hufcodes <c0,c1,...> : codes from a histogram
        "hufcodes" => {
            let counts: Vec<usize> = w[1].split(',').map(|x| x.parse().unwrap()).collect();
            let codes = he::codes_from_counts(&counts);
            format!("ok {}", codes.iter().map(|(c, n)| format!("{},{}", c, n)).collect::<Vec<_>>().join(" "))
        }
        // hufenc <1|4> <hex data> : description + streams
        "hufenc" => format!("ok {}", hex(&he::encode(&unhex(w[2]), w[1] == "4"))),
        // hufrt <hex data>: the crate's own round-trip helper (asserts inside)
        "hufrt" => {
            ruzstd::huff0::round_trip(&unhex(w[1]));
            "ok".to_string()
        }
        "fsert" => {
            ruzstd::fse::round_trip(&unhex(w[1]));
            "ok".to_string()
        }
        other => format!("unknown {}", other),
    }
}
