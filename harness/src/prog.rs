//! driver programs over FrameDecoder / StreamingDecoder (public API only); mirrored by ocaml/driver.ml `prog`
use crate::util::*;
use ruzstd::decoding::{BlockDecodingStrategy, Dictionary, FrameDecoder, StreamingDecoder};
use std::cell::Cell;
use std::io::{Read, Write};
use std::rc::Rc;

/// shared-position byte source with optional fragmentation (at most `frag` bytes per read call)
#[derive(Clone)]
pub struct Src {
    pub data: Rc<Vec<u8>>,
    pub pos: Rc<Cell<usize>>,
    pub frag: usize,
    pub reads: Rc<Cell<usize>>,
}
impl Src {
    pub fn new(data: Vec<u8>, frag: usize) -> Src {
        Src { data: Rc::new(data), pos: Rc::new(Cell::new(0)), frag, reads: Rc::new(Cell::new(0)) }
    }
    pub fn remaining(&self) -> usize {
        self.data.len() - self.pos.get()
    }
}
impl Read for Src {
    fn read(&mut self, buf: &mut [u8]) -> std::io::Result<usize> {
        let p = self.pos.get();
        let mut n = buf.len().min(self.data.len() - p);
        if self.frag > 0 {
            n = n.min(self.frag);
        }
        buf[..n].copy_from_slice(&self.data[p..p + n]);
        self.pos.set(p + n);
        self.reads.set(self.reads.get() + 1);
        Ok(n)
    }
}

struct BudgetSink {
    chunk: usize,
    budget: usize,
    mode: u8,
    data: Vec<u8>,
}
impl Write for BudgetSink {
    fn write(&mut self, buf: &[u8]) -> std::io::Result<usize> {
        if self.budget == 0 {
            return if self.mode == 0 {
                Ok(0)
            } else {
                Err(std::io::Error::new(std::io::ErrorKind::WouldBlock, "sink full"))
            };
        }
        let w = self.chunk.max(1).min(self.budget).min(buf.len());
        self.data.extend_from_slice(&buf[..w]);
        self.budget -= w;
        Ok(w)
    }
    fn flush(&mut self) -> std::io::Result<()> {
        Ok(())
    }
}

enum Mode {
    Plain(FrameDecoder),
    Streaming(StreamingDecoder<Src, FrameDecoder>),
    Gone,
}

fn query(d: &FrameDecoder, src: &Src) -> String {
    format!(
        "Q:{}:{}:{}:{}:{}:{}:{}",
        d.bytes_read_from_source(),
        d.is_finished() as u8,
        d.can_collect(),
        d.get_checksum_from_data().map(|c| c as i64).unwrap_or(-1),
        d.content_size(),
        d.blocks_decoded(),
        src.remaining()
    )
}

pub fn run_line(line: &str) -> String {
    let mut out: Vec<String> = Vec::new();
    let mut mode = Mode::Plain(FrameDecoder::new());
    let mut src = Src::new(Vec::new(), 0);
    let mut frag = 0usize;
    for tok in line.split_whitespace() {
        let t = tok;
        let r = std::panic::catch_unwind(std::panic::AssertUnwindSafe(|| -> Option<String> {
            if let Some(h) = t.strip_prefix("src=") {
                src = Src::new(unhex(h), frag);
                return Some("|".to_string());
            }
            if let Some(f) = t.strip_prefix("frag=") {
                frag = f.parse().unwrap();
                src.frag = frag;
                return None;
            }
            // leave streaming mode for everything that is not a streaming op
            let streaming_op = t.starts_with('S') || t.starts_with("Zs,") || t == "Q" || t == "K";
            if !streaming_op {
                if let Mode::Streaming(_) = mode {
                    if let Mode::Streaming(sd) = std::mem::replace(&mut mode, Mode::Gone) {
                        mode = Mode::Plain(sd.into_frame_decoder());
                    }
                }
            }
            if t == "new" {
                mode = Mode::Plain(FrameDecoder::new());
                return None;
            }
            if t == "SI" {
                let dec = match std::mem::replace(&mut mode, Mode::Gone) {
                    Mode::Plain(d) => d,
                    Mode::Streaming(sd) => sd.into_frame_decoder(),
                    Mode::Gone => FrameDecoder::new(),
                };
                // a failed init consumes the decoder in this API: keep a fresh one with the same configuration is
                // not possible, so the program generator only continues with `new` after SI:err
                return Some(match StreamingDecoder::new_with_decoder(src.clone(), dec) {
                    Ok(sd) => {
                        mode = Mode::Streaming(sd);
                        "I:ok".to_string()
                    }
                    Err(_) => {
                        mode = Mode::Plain(FrameDecoder::new());
                        "I:err".to_string()
                    }
                });
            }
            if t == "SX" {
                return None;
            }
            if let Mode::Streaming(sd) = &mut mode {
                if let Some(n) = t.strip_prefix('S') {
                    let n: usize = n.parse().unwrap();
                    let mut buf = vec![0u8; n];
                    return Some(match sd.read(&mut buf) {
                        Ok(k) => format!("S:{}", hex(&buf[..k])),
                        Err(_) => "S:err".to_string(),
                    });
                }
                if let Some(rest) = t.strip_prefix("Zs,") {
                    let n: usize = rest.parse().unwrap();
                    let mut acc: Vec<u8> = Vec::new();
                    let mut status = "ok";
                    let mut iters = 0usize;
                    loop {
                        iters += 1;
                        if iters > 1_000_000 {
                            status = "loop";
                            break;
                        }
                        let mut buf = vec![0u8; n];
                        match sd.read(&mut buf) {
                            Ok(0) => break,
                            Ok(k) => acc.extend_from_slice(&buf[..k]),
                            Err(_) => {
                                status = "err";
                                break;
                            }
                        }
                    }
                    return Some(format!("Z:{}:{}", hex(&acc), status));
                }
                if t == "Q" {
                    return Some(query(&sd.decoder, &src));
                }
                if t == "K" {
                    return Some(format!("K:{}", sd.decoder.get_calculated_checksum().map(|c| c as i64).unwrap_or(-1)));
                }
            }
            let dec = match &mut mode {
                Mode::Plain(d) => d,
                _ => return Some("?mode".to_string()),
            };
            if let Some(h) = t.strip_prefix("dict=") {
                return Some(match Dictionary::decode_dict(&unhex(h)) {
                    Ok(d) => {
                        let id = d.id;
                        dec.add_dict(d).unwrap();
                        format!("dict:ok:{}", id)
                    }
                    Err(_) => "dict:err".to_string(),
                });
            }
            if let Some(m) = t.strip_prefix("maxwin=") {
                dec.set_max_window_size(m.parse().unwrap());
                return None;
            }
            if t == "I" {
                return Some(match dec.reset(&mut src) {
                    Ok(()) => "I:ok".to_string(),
                    Err(_) => "I:err".to_string(),
                });
            }
            if let Some(id) = t.strip_prefix("force=") {
                return Some(match dec.force_dict(id.parse().unwrap()) {
                    Ok(()) => "force:ok".to_string(),
                    Err(_) => "force:err".to_string(),
                });
            }
            if let Some(rest) = t.strip_prefix("B?") {
                if dec.is_finished() {
                    return None;
                }
                let strat = match rest.as_bytes()[0] {
                    b'a' => BlockDecodingStrategy::All,
                    b'b' => BlockDecodingStrategy::UptoBlocks(rest[1..].parse().unwrap()),
                    _ => BlockDecodingStrategy::UptoBytes(rest[1..].parse().unwrap()),
                };
                return Some(match dec.decode_blocks(&mut src, strat) {
                    Ok(f) => format!("B:ok:{}", f as u8),
                    Err(_) => "B:err".to_string(),
                });
            }
            if let Some(rest) = t.strip_prefix('Z') {
                // Z<mode>,<n>: drive the frame to completion; mirrored by the model's driver
                let m = rest.as_bytes()[0];
                let n: usize = rest[2..].parse().unwrap();
                let mut acc: Vec<u8> = Vec::new();
                let mut status = "ok";
                let mut iters = 0usize;
                match m {
                    b'r' | b'c' | b'w' => {
                        while status == "ok" && !(dec.is_finished() && dec.can_collect() == 0) && iters < 1_000_000 {
                            iters += 1;
                            if !dec.is_finished() {
                                let strat = if m == b'c' {
                                    BlockDecodingStrategy::UptoBlocks(1)
                                } else {
                                    BlockDecodingStrategy::UptoBytes(n)
                                };
                                if dec.decode_blocks(&mut src, strat).is_err() {
                                    status = "err";
                                }
                            }
                            if status == "ok" {
                                match m {
                                    b'r' => {
                                        let mut buf = vec![0u8; n];
                                        let k = dec.read(&mut buf).unwrap();
                                        acc.extend_from_slice(&buf[..k]);
                                    }
                                    b'c' => {
                                        if let Some(v) = dec.collect() {
                                            acc.extend_from_slice(&v);
                                        }
                                    }
                                    _ => {
                                        let mut sink = BudgetSink { chunk: n, budget: usize::MAX, mode: 0, data: Vec::new() };
                                        let _ = dec.collect_to_writer(&mut sink);
                                        acc.extend_from_slice(&sink.data);
                                    }
                                }
                            }
                        }
                    }
                    b's' => {
                        return Some("?Zs-needs-streaming-mode".to_string());
                    }
                    _ => {
                        let mut c = n.max(1);
                        loop {
                            if status != "ok" || iters >= 1_000_000 {
                                break;
                            }
                            iters += 1;
                            let p = src.pos.get();
                            let remaining = src.data.len() - p;
                            let chunk = c.min(remaining);
                            let fresh = dec.bytes_read_from_source() == 0 && dec.blocks_decoded() == 0 && dec.content_size() == 0 && dec.is_finished();
                            let mut target = vec![0u8; n];
                            match dec.decode_from_to(&src.data[p..p + chunk], &mut target) {
                                Ok((read, written)) => {
                                    src.pos.set((p + read).min(src.data.len()));
                                    acc.extend_from_slice(&target[..written]);
                                    if read == 0 && written == 0 {
                                        if dec.is_finished() && dec.can_collect() == 0 {
                                            break;
                                        } else if chunk >= remaining {
                                            if !dec.is_finished() {
                                                status = "stuck";
                                            }
                                            break;
                                        } else {
                                            c *= 2;
                                        }
                                    }
                                }
                                Err(_) => {
                                    if fresh && chunk < remaining {
                                        c *= 2;
                                    } else {
                                        status = "err";
                                    }
                                }
                            }
                        }
                    }
                }
                if iters >= 1_000_000 {
                    status = "loop";
                }
                return Some(format!("Z:{}:{}", hex(&acc), status));
            }
            if let Some(rest) = t.strip_prefix('B') {
                let strat = match rest.as_bytes()[0] {
                    b'a' => BlockDecodingStrategy::All,
                    b'b' => BlockDecodingStrategy::UptoBlocks(rest[1..].parse().unwrap()),
                    _ => BlockDecodingStrategy::UptoBytes(rest[1..].parse().unwrap()),
                };
                return Some(match dec.decode_blocks(&mut src, strat) {
                    Ok(f) => format!("B:ok:{}", f as u8),
                    Err(_) => "B:err".to_string(),
                });
            }
            if t == "X" {
                // collect everything but print only its length and an independent XXH64 (for very large outputs)
                return Some(match dec.collect() {
                    Some(v) => format!("X:{}:{}", v.len(), crate::xxh::xxh64(&v, 0)),
                    None => "X:none".to_string(),
                });
            }
            if t == "C" {
                return Some(match dec.collect() {
                    Some(v) => format!("C:{}", hex(&v)),
                    None => "C:none".to_string(),
                });
            }
            if let Some(n) = t.strip_prefix('R') {
                let n: usize = n.parse().unwrap();
                let mut buf = vec![0u8; n];
                let k = dec.read(&mut buf).unwrap();
                return Some(format!("R:{}", hex(&buf[..k])));
            }
            if let Some(a) = t.strip_prefix('W') {
                let v: Vec<usize> = a.split(',').map(|x| x.parse().unwrap()).collect();
                let mut sink = BudgetSink { chunk: v[0], budget: v[1], mode: v[2] as u8, data: Vec::new() };
                let r = dec.collect_to_writer(&mut sink);
                return Some(format!("W:{}:{}", hex(&sink.data), r.is_ok() as u8));
            }
            if let Some(a) = t.strip_prefix('F') {
                let v: Vec<usize> = a.split(',').map(|x| x.parse().unwrap()).collect();
                let p = src.pos.get();
                let avail = &src.data[p..(p + v[0]).min(src.data.len())];
                let mut target = vec![0u8; v[1]];
                return Some(match dec.decode_from_to(avail, &mut target) {
                    Ok((read, written)) => {
                        src.pos.set((p + read).min(src.data.len()));
                        format!("F:{}:{}", read, hex(&target[..written]))
                    }
                    Err(_) => "F:err".to_string(),
                });
            }
            if let Some(c) = t.strip_prefix('A') {
                let cap: usize = c.parse().unwrap();
                let p = src.pos.get();
                let input = src.data[p..].to_vec();
                let mut output: Vec<u8> = Vec::with_capacity(cap);
                let r = dec.decode_all_to_vec(&input, &mut output);
                src.pos.set(src.data.len());
                return Some(match r {
                    Ok(()) => format!("A:{}", hex(&output)),
                    Err(_) => {
                        if !output.is_empty() {
                            "A:err-vector-changed".to_string()
                        } else {
                            "A:err".to_string()
                        }
                    }
                });
            }
            if t == "Q" {
                return Some(query(dec, &src));
            }
            if t == "K" {
                return Some(format!("K:{}", dec.get_calculated_checksum().map(|c| c as i64).unwrap_or(-1)));
            }
            if t == "V" {
                // the entropy tables held in the scratch space (hook): 4 x 6 numbers
                return Some(match dec.verif_scratch_summary() {
                    Some(t) => format!("V:{}", t.iter().map(|r| r.iter().map(|x| x.to_string()).collect::<Vec<_>>().join(",")).collect::<Vec<_>>().join(";")),
                    None => "V:none".to_string(),
                });
            }
            Some(format!("?{}", t))
        }));
        match r {
            Ok(Some(s)) => out.push(s),
            Ok(None) => {}
            Err(_) => {
                let kind = tok.chars().next().unwrap_or('?');
                let kind = if tok.starts_with("dict=") { "dict".to_string() } else if tok == "SI" { "I".to_string() } else { kind.to_string() };
                out.push(format!("{}:panic", kind));
                // a panic may leave the decoder in an arbitrary state: start over
                mode = Mode::Plain(FrameDecoder::new());
            }
        }
    }
    out.join(" ")
}
