//! operation sequences on the crate-private RingBuffer (hook: verif_hooks::RingBuffer, verif_raw, copy trace)
use crate::util::*;
use ruzstd::verif_hooks as vh;
use std::collections::VecDeque;

fn state(rb: &vh::RingBuffer) -> String {
    let (_, cap, head, tail) = rb.verif_raw();
    let (a, b) = rb.as_slices();
    let mut v = a.to_vec();
    v.extend_from_slice(b);
    format!("{},{},{},{},{},{}", cap, head, tail, rb.len(), rb.free(), hex(&v))
}

fn copies(base: usize) -> String {
    let recs = vh::take_copies();
    let mut s = String::new();
    for r in recs {
        s.push_str(&format!(
            "[{},{},{},{},{},{}]",
            r[0].wrapping_sub(base),
            r[1],
            r[2].wrapping_sub(base),
            r[3],
            r[4],
            r[5]
        ));
    }
    if s.is_empty() {
        s.push('-');
    }
    s
}

/// one line = one op sequence; output: per op "state|copies|oracle_ok", joined by ' '
pub fn run_line(line: &str) -> String {
    let mut rb = vh::RingBuffer::new();
    let mut oracle: VecDeque<u8> = VecDeque::new();
    let mut out: Vec<String> = Vec::new();
    vh::set_recording(true);
    vh::take_copies();
    for tok in line.split_whitespace() {
        let (tag, rest) = tok.split_at(1);
        let args: Vec<&str> = if rest.is_empty() { vec![] } else { rest.split(',').collect() };
        let r = std::panic::catch_unwind(std::panic::AssertUnwindSafe(|| match tag {
            "e" => {
                let d = unhex(args[0]);
                rb.extend(&d);
                oracle.extend(d.iter());
            }
            "f" => {
                let b = args[0].parse::<u8>().unwrap();
                let n = args[1].parse::<usize>().unwrap();
                rb.extend_and_fill(b, n);
                oracle.extend(std::iter::repeat(b).take(n));
            }
            "d" => {
                let n = args[0].parse::<usize>().unwrap();
                rb.drop_first_n(n);
                for _ in 0..n.min(oracle.len()) {
                    oracle.pop_front();
                }
            }
            "r" => rb.reserve(args[0].parse::<usize>().unwrap()),
            "c" => {
                rb.clear();
                oracle.clear();
            }
            "w" => {
                let st = args[0].parse::<usize>().unwrap();
                let n = args[1].parse::<usize>().unwrap();
                rb.extend_from_within(st, n);
                for i in 0..n {
                    let b = oracle[st + i];
                    oracle.push_back(b);
                }
            }
            "u" => {
                // caller guarantees start + n <= len and free >= n
                let st = args[0].parse::<usize>().unwrap();
                let n = args[1].parse::<usize>().unwrap();
                unsafe { rb.extend_from_within_unchecked(st, n) };
                for i in 0..n {
                    let b = oracle[st + i];
                    oracle.push_back(b);
                }
            }
            "R" => {
                let n = args[0].parse::<usize>().unwrap();
                let avail = args[1].parse::<usize>().unwrap();
                let src: Vec<u8> = (0..avail).map(|i| ((i * 7 + 3) % 256) as u8).collect();
                let r = rb.extend_from_reader(&src[..], n);
                if r.is_ok() {
                    oracle.extend(src[..n].iter());
                }
            }
            _ => panic!("bad op"),
        }));
        let base = rb.verif_raw().0;
        match r {
            Ok(()) => {
                let (a, b) = rb.as_slices();
                let same = a.iter().chain(b.iter()).copied().eq(oracle.iter().copied());
                out.push(format!("{}|{}|{}", state(&rb), copies(base), same as u8));
            }
            Err(_) => {
                vh::take_copies();
                out.push("panic".to_string());
                break;
            }
        }
    }
    vh::set_recording(false);
    out.join(" ")
}
