pub fn unhex(s: &str) -> Vec<u8> {
    if s == "-" {
        return Vec::new();
    }
    let b = s.as_bytes();
    (0..b.len() / 2)
        .map(|i| u8::from_str_radix(std::str::from_utf8(&b[2 * i..2 * i + 2]).unwrap(), 16).unwrap())
        .collect()
}
pub fn hex(b: &[u8]) -> String {
    if b.is_empty() {
        return "-".to_string();
    }
    let mut s = String::with_capacity(b.len() * 2);
    for x in b {
        s.push_str(&format!("{:02x}", x));
    }
    s
}
pub fn nums(s: &[&str]) -> Vec<u64> {
    s.iter().map(|x| x.parse::<u64>().unwrap()).collect()
}
