//! An independent XXH64 (written for this harness from the algorithm's specification; it does not use twox-hash):
//! the oracle for content checksums.
const P1: u64 = 11400714785074694791;
const P2: u64 = 14029467366897019727;
const P3: u64 = 1609587929392839161;
const P4: u64 = 9650029242287828579;
const P5: u64 = 2870177450012600261;

fn rnd(acc: u64, input: u64) -> u64 {
    acc.wrapping_add(input.wrapping_mul(P2)).rotate_left(31).wrapping_mul(P1)
}
fn merge(acc: u64, val: u64) -> u64 {
    (acc ^ rnd(0, val)).wrapping_mul(P1).wrapping_add(P4)
}
fn rd64(b: &[u8]) -> u64 {
    u64::from_le_bytes([b[0], b[1], b[2], b[3], b[4], b[5], b[6], b[7]])
}
pub fn xxh64(data: &[u8], seed: u64) -> u64 {
    let n = data.len();
    let mut p = 0;
    let mut h;
    if n >= 32 {
        let (mut v1, mut v2, mut v3, mut v4) = (
            seed.wrapping_add(P1).wrapping_add(P2),
            seed.wrapping_add(P2),
            seed,
            seed.wrapping_sub(P1),
        );
        while p + 32 <= n {
            v1 = rnd(v1, rd64(&data[p..]));
            v2 = rnd(v2, rd64(&data[p + 8..]));
            v3 = rnd(v3, rd64(&data[p + 16..]));
            v4 = rnd(v4, rd64(&data[p + 24..]));
            p += 32;
        }
        h = v1.rotate_left(1).wrapping_add(v2.rotate_left(7)).wrapping_add(v3.rotate_left(12)).wrapping_add(v4.rotate_left(18));
        h = merge(h, v1);
        h = merge(h, v2);
        h = merge(h, v3);
        h = merge(h, v4);
    } else {
        h = seed.wrapping_add(P5);
    }
    h = h.wrapping_add(n as u64);
    while p + 8 <= n {
        h ^= rnd(0, rd64(&data[p..]));
        h = h.rotate_left(27).wrapping_mul(P1).wrapping_add(P4);
        p += 8;
    }
    if p + 4 <= n {
        let v = u32::from_le_bytes([data[p], data[p + 1], data[p + 2], data[p + 3]]) as u64;
        h ^= v.wrapping_mul(P1);
        h = h.rotate_left(23).wrapping_mul(P2).wrapping_add(P3);
        p += 4;
    }
    while p < n {
        h ^= (data[p] as u64).wrapping_mul(P5);
        h = h.rotate_left(11).wrapping_mul(P1);
        p += 1;
    }
    h ^= h >> 33;
    h = h.wrapping_mul(P2);
    h ^= h >> 29;
    h = h.wrapping_mul(P3);
    h ^= h >> 32;
    h
}

pub fn run_line(line: &str) -> String {
    format!("{}", xxh64(&crate::util::unhex(line.trim()), 0))
}
