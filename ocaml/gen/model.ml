
(** val negb : bool -> bool **)

let negb = function
| true -> false
| false -> true

type nat =
| O
| S of nat

type ('a, 'b) sum =
| Inl of 'a
| Inr of 'b

(** val snd : ('a1 * 'a2) -> 'a2 **)

let snd = function
| (_, y) -> y

(** val length : 'a1 list -> nat **)

let rec length = function
| [] -> O
| _ :: l' -> S (length l')

(** val app : 'a1 list -> 'a1 list -> 'a1 list **)

let rec app l m =
  match l with
  | [] -> m
  | a :: l1 -> a :: (app l1 m)

type comparison =
| Eq
| Lt
| Gt

(** val compOpp : comparison -> comparison **)

let compOpp = function
| Eq -> Eq
| Lt -> Gt
| Gt -> Lt

module Coq__1 = struct
 (** val add : nat -> nat -> nat **)
 let rec add n0 m =
   match n0 with
   | O -> m
   | S p -> S (add p m)
end
include Coq__1

(** val mul : nat -> nat -> nat **)

let rec mul n0 m =
  match n0 with
  | O -> O
  | S p -> add m (mul p m)

(** val sub : nat -> nat -> nat **)

let rec sub n0 m =
  match n0 with
  | O -> n0
  | S k -> (match m with
            | O -> n0
            | S l -> sub k l)

module Nat =
 struct
  (** val eqb : nat -> nat -> bool **)

  let rec eqb n0 m =
    match n0 with
    | O -> (match m with
            | O -> true
            | S _ -> false)
    | S n' -> (match m with
               | O -> false
               | S m' -> eqb n' m')

  (** val leb : nat -> nat -> bool **)

  let rec leb n0 m =
    match n0 with
    | O -> true
    | S n' -> (match m with
               | O -> false
               | S m' -> leb n' m')

  (** val ltb : nat -> nat -> bool **)

  let ltb n0 m =
    leb (S n0) m
 end

type positive =
| XI of positive
| XO of positive
| XH

type n =
| N0
| Npos of positive

type z =
| Z0
| Zpos of positive
| Zneg of positive

module Pos =
 struct
  (** val succ : positive -> positive **)

  let rec succ = function
  | XI p -> XO (succ p)
  | XO p -> XI p
  | XH -> XO XH

  (** val add : positive -> positive -> positive **)

  let rec add x y =
    match x with
    | XI p ->
      (match y with
       | XI q -> XO (add_carry p q)
       | XO q -> XI (add p q)
       | XH -> XO (succ p))
    | XO p ->
      (match y with
       | XI q -> XI (add p q)
       | XO q -> XO (add p q)
       | XH -> XI p)
    | XH -> (match y with
             | XI q -> XO (succ q)
             | XO q -> XI q
             | XH -> XO XH)

  (** val add_carry : positive -> positive -> positive **)

  and add_carry x y =
    match x with
    | XI p ->
      (match y with
       | XI q -> XI (add_carry p q)
       | XO q -> XO (add_carry p q)
       | XH -> XI (succ p))
    | XO p ->
      (match y with
       | XI q -> XO (add_carry p q)
       | XO q -> XI (add p q)
       | XH -> XO (succ p))
    | XH ->
      (match y with
       | XI q -> XI (succ q)
       | XO q -> XO (succ q)
       | XH -> XI XH)

  (** val pred_double : positive -> positive **)

  let rec pred_double = function
  | XI p -> XI (XO p)
  | XO p -> XI (pred_double p)
  | XH -> XH

  (** val pred_N : positive -> n **)

  let pred_N = function
  | XI p -> Npos (XO p)
  | XO p -> Npos (pred_double p)
  | XH -> N0

  (** val mul : positive -> positive -> positive **)

  let rec mul x y =
    match x with
    | XI p -> add y (XO (mul p y))
    | XO p -> XO (mul p y)
    | XH -> y

  (** val iter : ('a1 -> 'a1) -> 'a1 -> positive -> 'a1 **)

  let rec iter f x = function
  | XI n' -> f (iter f (iter f x n') n')
  | XO n' -> iter f (iter f x n') n'
  | XH -> f x

  (** val size : positive -> positive **)

  let rec size = function
  | XI p0 -> succ (size p0)
  | XO p0 -> succ (size p0)
  | XH -> XH

  (** val compare_cont : comparison -> positive -> positive -> comparison **)

  let rec compare_cont r x y =
    match x with
    | XI p ->
      (match y with
       | XI q -> compare_cont r p q
       | XO q -> compare_cont Gt p q
       | XH -> Gt)
    | XO p ->
      (match y with
       | XI q -> compare_cont Lt p q
       | XO q -> compare_cont r p q
       | XH -> Gt)
    | XH -> (match y with
             | XH -> r
             | _ -> Lt)

  (** val compare : positive -> positive -> comparison **)

  let compare =
    compare_cont Eq

  (** val eqb : positive -> positive -> bool **)

  let rec eqb p q =
    match p with
    | XI p0 -> (match q with
                | XI q0 -> eqb p0 q0
                | _ -> false)
    | XO p0 -> (match q with
                | XO q0 -> eqb p0 q0
                | _ -> false)
    | XH -> (match q with
             | XH -> true
             | _ -> false)

  (** val coq_Nsucc_double : n -> n **)

  let coq_Nsucc_double = function
  | N0 -> Npos XH
  | Npos p -> Npos (XI p)

  (** val coq_Ndouble : n -> n **)

  let coq_Ndouble = function
  | N0 -> N0
  | Npos p -> Npos (XO p)

  (** val coq_lor : positive -> positive -> positive **)

  let rec coq_lor p q =
    match p with
    | XI p0 ->
      (match q with
       | XI q0 -> XI (coq_lor p0 q0)
       | XO q0 -> XI (coq_lor p0 q0)
       | XH -> p)
    | XO p0 ->
      (match q with
       | XI q0 -> XI (coq_lor p0 q0)
       | XO q0 -> XO (coq_lor p0 q0)
       | XH -> XI p0)
    | XH -> (match q with
             | XO q0 -> XI q0
             | _ -> q)

  (** val coq_land : positive -> positive -> n **)

  let rec coq_land p q =
    match p with
    | XI p0 ->
      (match q with
       | XI q0 -> coq_Nsucc_double (coq_land p0 q0)
       | XO q0 -> coq_Ndouble (coq_land p0 q0)
       | XH -> Npos XH)
    | XO p0 ->
      (match q with
       | XI q0 -> coq_Ndouble (coq_land p0 q0)
       | XO q0 -> coq_Ndouble (coq_land p0 q0)
       | XH -> N0)
    | XH -> (match q with
             | XO _ -> N0
             | _ -> Npos XH)

  (** val ldiff : positive -> positive -> n **)

  let rec ldiff p q =
    match p with
    | XI p0 ->
      (match q with
       | XI q0 -> coq_Ndouble (ldiff p0 q0)
       | XO q0 -> coq_Nsucc_double (ldiff p0 q0)
       | XH -> Npos (XO p0))
    | XO p0 ->
      (match q with
       | XI q0 -> coq_Ndouble (ldiff p0 q0)
       | XO q0 -> coq_Ndouble (ldiff p0 q0)
       | XH -> Npos p)
    | XH -> (match q with
             | XO _ -> Npos XH
             | _ -> N0)

  (** val iter_op : ('a1 -> 'a1 -> 'a1) -> positive -> 'a1 -> 'a1 **)

  let rec iter_op op p a =
    match p with
    | XI p0 -> op a (iter_op op p0 (op a a))
    | XO p0 -> iter_op op p0 (op a a)
    | XH -> a

  (** val to_nat : positive -> nat **)

  let to_nat x =
    iter_op Coq__1.add x (S O)

  (** val of_succ_nat : nat -> positive **)

  let rec of_succ_nat = function
  | O -> XH
  | S x -> succ (of_succ_nat x)
 end

module N =
 struct
  (** val succ_pos : n -> positive **)

  let succ_pos = function
  | N0 -> XH
  | Npos p -> Pos.succ p

  (** val coq_lor : n -> n -> n **)

  let coq_lor n0 m =
    match n0 with
    | N0 -> m
    | Npos p -> (match m with
                 | N0 -> n0
                 | Npos q -> Npos (Pos.coq_lor p q))

  (** val coq_land : n -> n -> n **)

  let coq_land n0 m =
    match n0 with
    | N0 -> N0
    | Npos p -> (match m with
                 | N0 -> N0
                 | Npos q -> Pos.coq_land p q)

  (** val ldiff : n -> n -> n **)

  let ldiff n0 m =
    match n0 with
    | N0 -> N0
    | Npos p -> (match m with
                 | N0 -> n0
                 | Npos q -> Pos.ldiff p q)
 end

(** val nth : nat -> 'a1 list -> 'a1 -> 'a1 **)

let rec nth n0 l default =
  match n0 with
  | O -> (match l with
          | [] -> default
          | x :: _ -> x)
  | S m -> (match l with
            | [] -> default
            | _ :: t -> nth m t default)

(** val rev : 'a1 list -> 'a1 list **)

let rec rev = function
| [] -> []
| x :: l' -> app (rev l') (x :: [])

(** val rev_append : 'a1 list -> 'a1 list -> 'a1 list **)

let rec rev_append l l' =
  match l with
  | [] -> l'
  | a :: l0 -> rev_append l0 (a :: l')

(** val map : ('a1 -> 'a2) -> 'a1 list -> 'a2 list **)

let rec map f = function
| [] -> []
| a :: t -> (f a) :: (map f t)

(** val flat_map : ('a1 -> 'a2 list) -> 'a1 list -> 'a2 list **)

let rec flat_map f = function
| [] -> []
| x :: t -> app (f x) (flat_map f t)

(** val filter : ('a1 -> bool) -> 'a1 list -> 'a1 list **)

let rec filter f = function
| [] -> []
| x :: l0 -> if f x then x :: (filter f l0) else filter f l0

(** val find : ('a1 -> bool) -> 'a1 list -> 'a1 option **)

let rec find f = function
| [] -> None
| x :: tl -> if f x then Some x else find f tl

(** val firstn : nat -> 'a1 list -> 'a1 list **)

let rec firstn n0 l =
  match n0 with
  | O -> []
  | S n1 -> (match l with
             | [] -> []
             | a :: l0 -> a :: (firstn n1 l0))

(** val skipn : nat -> 'a1 list -> 'a1 list **)

let rec skipn n0 l =
  match n0 with
  | O -> l
  | S n1 -> (match l with
             | [] -> []
             | _ :: l0 -> skipn n1 l0)

module Z =
 struct
  (** val double : z -> z **)

  let double = function
  | Z0 -> Z0
  | Zpos p -> Zpos (XO p)
  | Zneg p -> Zneg (XO p)

  (** val succ_double : z -> z **)

  let succ_double = function
  | Z0 -> Zpos XH
  | Zpos p -> Zpos (XI p)
  | Zneg p -> Zneg (Pos.pred_double p)

  (** val pred_double : z -> z **)

  let pred_double = function
  | Z0 -> Zneg XH
  | Zpos p -> Zpos (Pos.pred_double p)
  | Zneg p -> Zneg (XI p)

  (** val pos_sub : positive -> positive -> z **)

  let rec pos_sub x y =
    match x with
    | XI p ->
      (match y with
       | XI q -> double (pos_sub p q)
       | XO q -> succ_double (pos_sub p q)
       | XH -> Zpos (XO p))
    | XO p ->
      (match y with
       | XI q -> pred_double (pos_sub p q)
       | XO q -> double (pos_sub p q)
       | XH -> Zpos (Pos.pred_double p))
    | XH ->
      (match y with
       | XI q -> Zneg (XO q)
       | XO q -> Zneg (Pos.pred_double q)
       | XH -> Z0)

  (** val add : z -> z -> z **)

  let add x y =
    match x with
    | Z0 -> y
    | Zpos x' ->
      (match y with
       | Z0 -> x
       | Zpos y' -> Zpos (Pos.add x' y')
       | Zneg y' -> pos_sub x' y')
    | Zneg x' ->
      (match y with
       | Z0 -> x
       | Zpos y' -> pos_sub y' x'
       | Zneg y' -> Zneg (Pos.add x' y'))

  (** val opp : z -> z **)

  let opp = function
  | Z0 -> Z0
  | Zpos x0 -> Zneg x0
  | Zneg x0 -> Zpos x0

  (** val sub : z -> z -> z **)

  let sub m n0 =
    add m (opp n0)

  (** val mul : z -> z -> z **)

  let mul x y =
    match x with
    | Z0 -> Z0
    | Zpos x' ->
      (match y with
       | Z0 -> Z0
       | Zpos y' -> Zpos (Pos.mul x' y')
       | Zneg y' -> Zneg (Pos.mul x' y'))
    | Zneg x' ->
      (match y with
       | Z0 -> Z0
       | Zpos y' -> Zneg (Pos.mul x' y')
       | Zneg y' -> Zpos (Pos.mul x' y'))

  (** val pow_pos : z -> positive -> z **)

  let pow_pos z0 =
    Pos.iter (mul z0) (Zpos XH)

  (** val pow : z -> z -> z **)

  let pow x = function
  | Z0 -> Zpos XH
  | Zpos p -> pow_pos x p
  | Zneg _ -> Z0

  (** val compare : z -> z -> comparison **)

  let compare x y =
    match x with
    | Z0 -> (match y with
             | Z0 -> Eq
             | Zpos _ -> Lt
             | Zneg _ -> Gt)
    | Zpos x' -> (match y with
                  | Zpos y' -> Pos.compare x' y'
                  | _ -> Gt)
    | Zneg x' ->
      (match y with
       | Zneg y' -> compOpp (Pos.compare x' y')
       | _ -> Lt)

  (** val leb : z -> z -> bool **)

  let leb x y =
    match compare x y with
    | Gt -> false
    | _ -> true

  (** val ltb : z -> z -> bool **)

  let ltb x y =
    match compare x y with
    | Lt -> true
    | _ -> false

  (** val geb : z -> z -> bool **)

  let geb x y =
    match compare x y with
    | Lt -> false
    | _ -> true

  (** val gtb : z -> z -> bool **)

  let gtb x y =
    match compare x y with
    | Gt -> true
    | _ -> false

  (** val eqb : z -> z -> bool **)

  let eqb x y =
    match x with
    | Z0 -> (match y with
             | Z0 -> true
             | _ -> false)
    | Zpos p -> (match y with
                 | Zpos q -> Pos.eqb p q
                 | _ -> false)
    | Zneg p -> (match y with
                 | Zneg q -> Pos.eqb p q
                 | _ -> false)

  (** val max : z -> z -> z **)

  let max n0 m =
    match compare n0 m with
    | Lt -> m
    | _ -> n0

  (** val min : z -> z -> z **)

  let min n0 m =
    match compare n0 m with
    | Gt -> m
    | _ -> n0

  (** val to_nat : z -> nat **)

  let to_nat = function
  | Zpos p -> Pos.to_nat p
  | _ -> O

  (** val of_nat : nat -> z **)

  let of_nat = function
  | O -> Z0
  | S n1 -> Zpos (Pos.of_succ_nat n1)

  (** val of_N : n -> z **)

  let of_N = function
  | N0 -> Z0
  | Npos p -> Zpos p

  (** val pos_div_eucl : positive -> z -> z * z **)

  let rec pos_div_eucl a b =
    match a with
    | XI a' ->
      let (q, r) = pos_div_eucl a' b in
      let r' = add (mul (Zpos (XO XH)) r) (Zpos XH) in
      if ltb r' b
      then ((mul (Zpos (XO XH)) q), r')
      else ((add (mul (Zpos (XO XH)) q) (Zpos XH)), (sub r' b))
    | XO a' ->
      let (q, r) = pos_div_eucl a' b in
      let r' = mul (Zpos (XO XH)) r in
      if ltb r' b
      then ((mul (Zpos (XO XH)) q), r')
      else ((add (mul (Zpos (XO XH)) q) (Zpos XH)), (sub r' b))
    | XH -> if leb (Zpos (XO XH)) b then (Z0, (Zpos XH)) else ((Zpos XH), Z0)

  (** val div_eucl : z -> z -> z * z **)

  let div_eucl a b =
    match a with
    | Z0 -> (Z0, Z0)
    | Zpos a' ->
      (match b with
       | Z0 -> (Z0, a)
       | Zpos _ -> pos_div_eucl a' b
       | Zneg b' ->
         let (q, r) = pos_div_eucl a' (Zpos b') in
         (match r with
          | Z0 -> ((opp q), Z0)
          | _ -> ((opp (add q (Zpos XH))), (add b r))))
    | Zneg a' ->
      (match b with
       | Z0 -> (Z0, a)
       | Zpos _ ->
         let (q, r) = pos_div_eucl a' b in
         (match r with
          | Z0 -> ((opp q), Z0)
          | _ -> ((opp (add q (Zpos XH))), (sub b r)))
       | Zneg b' -> let (q, r) = pos_div_eucl a' (Zpos b') in (q, (opp r)))

  (** val div : z -> z -> z **)

  let div a b =
    let (q, _) = div_eucl a b in q

  (** val modulo : z -> z -> z **)

  let modulo a b =
    let (_, r) = div_eucl a b in r

  (** val odd : z -> bool **)

  let odd = function
  | Z0 -> false
  | Zpos p -> (match p with
               | XO _ -> false
               | _ -> true)
  | Zneg p -> (match p with
               | XO _ -> false
               | _ -> true)

  (** val log2 : z -> z **)

  let log2 = function
  | Zpos p0 ->
    (match p0 with
     | XI p -> Zpos (Pos.size p)
     | XO p -> Zpos (Pos.size p)
     | XH -> Z0)
  | _ -> Z0

  (** val coq_lor : z -> z -> z **)

  let coq_lor a b =
    match a with
    | Z0 -> b
    | Zpos a0 ->
      (match b with
       | Z0 -> a
       | Zpos b0 -> Zpos (Pos.coq_lor a0 b0)
       | Zneg b0 -> Zneg (N.succ_pos (N.ldiff (Pos.pred_N b0) (Npos a0))))
    | Zneg a0 ->
      (match b with
       | Z0 -> a
       | Zpos b0 -> Zneg (N.succ_pos (N.ldiff (Pos.pred_N a0) (Npos b0)))
       | Zneg b0 ->
         Zneg (N.succ_pos (N.coq_land (Pos.pred_N a0) (Pos.pred_N b0))))

  (** val coq_land : z -> z -> z **)

  let coq_land a b =
    match a with
    | Z0 -> Z0
    | Zpos a0 ->
      (match b with
       | Z0 -> Z0
       | Zpos b0 -> of_N (Pos.coq_land a0 b0)
       | Zneg b0 -> of_N (N.ldiff (Npos a0) (Pos.pred_N b0)))
    | Zneg a0 ->
      (match b with
       | Z0 -> Z0
       | Zpos b0 -> of_N (N.ldiff (Npos b0) (Pos.pred_N a0))
       | Zneg b0 ->
         Zneg (N.succ_pos (N.coq_lor (Pos.pred_N a0) (Pos.pred_N b0))))
 end

type ascii =
| Ascii of bool * bool * bool * bool * bool * bool * bool * bool

type string =
| EmptyString
| String of ascii * string

type 'a res =
| ROk of 'a
| RErr of string
| RPanic of string

(** val is_some : 'a1 option -> bool **)

let is_some = function
| Some _ -> true
| None -> false

(** val rbind : 'a1 res -> ('a1 -> 'a2 res) -> 'a2 res **)

let rbind r f =
  match r with
  | ROk a -> f a
  | RErr e -> RErr e
  | RPanic s -> RPanic s

(** val znth : z list -> z -> z **)

let znth l i =
  nth (Z.to_nat i) l Z0

(** val upd_nat : z list -> nat -> z -> z list **)

let rec upd_nat l i v =
  match l with
  | [] -> []
  | h :: t -> (match i with
               | O -> v :: t
               | S i' -> h :: (upd_nat t i' v))

(** val zupd : z list -> z -> z -> z list **)

let zupd l i v =
  upd_nat l (Z.to_nat i) v

(** val le_val : z list -> z **)

let rec le_val = function
| [] -> Z0
| b :: t ->
  Z.add b (Z.mul (Zpos (XO (XO (XO (XO (XO (XO (XO (XO XH))))))))) (le_val t))

type bit = bool

(** val b2z : bit -> z **)

let b2z = function
| true -> Zpos XH
| false -> Z0

(** val byte_bits_lsb : nat -> z -> bit list **)

let rec byte_bits_lsb n0 x =
  match n0 with
  | O -> []
  | S n' -> (Z.odd x) :: (byte_bits_lsb n' (Z.div x (Zpos (XO XH))))

(** val bits_of_bytes_lsb : z list -> bit list **)

let bits_of_bytes_lsb l =
  flat_map (byte_bits_lsb (S (S (S (S (S (S (S (S O))))))))) l

(** val bits_val_lsb : bit list -> z **)

let rec bits_val_lsb = function
| [] -> Z0
| b :: t -> Z.add (b2z b) (Z.mul (Zpos (XO XH)) (bits_val_lsb t))

(** val bits_val_msb_acc : z -> bit list -> z **)

let rec bits_val_msb_acc acc = function
| [] -> acc
| b :: t -> bits_val_msb_acc (Z.add (Z.mul (Zpos (XO XH)) acc) (b2z b)) t

(** val bits_val_msb : bit list -> z **)

let bits_val_msb l =
  bits_val_msb_acc Z0 l

type fbr = { f_past : bit list; f_rest : bit list }

(** val fbr_new : z list -> fbr **)

let fbr_new src =
  { f_past = []; f_rest = (bits_of_bytes_lsb src) }

(** val fbr_bits_read : fbr -> z **)

let fbr_bits_read r =
  Z.of_nat (length r.f_past)

(** val fbr_bits_left : fbr -> z **)

let fbr_bits_left r =
  Z.of_nat (length r.f_rest)

(** val fbr_get_bits : fbr -> z -> (z * fbr) res **)

let fbr_get_bits r n0 =
  if Z.ltb (Zpos (XO (XO (XO (XO (XO (XO XH))))))) n0
  then RErr (String ((Ascii (false, false, true, false, true, false, true,
         false)), (String ((Ascii (true, true, true, true, false, true, true,
         false)), (String ((Ascii (true, true, true, true, false, true, true,
         false)), (String ((Ascii (true, false, true, true, false, false,
         true, false)), (String ((Ascii (true, false, false, false, false,
         true, true, false)), (String ((Ascii (false, true, true, true,
         false, true, true, false)), (String ((Ascii (true, false, false,
         true, true, true, true, false)), (String ((Ascii (false, true,
         false, false, false, false, true, false)), (String ((Ascii (true,
         false, false, true, false, true, true, false)), (String ((Ascii
         (false, false, true, false, true, true, true, false)), (String
         ((Ascii (true, true, false, false, true, true, true, false)),
         EmptyString))))))))))))))))))))))
  else if Z.ltb (fbr_bits_left r) n0
       then RErr (String ((Ascii (false, true, true, true, false, false,
              true, false)), (String ((Ascii (true, true, true, true, false,
              true, true, false)), (String ((Ascii (false, false, true,
              false, true, true, true, false)), (String ((Ascii (true, false,
              true, false, false, false, true, false)), (String ((Ascii
              (false, true, true, true, false, true, true, false)), (String
              ((Ascii (true, true, true, true, false, true, true, false)),
              (String ((Ascii (true, false, true, false, true, true, true,
              false)), (String ((Ascii (true, true, true, false, false, true,
              true, false)), (String ((Ascii (false, false, false, true,
              false, true, true, false)), (String ((Ascii (false, true,
              false, false, true, false, true, false)), (String ((Ascii
              (true, false, true, false, false, true, true, false)), (String
              ((Ascii (true, false, true, true, false, true, true, false)),
              (String ((Ascii (true, false, false, false, false, true, true,
              false)), (String ((Ascii (true, false, false, true, false,
              true, true, false)), (String ((Ascii (false, true, true, true,
              false, true, true, false)), (String ((Ascii (true, false,
              false, true, false, true, true, false)), (String ((Ascii
              (false, true, true, true, false, true, true, false)), (String
              ((Ascii (true, true, true, false, false, true, true, false)),
              (String ((Ascii (false, true, false, false, false, false, true,
              false)), (String ((Ascii (true, false, false, true, false,
              true, true, false)), (String ((Ascii (false, false, true,
              false, true, true, true, false)), (String ((Ascii (true, true,
              false, false, true, true, true, false)),
              EmptyString))))))))))))))))))))))))))))))))))))))))))))
       else let k = Z.to_nat n0 in
            let taken = firstn k r.f_rest in
            ROk ((bits_val_lsb taken), { f_past =
            (rev_append taken r.f_past); f_rest = (skipn k r.f_rest) })

(** val fbr_return_bits : fbr -> z -> fbr res **)

let fbr_return_bits r n0 =
  if Z.ltb (fbr_bits_read r) n0
  then RPanic (String ((Ascii (true, true, false, false, false, false, true,
         false)), (String ((Ascii (true, false, false, false, false, true,
         true, false)), (String ((Ascii (false, true, true, true, false,
         true, true, false)), (String ((Ascii (false, false, true, false,
         true, true, true, false)), (String ((Ascii (false, false, false,
         false, false, true, false, false)), (String ((Ascii (false, true,
         false, false, true, true, true, false)), (String ((Ascii (true,
         false, true, false, false, true, true, false)), (String ((Ascii
         (false, false, true, false, true, true, true, false)), (String
         ((Ascii (true, false, true, false, true, true, true, false)),
         (String ((Ascii (false, true, false, false, true, true, true,
         false)), (String ((Ascii (false, true, true, true, false, true,
         true, false)), (String ((Ascii (false, false, false, false, false,
         true, false, false)), (String ((Ascii (false, false, true, false,
         true, true, true, false)), (String ((Ascii (false, false, false,
         true, false, true, true, false)), (String ((Ascii (true, false,
         false, true, false, true, true, false)), (String ((Ascii (true,
         true, false, false, true, true, true, false)), (String ((Ascii
         (false, false, false, false, false, true, false, false)), (String
         ((Ascii (true, false, true, true, false, true, true, false)),
         (String ((Ascii (true, false, false, false, false, true, true,
         false)), (String ((Ascii (false, true, true, true, false, true,
         true, false)), (String ((Ascii (true, false, false, true, true,
         true, true, false)), (String ((Ascii (false, false, false, false,
         false, true, false, false)), (String ((Ascii (false, true, false,
         false, false, true, true, false)), (String ((Ascii (true, false,
         false, true, false, true, true, false)), (String ((Ascii (false,
         false, true, false, true, true, true, false)), (String ((Ascii
         (true, true, false, false, true, true, true, false)),
         EmptyString))))))))))))))))))))))))))))))))))))))))))))))))))))
  else let k = Z.to_nat n0 in
       ROk { f_past = (skipn k r.f_past); f_rest =
       (rev_append (firstn k r.f_past) r.f_rest) }

(** val byte_bits_msb : z -> bit list **)

let byte_bits_msb x =
  rev (byte_bits_lsb (S (S (S (S (S (S (S (S O)))))))) x)

(** val bits_of_bytes_rev : z list -> bit list **)

let bits_of_bytes_rev l =
  flat_map byte_bits_msb (rev l)

type rbr = { r_rest : bit list; r_left : z; r_extra : z }

(** val rbr_new : z list -> rbr **)

let rbr_new src =
  { r_rest = (bits_of_bytes_rev src); r_left =
    (Z.mul (Zpos (XO (XO (XO XH)))) (Z.of_nat (length src))); r_extra = Z0 }

(** val rbr_bits_remaining : rbr -> z **)

let rbr_bits_remaining r =
  Z.sub r.r_left r.r_extra

(** val rbr_get_bits : rbr -> z -> z * rbr **)

let rbr_get_bits r n0 =
  if Z.leb n0 Z0
  then (Z0, r)
  else if Z.leb n0 r.r_left
       then let k = Z.to_nat n0 in
            ((bits_val_msb (firstn k r.r_rest)), { r_rest =
            (skipn k r.r_rest); r_left = (Z.sub r.r_left n0); r_extra =
            r.r_extra })
       else let missing = Z.sub n0 r.r_left in
            ((Z.mul (bits_val_msb r.r_rest) (Z.pow (Zpos (XO XH)) missing)),
            { r_rest = []; r_left = Z0; r_extra = (Z.add r.r_extra missing) })

(** val rbr_get_bits_triple : rbr -> z -> z -> z -> ((z * z) * z) * rbr **)

let rbr_get_bits_triple r n1 n2 n3 =
  let (v1, r1) = rbr_get_bits r n1 in
  let (v2, r2) = rbr_get_bits r1 n2 in
  let (v3, r3) = rbr_get_bits r2 n3 in (((v1, v2), v3), r3)

(** val skip_padding : nat -> rbr -> z -> rbr option **)

let rec skip_padding fuel r skipped =
  match fuel with
  | O -> None
  | S f ->
    let (v, r') = rbr_get_bits r (Zpos XH) in
    let skipped0 = Z.add skipped (Zpos XH) in
    if (||) (Z.eqb v (Zpos XH)) (Z.ltb (Zpos (XO (XO (XO XH)))) skipped0)
    then if Z.ltb (Zpos (XO (XO (XO XH)))) skipped0 then None else Some r'
    else skip_padding f r' skipped0

(** val rbr_skip_padding : rbr -> rbr option **)

let rbr_skip_padding r =
  skip_padding (S (S (S (S (S (S (S (S (S (S O)))))))))) r Z0

(** val highest_bit_set : z -> z **)

let highest_bit_set x =
  Z.add (Z.log2 x) (Zpos XH)

type fse_entry = { e_base : z; e_bits : z; e_sym : z }

(** val entry0 : fse_entry **)

let entry0 =
  { e_base = Z0; e_bits = Z0; e_sym = Z0 }

type fse_table = { t_max_symbol : z; t_decode : fse_entry list;
                   t_acc_log : z; t_probs : z list; t_counter : z list }

(** val fse_new : z -> fse_table **)

let fse_new max_symbol =
  { t_max_symbol = max_symbol; t_decode = []; t_acc_log = Z0; t_probs = [];
    t_counter = [] }

(** val fse_reset : fse_table -> fse_table **)

let fse_reset t =
  fse_new t.t_max_symbol

(** val fse_reinit_from : fse_table -> fse_table -> fse_table **)

let fse_reinit_from t other =
  { t_max_symbol = t.t_max_symbol; t_decode = other.t_decode; t_acc_log =
    other.t_acc_log; t_probs = other.t_probs; t_counter = other.t_counter }

(** val aCC_LOG_OFFSET : z **)

let aCC_LOG_OFFSET =
  Zpos (XI (XO XH))

(** val zeros : nat -> z list **)

let rec zeros = function
| O -> []
| S k -> Z0 :: (zeros k)

(** val skip_zero_runs : nat -> fbr -> z list -> (fbr * z list) res **)

let rec skip_zero_runs fuel br probs_rev =
  match fuel with
  | O ->
    RPanic (String ((Ascii (false, true, true, false, false, true, true,
      false)), (String ((Ascii (true, false, true, false, true, true, true,
      false)), (String ((Ascii (true, false, true, false, false, true, true,
      false)), (String ((Ascii (false, false, true, true, false, true, true,
      false)), EmptyString))))))))
  | S f ->
    rbind (fbr_get_bits br (Zpos (XO XH))) (fun pat ->
      let (skip, br') = pat in
      let probs_rev0 = app (zeros (Z.to_nat skip)) probs_rev in
      if Z.eqb skip (Zpos (XI XH))
      then skip_zero_runs f br' probs_rev0
      else ROk (br', probs_rev0))

(** val read_probs_loop :
    nat -> fbr -> z -> z -> z list -> ((fbr * z) * z list) res **)

let rec read_probs_loop fuel br sum0 counter probs_rev =
  match fuel with
  | O ->
    RPanic (String ((Ascii (false, true, true, false, false, true, true,
      false)), (String ((Ascii (true, false, true, false, true, true, true,
      false)), (String ((Ascii (true, false, true, false, false, true, true,
      false)), (String ((Ascii (false, false, true, true, false, true, true,
      false)), EmptyString))))))))
  | S f ->
    if Z.ltb counter sum0
    then let max_remaining = Z.add (Z.sub sum0 counter) (Zpos XH) in
         let bits_to_read = highest_bit_set max_remaining in
         rbind (fbr_get_bits br bits_to_read) (fun pat ->
           let (unchecked, br1) = pat in
           let low_threshold =
             Z.sub (Z.sub (Z.pow (Zpos (XO XH)) bits_to_read) (Zpos XH))
               max_remaining
           in
           let mask =
             Z.sub (Z.pow (Zpos (XO XH)) (Z.sub bits_to_read (Zpos XH)))
               (Zpos XH)
           in
           let small =
             Z.modulo unchecked
               (Z.pow (Zpos (XO XH)) (Z.sub bits_to_read (Zpos XH)))
           in
           rbind
             (if Z.ltb small low_threshold
              then rbind (fbr_return_bits br1 (Zpos XH)) (fun b -> ROk
                     (small, b))
              else if Z.ltb mask unchecked
                   then ROk ((Z.sub unchecked low_threshold), br1)
                   else ROk (unchecked, br1)) (fun pat0 ->
             let (value, br2) = pat0 in
             let prob = Z.sub value (Zpos XH) in
             let probs_rev0 = prob :: probs_rev in
             if Z.eqb prob Z0
             then rbind (skip_zero_runs f br2 probs_rev0) (fun pat1 ->
                    let (br3, probs_rev1) = pat1 in
                    read_probs_loop f br3 sum0 counter probs_rev1)
             else if Z.ltb Z0 prob
                  then read_probs_loop f br2 sum0 (Z.add counter prob)
                         probs_rev0
                  else if Z.eqb prob (Zneg XH)
                       then read_probs_loop f br2 sum0
                              (Z.add counter (Zpos XH)) probs_rev0
                       else RPanic (String ((Ascii (true, false, false,
                              false, false, true, true, false)), (String
                              ((Ascii (true, true, false, false, true, true,
                              true, false)), (String ((Ascii (true, true,
                              false, false, true, true, true, false)),
                              (String ((Ascii (true, false, true, false,
                              false, true, true, false)), (String ((Ascii
                              (false, true, false, false, true, true, true,
                              false)), (String ((Ascii (false, false, true,
                              false, true, true, true, false)), (String
                              ((Ascii (false, false, false, false, false,
                              true, false, false)), (String ((Ascii (false,
                              false, false, false, true, true, true, false)),
                              (String ((Ascii (false, true, false, false,
                              true, true, true, false)), (String ((Ascii
                              (true, true, true, true, false, true, true,
                              false)), (String ((Ascii (false, true, false,
                              false, false, true, true, false)), (String
                              ((Ascii (false, false, false, false, false,
                              true, false, false)), (String ((Ascii (true,
                              false, true, true, true, true, false, false)),
                              (String ((Ascii (true, false, true, true, true,
                              true, false, false)), (String ((Ascii (false,
                              false, false, false, false, true, false,
                              false)), (String ((Ascii (true, false, true,
                              true, false, true, false, false)), (String
                              ((Ascii (true, false, false, false, true, true,
                              false, false)),
                              EmptyString))))))))))))))))))))))))))))))))))))
    else ROk ((br, counter), probs_rev)

(** val read_probabilities : z -> z list -> z -> ((z * z list) * z) res **)

let read_probabilities max_symbol source max_log =
  let br = fbr_new source in
  rbind (fbr_get_bits br (Zpos (XO (XO XH)))) (fun pat ->
    let (v, br0) = pat in
    let acc_log = Z.add aCC_LOG_OFFSET v in
    if Z.ltb max_log acc_log
    then RErr (String ((Ascii (true, false, false, false, false, false, true,
           false)), (String ((Ascii (true, true, false, false, false, true,
           true, false)), (String ((Ascii (true, true, false, false, false,
           true, true, false)), (String ((Ascii (false, false, true, true,
           false, false, true, false)), (String ((Ascii (true, true, true,
           true, false, true, true, false)), (String ((Ascii (true, true,
           true, false, false, true, true, false)), (String ((Ascii (false,
           false, true, false, true, false, true, false)), (String ((Ascii
           (true, true, true, true, false, true, true, false)), (String
           ((Ascii (true, true, true, true, false, true, true, false)),
           (String ((Ascii (false, true, false, false, false, false, true,
           false)), (String ((Ascii (true, false, false, true, false, true,
           true, false)), (String ((Ascii (true, true, true, false, false,
           true, true, false)), EmptyString))))))))))))))))))))))))
    else if Z.eqb acc_log Z0
         then RErr (String ((Ascii (true, false, false, false, false, false,
                true, false)), (String ((Ascii (true, true, false, false,
                false, true, true, false)), (String ((Ascii (true, true,
                false, false, false, true, true, false)), (String ((Ascii
                (false, false, true, true, false, false, true, false)),
                (String ((Ascii (true, true, true, true, false, true, true,
                false)), (String ((Ascii (true, true, true, false, false,
                true, true, false)), (String ((Ascii (true, false, false,
                true, false, false, true, false)), (String ((Ascii (true,
                true, false, false, true, true, true, false)), (String
                ((Ascii (false, true, false, true, true, false, true,
                false)), (String ((Ascii (true, false, true, false, false,
                true, true, false)), (String ((Ascii (false, true, false,
                false, true, true, true, false)), (String ((Ascii (true,
                true, true, true, false, true, true, false)),
                EmptyString))))))))))))))))))))))))
         else let sum0 = Z.pow (Zpos (XO XH)) acc_log in
              rbind
                (read_probs_loop (S
                  (mul (S (S (S (S (S (S (S (S O)))))))) (length source)))
                  br0 sum0 Z0 []) (fun pat0 ->
                let (p, probs_rev) = pat0 in
                let (br1, counter) = p in
                if negb (Z.eqb counter sum0)
                then RErr (String ((Ascii (false, false, false, false, true,
                       false, true, false)), (String ((Ascii (false, true,
                       false, false, true, true, true, false)), (String
                       ((Ascii (true, true, true, true, false, true, true,
                       false)), (String ((Ascii (false, true, false, false,
                       false, true, true, false)), (String ((Ascii (true,
                       false, false, false, false, true, true, false)),
                       (String ((Ascii (false, true, false, false, false,
                       true, true, false)), (String ((Ascii (true, false,
                       false, true, false, true, true, false)), (String
                       ((Ascii (false, false, true, true, false, true, true,
                       false)), (String ((Ascii (true, false, false, true,
                       false, true, true, false)), (String ((Ascii (false,
                       false, true, false, true, true, true, false)), (String
                       ((Ascii (true, false, false, true, true, true, true,
                       false)), (String ((Ascii (true, true, false, false,
                       false, false, true, false)), (String ((Ascii (true,
                       true, true, true, false, true, true, false)), (String
                       ((Ascii (true, false, true, false, true, true, true,
                       false)), (String ((Ascii (false, true, true, true,
                       false, true, true, false)), (String ((Ascii (false,
                       false, true, false, true, true, true, false)), (String
                       ((Ascii (true, false, true, false, false, true, true,
                       false)), (String ((Ascii (false, true, false, false,
                       true, true, true, false)), (String ((Ascii (true,
                       false, true, true, false, false, true, false)),
                       (String ((Ascii (true, false, false, true, false,
                       true, true, false)), (String ((Ascii (true, true,
                       false, false, true, true, true, false)), (String
                       ((Ascii (true, false, true, true, false, true, true,
                       false)), (String ((Ascii (true, false, false, false,
                       false, true, true, false)), (String ((Ascii (false,
                       false, true, false, true, true, true, false)), (String
                       ((Ascii (true, true, false, false, false, true, true,
                       false)), (String ((Ascii (false, false, false, true,
                       false, true, true, false)),
                       EmptyString))))))))))))))))))))))))))))))))))))))))))))))))))))
                else if Z.ltb (Z.add max_symbol (Zpos XH))
                          (Z.of_nat (length probs_rev))
                     then RErr (String ((Ascii (false, false, true, false,
                            true, false, true, false)), (String ((Ascii
                            (true, true, true, true, false, true, true,
                            false)), (String ((Ascii (true, true, true, true,
                            false, true, true, false)), (String ((Ascii
                            (true, false, true, true, false, false, true,
                            false)), (String ((Ascii (true, false, false,
                            false, false, true, true, false)), (String
                            ((Ascii (false, true, true, true, false, true,
                            true, false)), (String ((Ascii (true, false,
                            false, true, true, true, true, false)), (String
                            ((Ascii (true, true, false, false, true, false,
                            true, false)), (String ((Ascii (true, false,
                            false, true, true, true, true, false)), (String
                            ((Ascii (true, false, true, true, false, true,
                            true, false)), (String ((Ascii (false, true,
                            false, false, false, true, true, false)), (String
                            ((Ascii (true, true, true, true, false, true,
                            true, false)), (String ((Ascii (false, false,
                            true, true, false, true, true, false)), (String
                            ((Ascii (true, true, false, false, true, true,
                            true, false)),
                            EmptyString))))))))))))))))))))))))))))
                     else let bits = fbr_bits_read br1 in
                          let bytes =
                            if Z.eqb (Z.modulo bits (Zpos (XO (XO (XO XH)))))
                                 Z0
                            then Z.div bits (Zpos (XO (XO (XO XH))))
                            else Z.add (Z.div bits (Zpos (XO (XO (XO XH)))))
                                   (Zpos XH)
                          in
                          ROk ((acc_log, (rev probs_rev)), bytes)))

(** val next_position : z -> z -> z **)

let next_position p table_size =
  Z.modulo
    (Z.add p
      (Z.add
        (Z.add (Z.div table_size (Zpos (XO XH)))
          (Z.div table_size (Zpos (XO (XO (XO XH)))))) (Zpos (XI XH))))
    table_size

(** val calc_baseline_and_numbits : z -> z -> z -> z * z **)

let calc_baseline_and_numbits total num_states_symbol state_number =
  if Z.eqb num_states_symbol Z0
  then (Z0, Z0)
  else let slices =
         if Z.eqb
              (Z.pow (Zpos (XO XH))
                (Z.sub (highest_bit_set num_states_symbol) (Zpos XH)))
              num_states_symbol
         then num_states_symbol
         else Z.pow (Zpos (XO XH)) (highest_bit_set num_states_symbol)
       in
       let double0 = Z.sub slices num_states_symbol in
       let single = Z.sub num_states_symbol double0 in
       let width = Z.div total slices in
       let nbits = Z.sub (highest_bit_set width) (Zpos XH) in
       if Z.ltb state_number double0
       then ((Z.add (Z.mul single width)
               (Z.mul (Z.mul state_number width) (Zpos (XO XH)))),
              (Z.add nbits (Zpos XH)))
       else ((Z.mul (Z.sub state_number double0) width), nbits)

(** val upd : 'a1 list -> nat -> 'a1 -> 'a1 list **)

let rec upd l i v =
  match l with
  | [] -> []
  | h :: t -> (match i with
               | O -> v :: t
               | S i' -> h :: (upd t i' v))

(** val nth_e : fse_entry list -> z -> fse_entry **)

let nth_e l i =
  nth (Z.to_nat i) l entry0

(** val place_negative :
    z list -> z -> z -> z -> fse_entry list -> (z * fse_entry list) res **)

let rec place_negative probs symbol acc_log neg_idx dec =
  match probs with
  | [] -> ROk (neg_idx, dec)
  | p :: t ->
    if Z.eqb p (Zneg XH)
    then if Z.leb neg_idx Z0
         then RPanic (String ((Ascii (true, false, false, false, false, true,
                true, false)), (String ((Ascii (false, false, true, false,
                true, true, true, false)), (String ((Ascii (false, false,
                true, false, true, true, true, false)), (String ((Ascii
                (true, false, true, false, false, true, true, false)),
                (String ((Ascii (true, false, true, true, false, true, true,
                false)), (String ((Ascii (false, false, false, false, true,
                true, true, false)), (String ((Ascii (false, false, true,
                false, true, true, true, false)), (String ((Ascii (false,
                false, false, false, false, true, false, false)), (String
                ((Ascii (false, false, true, false, true, true, true,
                false)), (String ((Ascii (true, true, true, true, false,
                true, true, false)), (String ((Ascii (false, false, false,
                false, false, true, false, false)), (String ((Ascii (true,
                true, false, false, true, true, true, false)), (String
                ((Ascii (true, false, true, false, true, true, true, false)),
                (String ((Ascii (false, true, false, false, false, true,
                true, false)), (String ((Ascii (false, false, true, false,
                true, true, true, false)), (String ((Ascii (false, true,
                false, false, true, true, true, false)), (String ((Ascii
                (true, false, false, false, false, true, true, false)),
                (String ((Ascii (true, true, false, false, false, true, true,
                false)), (String ((Ascii (false, false, true, false, true,
                true, true, false)), (String ((Ascii (false, false, false,
                false, false, true, false, false)), (String ((Ascii (true,
                true, true, false, true, true, true, false)), (String ((Ascii
                (true, false, false, true, false, true, true, false)),
                (String ((Ascii (false, false, true, false, true, true, true,
                false)), (String ((Ascii (false, false, false, true, false,
                true, true, false)), (String ((Ascii (false, false, false,
                false, false, true, false, false)), (String ((Ascii (true,
                true, true, true, false, true, true, false)), (String ((Ascii
                (false, true, true, false, true, true, true, false)), (String
                ((Ascii (true, false, true, false, false, true, true,
                false)), (String ((Ascii (false, true, false, false, true,
                true, true, false)), (String ((Ascii (false, true, true,
                false, false, true, true, false)), (String ((Ascii (false,
                false, true, true, false, true, true, false)), (String
                ((Ascii (true, true, true, true, false, true, true, false)),
                (String ((Ascii (true, true, true, false, true, true, true,
                false)),
                EmptyString))))))))))))))))))))))))))))))))))))))))))))))))))))))))))))))))))
         else let neg_idx0 = Z.sub neg_idx (Zpos XH) in
              place_negative t (Z.add symbol (Zpos XH)) acc_log neg_idx0
                (upd dec (Z.to_nat neg_idx0) { e_base = Z0; e_bits = acc_log;
                  e_sym =
                  (Z.modulo symbol (Zpos (XO (XO (XO (XO (XO (XO (XO (XO
                    XH)))))))))) })
    else place_negative t (Z.add symbol (Zpos XH)) acc_log neg_idx dec

(** val skip_taken : nat -> z -> z -> z -> z res **)

let rec skip_taken fuel position neg_idx size0 =
  match fuel with
  | O ->
    RPanic (String ((Ascii (false, true, true, false, false, true, true,
      false)), (String ((Ascii (true, false, true, false, true, true, true,
      false)), (String ((Ascii (true, false, true, false, false, true, true,
      false)), (String ((Ascii (false, false, true, true, false, true, true,
      false)), EmptyString))))))))
  | S f ->
    if Z.leb neg_idx position
    then skip_taken f (next_position position size0) neg_idx size0
    else ROk position

(** val spread_one :
    nat -> z -> z -> z -> z -> fse_entry list -> (z * fse_entry list) res **)

let rec spread_one n0 symbol position neg_idx size0 dec =
  match n0 with
  | O -> ROk (position, dec)
  | S k ->
    if Z.leb (Z.of_nat (length dec)) position
    then RPanic (String ((Ascii (true, false, false, true, false, true, true,
           false)), (String ((Ascii (false, true, true, true, false, true,
           true, false)), (String ((Ascii (false, false, true, false, false,
           true, true, false)), (String ((Ascii (true, false, true, false,
           false, true, true, false)), (String ((Ascii (false, false, false,
           true, true, true, true, false)), (String ((Ascii (false, false,
           false, false, false, true, false, false)), (String ((Ascii (true,
           true, true, true, false, true, true, false)), (String ((Ascii
           (true, false, true, false, true, true, true, false)), (String
           ((Ascii (false, false, true, false, true, true, true, false)),
           (String ((Ascii (false, false, false, false, false, true, false,
           false)), (String ((Ascii (true, true, true, true, false, true,
           true, false)), (String ((Ascii (false, true, true, false, false,
           true, true, false)), (String ((Ascii (false, false, false, false,
           false, true, false, false)), (String ((Ascii (false, true, false,
           false, false, true, true, false)), (String ((Ascii (true, true,
           true, true, false, true, true, false)), (String ((Ascii (true,
           false, true, false, true, true, true, false)), (String ((Ascii
           (false, true, true, true, false, true, true, false)), (String
           ((Ascii (false, false, true, false, false, true, true, false)),
           (String ((Ascii (true, true, false, false, true, true, true,
           false)), EmptyString))))))))))))))))))))))))))))))))))))))
    else let e = nth_e dec position in
         let dec0 =
           upd dec (Z.to_nat position) { e_base = e.e_base; e_bits =
             e.e_bits; e_sym = symbol }
         in
         rbind
           (skip_taken (S (Z.to_nat size0)) (next_position position size0)
             neg_idx size0) (fun position0 ->
           spread_one k symbol position0 neg_idx size0 dec0)

(** val spread :
    z list -> z -> z -> z -> z -> fse_entry list -> fse_entry list res **)

let rec spread probs symbol position neg_idx size0 dec =
  match probs with
  | [] -> ROk dec
  | p :: t ->
    if Z.leb p Z0
    then spread t (Z.add symbol (Zpos XH)) position neg_idx size0 dec
    else rbind
           (spread_one (Z.to_nat p)
             (Z.modulo symbol (Zpos (XO (XO (XO (XO (XO (XO (XO (XO
               XH)))))))))) position neg_idx size0 dec) (fun pat ->
           let (position0, dec0) = pat in
           spread t (Z.add symbol (Zpos XH)) position0 neg_idx size0 dec0)

(** val nth_z : z list -> z -> z **)

let nth_z l i =
  nth (Z.to_nat i) l Z0

(** val assign :
    nat -> z -> z -> z -> z list -> z list -> fse_entry list -> (z
    list * fse_entry list) res **)

let rec assign n0 idx size0 acc_log probs counter dec =
  match n0 with
  | O -> ROk (counter, dec)
  | S k ->
    let e = nth_e dec idx in
    let symbol = e.e_sym in
    if Z.leb (Z.of_nat (length probs)) symbol
    then RPanic (String ((Ascii (true, false, false, true, false, true, true,
           false)), (String ((Ascii (false, true, true, true, false, true,
           true, false)), (String ((Ascii (false, false, true, false, false,
           true, true, false)), (String ((Ascii (true, false, true, false,
           false, true, true, false)), (String ((Ascii (false, false, false,
           true, true, true, true, false)), (String ((Ascii (false, false,
           false, false, false, true, false, false)), (String ((Ascii (true,
           true, true, true, false, true, true, false)), (String ((Ascii
           (true, false, true, false, true, true, true, false)), (String
           ((Ascii (false, false, true, false, true, true, true, false)),
           (String ((Ascii (false, false, false, false, false, true, false,
           false)), (String ((Ascii (true, true, true, true, false, true,
           true, false)), (String ((Ascii (false, true, true, false, false,
           true, true, false)), (String ((Ascii (false, false, false, false,
           false, true, false, false)), (String ((Ascii (false, true, false,
           false, false, true, true, false)), (String ((Ascii (true, true,
           true, true, false, true, true, false)), (String ((Ascii (true,
           false, true, false, true, true, true, false)), (String ((Ascii
           (false, true, true, true, false, true, true, false)), (String
           ((Ascii (false, false, true, false, false, true, true, false)),
           (String ((Ascii (true, true, false, false, true, true, true,
           false)), EmptyString))))))))))))))))))))))))))))))))))))))
    else let prob = nth_z probs symbol in
         let count = nth_z counter symbol in
         let (bl, nb) =
           calc_baseline_and_numbits size0
             (if Z.ltb prob Z0
              then Z.add prob
                     (Z.pow (Zpos (XO XH)) (Zpos (XO (XO (XO (XO (XO XH)))))))
              else prob) count
         in
         if Z.ltb acc_log nb
         then RPanic (String ((Ascii (true, false, false, false, false, true,
                true, false)), (String ((Ascii (true, true, false, false,
                true, true, true, false)), (String ((Ascii (true, true,
                false, false, true, true, true, false)), (String ((Ascii
                (true, false, true, false, false, true, true, false)),
                (String ((Ascii (false, true, false, false, true, true, true,
                false)), (String ((Ascii (false, false, true, false, true,
                true, true, false)), (String ((Ascii (false, false, false,
                false, false, true, false, false)), (String ((Ascii (false,
                true, true, true, false, true, true, false)), (String ((Ascii
                (false, true, false, false, false, true, true, false)),
                (String ((Ascii (false, false, false, false, false, true,
                false, false)), (String ((Ascii (false, false, true, true,
                true, true, false, false)), (String ((Ascii (true, false,
                true, true, true, true, false, false)), (String ((Ascii
                (false, false, false, false, false, true, false, false)),
                (String ((Ascii (true, false, false, false, false, true,
                true, false)), (String ((Ascii (true, true, false, false,
                false, true, true, false)), (String ((Ascii (true, true,
                false, false, false, true, true, false)), (String ((Ascii
                (true, false, true, false, true, true, true, false)), (String
                ((Ascii (false, true, false, false, true, true, true,
                false)), (String ((Ascii (true, false, false, false, false,
                true, true, false)), (String ((Ascii (true, true, false,
                false, false, true, true, false)), (String ((Ascii (true,
                false, false, true, true, true, true, false)), (String
                ((Ascii (true, true, true, true, true, false, true, false)),
                (String ((Ascii (false, false, true, true, false, true, true,
                false)), (String ((Ascii (true, true, true, true, false,
                true, true, false)), (String ((Ascii (true, true, true,
                false, false, true, true, false)),
                EmptyString))))))))))))))))))))))))))))))))))))))))))))))))))
         else let counter0 =
                upd counter (Z.to_nat symbol) (Z.add count (Zpos XH))
              in
              let dec0 =
                upd dec (Z.to_nat idx) { e_base = bl; e_bits = nb; e_sym =
                  symbol }
              in
              assign k (Z.add idx (Zpos XH)) size0 acc_log probs counter0 dec0

(** val entries0 : nat -> fse_entry list **)

let rec entries0 = function
| O -> []
| S k -> entry0 :: (entries0 k)

(** val build_decoding_table :
    z -> z -> z list -> (fse_entry list * z list) res **)

let build_decoding_table max_symbol acc_log probs =
  if Z.ltb (Z.add max_symbol (Zpos XH)) (Z.of_nat (length probs))
  then RErr (String ((Ascii (false, false, true, false, true, false, true,
         false)), (String ((Ascii (true, true, true, true, false, true, true,
         false)), (String ((Ascii (true, true, true, true, false, true, true,
         false)), (String ((Ascii (true, false, true, true, false, false,
         true, false)), (String ((Ascii (true, false, false, false, false,
         true, true, false)), (String ((Ascii (false, true, true, true,
         false, true, true, false)), (String ((Ascii (true, false, false,
         true, true, true, true, false)), (String ((Ascii (true, true, false,
         false, true, false, true, false)), (String ((Ascii (true, false,
         false, true, true, true, true, false)), (String ((Ascii (true,
         false, true, true, false, true, true, false)), (String ((Ascii
         (false, true, false, false, false, true, true, false)), (String
         ((Ascii (true, true, true, true, false, true, true, false)), (String
         ((Ascii (false, false, true, true, false, true, true, false)),
         (String ((Ascii (true, true, false, false, true, true, true,
         false)), EmptyString))))))))))))))))))))))))))))
  else let size0 = Z.pow (Zpos (XO XH)) acc_log in
       let dec = entries0 (Z.to_nat size0) in
       rbind (place_negative probs Z0 acc_log size0 dec) (fun pat ->
         let (neg_idx, dec0) = pat in
         rbind (spread probs Z0 Z0 neg_idx size0 dec0) (fun dec1 ->
           let counter = zeros (length probs) in
           rbind
             (assign (Z.to_nat neg_idx) Z0 size0 acc_log probs counter dec1)
             (fun pat0 -> let (counter0, dec2) = pat0 in ROk (dec2, counter0))))

(** val fse_build_decoder :
    fse_table -> z list -> z -> (fse_table * z) res **)

let fse_build_decoder t source max_log =
  rbind (read_probabilities t.t_max_symbol source max_log) (fun pat ->
    let (p, bytes) = pat in
    let (acc_log, probs) = p in
    rbind (build_decoding_table t.t_max_symbol acc_log probs) (fun pat0 ->
      let (dec, counter) = pat0 in
      ROk ({ t_max_symbol = t.t_max_symbol; t_decode = dec; t_acc_log =
      acc_log; t_probs = probs; t_counter = counter }, bytes)))

(** val fse_build_from_probabilities :
    fse_table -> z -> z list -> fse_table res **)

let fse_build_from_probabilities t acc_log probs =
  if Z.eqb acc_log Z0
  then RErr (String ((Ascii (true, false, false, false, false, false, true,
         false)), (String ((Ascii (true, true, false, false, false, true,
         true, false)), (String ((Ascii (true, true, false, false, false,
         true, true, false)), (String ((Ascii (false, false, true, true,
         false, false, true, false)), (String ((Ascii (true, true, true,
         true, false, true, true, false)), (String ((Ascii (true, true, true,
         false, false, true, true, false)), (String ((Ascii (true, false,
         false, true, false, false, true, false)), (String ((Ascii (true,
         true, false, false, true, true, true, false)), (String ((Ascii
         (false, true, false, true, true, false, true, false)), (String
         ((Ascii (true, false, true, false, false, true, true, false)),
         (String ((Ascii (false, true, false, false, true, true, true,
         false)), (String ((Ascii (true, true, true, true, false, true, true,
         false)), EmptyString))))))))))))))))))))))))
  else rbind (build_decoding_table t.t_max_symbol acc_log probs) (fun pat ->
         let (dec, counter) = pat in
         ROk { t_max_symbol = t.t_max_symbol; t_decode = dec; t_acc_log =
         acc_log; t_probs = probs; t_counter = counter })

(** val fse_dec_new : fse_table -> fse_entry **)

let fse_dec_new t =
  match t.t_decode with
  | [] -> entry0
  | e :: _ -> e

(** val fse_init_state : fse_table -> rbr -> (fse_entry * rbr) res **)

let fse_init_state t br =
  if Z.eqb t.t_acc_log Z0
  then RErr (String ((Ascii (false, false, true, false, true, false, true,
         false)), (String ((Ascii (true, false, false, false, false, true,
         true, false)), (String ((Ascii (false, true, false, false, false,
         true, true, false)), (String ((Ascii (false, false, true, true,
         false, true, true, false)), (String ((Ascii (true, false, true,
         false, false, true, true, false)), (String ((Ascii (true, false,
         false, true, false, false, true, false)), (String ((Ascii (true,
         true, false, false, true, true, true, false)), (String ((Ascii
         (true, false, true, false, true, false, true, false)), (String
         ((Ascii (false, true, true, true, false, true, true, false)),
         (String ((Ascii (true, false, false, true, false, true, true,
         false)), (String ((Ascii (false, true, true, true, false, true,
         true, false)), (String ((Ascii (true, false, false, true, false,
         true, true, false)), (String ((Ascii (false, false, true, false,
         true, true, true, false)), (String ((Ascii (true, false, false,
         true, false, true, true, false)), (String ((Ascii (true, false,
         false, false, false, true, true, false)), (String ((Ascii (false,
         false, true, true, false, true, true, false)), (String ((Ascii
         (true, false, false, true, false, true, true, false)), (String
         ((Ascii (false, true, false, true, true, true, true, false)),
         (String ((Ascii (true, false, true, false, false, true, true,
         false)), (String ((Ascii (false, false, true, false, false, true,
         true, false)), EmptyString))))))))))))))))))))))))))))))))))))))))
  else let (v, br0) = rbr_get_bits br t.t_acc_log in
       if Z.leb (Z.of_nat (length t.t_decode)) v
       then RPanic (String ((Ascii (true, false, false, true, false, true,
              true, false)), (String ((Ascii (false, true, true, true, false,
              true, true, false)), (String ((Ascii (false, false, true,
              false, false, true, true, false)), (String ((Ascii (true,
              false, true, false, false, true, true, false)), (String ((Ascii
              (false, false, false, true, true, true, true, false)), (String
              ((Ascii (false, false, false, false, false, true, false,
              false)), (String ((Ascii (true, true, true, true, false, true,
              true, false)), (String ((Ascii (true, false, true, false, true,
              true, true, false)), (String ((Ascii (false, false, true,
              false, true, true, true, false)), (String ((Ascii (false,
              false, false, false, false, true, false, false)), (String
              ((Ascii (true, true, true, true, false, true, true, false)),
              (String ((Ascii (false, true, true, false, false, true, true,
              false)), (String ((Ascii (false, false, false, false, false,
              true, false, false)), (String ((Ascii (false, true, false,
              false, false, true, true, false)), (String ((Ascii (true, true,
              true, true, false, true, true, false)), (String ((Ascii (true,
              false, true, false, true, true, true, false)), (String ((Ascii
              (false, true, true, true, false, true, true, false)), (String
              ((Ascii (false, false, true, false, false, true, true, false)),
              (String ((Ascii (true, true, false, false, true, true, true,
              false)), EmptyString))))))))))))))))))))))))))))))))))))))
       else ROk ((nth_e t.t_decode v), br0)

(** val fse_update_state :
    fse_table -> fse_entry -> rbr -> (fse_entry * rbr) res **)

let fse_update_state t st br =
  let (add0, br0) = rbr_get_bits br st.e_bits in
  let new_state = Z.add st.e_base add0 in
  if Z.leb (Z.of_nat (length t.t_decode)) new_state
  then RPanic (String ((Ascii (true, false, false, true, false, true, true,
         false)), (String ((Ascii (false, true, true, true, false, true,
         true, false)), (String ((Ascii (false, false, true, false, false,
         true, true, false)), (String ((Ascii (true, false, true, false,
         false, true, true, false)), (String ((Ascii (false, false, false,
         true, true, true, true, false)), (String ((Ascii (false, false,
         false, false, false, true, false, false)), (String ((Ascii (true,
         true, true, true, false, true, true, false)), (String ((Ascii (true,
         false, true, false, true, true, true, false)), (String ((Ascii
         (false, false, true, false, true, true, true, false)), (String
         ((Ascii (false, false, false, false, false, true, false, false)),
         (String ((Ascii (true, true, true, true, false, true, true, false)),
         (String ((Ascii (false, true, true, false, false, true, true,
         false)), (String ((Ascii (false, false, false, false, false, true,
         false, false)), (String ((Ascii (false, true, false, false, false,
         true, true, false)), (String ((Ascii (true, true, true, true, false,
         true, true, false)), (String ((Ascii (true, false, true, false,
         true, true, true, false)), (String ((Ascii (false, true, true, true,
         false, true, true, false)), (String ((Ascii (false, false, true,
         false, false, true, true, false)), (String ((Ascii (true, true,
         false, false, true, true, true, false)),
         EmptyString))))))))))))))))))))))))))))))))))))))
  else ROk ((nth_e t.t_decode new_state), br0)

(** val mAX_MAX_NUM_BITS : z **)

let mAX_MAX_NUM_BITS =
  Zpos (XI (XI (XO XH)))

type huf_entry = { h_sym : z; h_bits : z }

(** val hentry0 : huf_entry **)

let hentry0 =
  { h_sym = Z0; h_bits = Z0 }

type huf_table = { ht_decode : huf_entry list; ht_weights : z list;
                   ht_max_bits : z; ht_bits : z list; ht_bit_ranks : 
                   z list; ht_rank_indexes : z list; ht_fse : fse_table }

(** val huf_new : huf_table **)

let huf_new =
  { ht_decode = []; ht_weights = []; ht_max_bits = Z0; ht_bits = [];
    ht_bit_ranks = []; ht_rank_indexes = []; ht_fse =
    (fse_new (Zpos (XI (XI (XI (XI (XI (XI (XI XH))))))))) }

(** val huf_reset : huf_table -> huf_table **)

let huf_reset t =
  { ht_decode = []; ht_weights = []; ht_max_bits = Z0; ht_bits = [];
    ht_bit_ranks = []; ht_rank_indexes = []; ht_fse = (fse_reset t.ht_fse) }

(** val huf_reinit_from : huf_table -> huf_table -> huf_table **)

let huf_reinit_from t other =
  { ht_decode = other.ht_decode; ht_weights = other.ht_weights; ht_max_bits =
    other.ht_max_bits; ht_bits = other.ht_bits; ht_bit_ranks = [];
    ht_rank_indexes = other.ht_rank_indexes; ht_fse =
    (fse_reinit_from t.ht_fse other.ht_fse) }

(** val fse_weights_loop :
    nat -> fse_table -> fse_entry -> fse_entry -> rbr -> z list -> z -> z
    list res **)

let rec fse_weights_loop fuel t s1 s2 br ws_rev n0 =
  match fuel with
  | O ->
    RPanic (String ((Ascii (false, true, true, false, false, true, true,
      false)), (String ((Ascii (true, false, true, false, true, true, true,
      false)), (String ((Ascii (true, false, true, false, false, true, true,
      false)), (String ((Ascii (false, false, true, true, false, true, true,
      false)), EmptyString))))))))
  | S f ->
    let ws_rev0 = s1.e_sym :: ws_rev in
    rbind (fse_update_state t s1 br) (fun pat ->
      let (s3, br0) = pat in
      if Z.leb (rbr_bits_remaining br0) (Zneg XH)
      then ROk (s2.e_sym :: ws_rev0)
      else let ws_rev1 = s2.e_sym :: ws_rev0 in
           rbind (fse_update_state t s2 br0) (fun pat0 ->
             let (s4, br1) = pat0 in
             if Z.leb (rbr_bits_remaining br1) (Zneg XH)
             then ROk (s3.e_sym :: ws_rev1)
             else if Z.ltb (Zpos (XI (XI (XI (XI (XI (XI (XI XH))))))))
                       (Z.add n0 (Zpos (XO XH)))
                  then RErr (String ((Ascii (false, false, true, false, true,
                         false, true, false)), (String ((Ascii (true, true,
                         true, true, false, true, true, false)), (String
                         ((Ascii (true, true, true, true, false, true, true,
                         false)), (String ((Ascii (true, false, true, true,
                         false, false, true, false)), (String ((Ascii (true,
                         false, false, false, false, true, true, false)),
                         (String ((Ascii (false, true, true, true, false,
                         true, true, false)), (String ((Ascii (true, false,
                         false, true, true, true, true, false)), (String
                         ((Ascii (true, true, true, false, true, false, true,
                         false)), (String ((Ascii (true, false, true, false,
                         false, true, true, false)), (String ((Ascii (true,
                         false, false, true, false, true, true, false)),
                         (String ((Ascii (true, true, true, false, false,
                         true, true, false)), (String ((Ascii (false, false,
                         false, true, false, true, true, false)), (String
                         ((Ascii (false, false, true, false, true, true,
                         true, false)), (String ((Ascii (true, true, false,
                         false, true, true, true, false)),
                         EmptyString))))))))))))))))))))))))))))
                  else fse_weights_loop f t s3 s4 br1 ws_rev1
                         (Z.add n0 (Zpos (XO XH)))))

(** val direct_weights : nat -> z -> z list -> z list **)

let rec direct_weights n0 idx raw =
  match n0 with
  | O -> []
  | S k ->
    (if Z.eqb (Z.modulo idx (Zpos (XO XH))) Z0
     then Z.div (nth_z raw (Z.div idx (Zpos (XO XH)))) (Zpos (XO (XO (XO (XO
            XH)))))
     else Z.modulo (nth_z raw (Z.div idx (Zpos (XO XH)))) (Zpos (XO (XO (XO
            (XO XH)))))) :: (direct_weights k (Z.add idx (Zpos XH)) raw)

(** val read_weights :
    huf_table -> z list -> ((z list * fse_table) * z) res **)

let read_weights t = function
| [] ->
  RErr (String ((Ascii (true, true, false, false, true, false, true, false)),
    (String ((Ascii (true, true, true, true, false, true, true, false)),
    (String ((Ascii (true, false, true, false, true, true, true, false)),
    (String ((Ascii (false, true, false, false, true, true, true, false)),
    (String ((Ascii (true, true, false, false, false, true, true, false)),
    (String ((Ascii (true, false, true, false, false, true, true, false)),
    (String ((Ascii (true, false, false, true, false, false, true, false)),
    (String ((Ascii (true, true, false, false, true, true, true, false)),
    (String ((Ascii (true, false, true, false, false, false, true, false)),
    (String ((Ascii (true, false, true, true, false, true, true, false)),
    (String ((Ascii (false, false, false, false, true, true, true, false)),
    (String ((Ascii (false, false, true, false, true, true, true, false)),
    (String ((Ascii (true, false, false, true, true, true, true, false)),
    EmptyString))))))))))))))))))))))))))
| header :: fse_stream ->
  if Z.ltb header (Zpos (XO (XO (XO (XO (XO (XO (XO XH))))))))
  then if Z.ltb (Z.of_nat (length fse_stream)) header
       then RErr (String ((Ascii (false, true, true, true, false, false,
              true, false)), (String ((Ascii (true, true, true, true, false,
              true, true, false)), (String ((Ascii (false, false, true,
              false, true, true, true, false)), (String ((Ascii (true, false,
              true, false, false, false, true, false)), (String ((Ascii
              (false, true, true, true, false, true, true, false)), (String
              ((Ascii (true, true, true, true, false, true, true, false)),
              (String ((Ascii (true, false, true, false, true, true, true,
              false)), (String ((Ascii (true, true, true, false, false, true,
              true, false)), (String ((Ascii (false, false, false, true,
              false, true, true, false)), (String ((Ascii (false, true,
              false, false, false, false, true, false)), (String ((Ascii
              (true, false, false, true, true, true, true, false)), (String
              ((Ascii (false, false, true, false, true, true, true, false)),
              (String ((Ascii (true, false, true, false, false, true, true,
              false)), (String ((Ascii (true, true, false, false, true, true,
              true, false)), (String ((Ascii (false, true, true, false,
              false, false, true, false)), (String ((Ascii (true, true, true,
              true, false, true, true, false)), (String ((Ascii (false, true,
              false, false, true, true, true, false)), (String ((Ascii (true,
              true, true, false, true, false, true, false)), (String ((Ascii
              (true, false, true, false, false, true, true, false)), (String
              ((Ascii (true, false, false, true, false, true, true, false)),
              (String ((Ascii (true, true, true, false, false, true, true,
              false)), (String ((Ascii (false, false, false, true, false,
              true, true, false)), (String ((Ascii (false, false, true,
              false, true, true, true, false)), (String ((Ascii (true, true,
              false, false, true, true, true, false)),
              EmptyString))))))))))))))))))))))))))))))))))))))))))))))))
       else rbind (fse_build_decoder t.ht_fse fse_stream (Zpos (XO (XI XH))))
              (fun pat ->
              let (ft, used) = pat in
              if Z.ltb header used
              then RErr (String ((Ascii (false, true, true, false, false,
                     false, true, false)), (String ((Ascii (true, true,
                     false, false, true, false, true, false)), (String
                     ((Ascii (true, false, true, false, false, false, true,
                     false)), (String ((Ascii (false, false, true, false,
                     true, false, true, false)), (String ((Ascii (true,
                     false, false, false, false, true, true, false)), (String
                     ((Ascii (false, true, false, false, false, true, true,
                     false)), (String ((Ascii (false, false, true, true,
                     false, true, true, false)), (String ((Ascii (true,
                     false, true, false, false, true, true, false)), (String
                     ((Ascii (true, false, true, false, true, false, true,
                     false)), (String ((Ascii (true, true, false, false,
                     true, true, true, false)), (String ((Ascii (true, false,
                     true, false, false, true, true, false)), (String ((Ascii
                     (false, false, true, false, false, true, true, false)),
                     (String ((Ascii (false, false, true, false, true, false,
                     true, false)), (String ((Ascii (true, true, true, true,
                     false, true, true, false)), (String ((Ascii (true, true,
                     true, true, false, true, true, false)), (String ((Ascii
                     (true, false, true, true, false, false, true, false)),
                     (String ((Ascii (true, false, false, false, false, true,
                     true, false)), (String ((Ascii (false, true, true, true,
                     false, true, true, false)), (String ((Ascii (true,
                     false, false, true, true, true, true, false)), (String
                     ((Ascii (false, true, false, false, false, false, true,
                     false)), (String ((Ascii (true, false, false, true,
                     true, true, true, false)), (String ((Ascii (false,
                     false, true, false, true, true, true, false)), (String
                     ((Ascii (true, false, true, false, false, true, true,
                     false)), (String ((Ascii (true, true, false, false,
                     true, true, true, false)),
                     EmptyString))))))))))))))))))))))))))))))))))))))))))))))))
              else let compressed_length = Z.sub header used in
                   let cw = skipn (Z.to_nat used) fse_stream in
                   if Z.ltb (Z.of_nat (length cw)) compressed_length
                   then RErr (String ((Ascii (false, true, true, true, false,
                          false, true, false)), (String ((Ascii (true, true,
                          true, true, false, true, true, false)), (String
                          ((Ascii (false, false, true, false, true, true,
                          true, false)), (String ((Ascii (true, false, true,
                          false, false, false, true, false)), (String ((Ascii
                          (false, true, true, true, false, true, true,
                          false)), (String ((Ascii (true, true, true, true,
                          false, true, true, false)), (String ((Ascii (true,
                          false, true, false, true, true, true, false)),
                          (String ((Ascii (true, true, true, false, false,
                          true, true, false)), (String ((Ascii (false, false,
                          false, true, false, true, true, false)), (String
                          ((Ascii (false, true, false, false, false, false,
                          true, false)), (String ((Ascii (true, false, false,
                          true, true, true, true, false)), (String ((Ascii
                          (false, false, true, false, true, true, true,
                          false)), (String ((Ascii (true, false, true, false,
                          false, true, true, false)), (String ((Ascii (true,
                          true, false, false, true, true, true, false)),
                          (String ((Ascii (false, false, true, false, true,
                          false, true, false)), (String ((Ascii (true, true,
                          true, true, false, true, true, false)), (String
                          ((Ascii (false, false, true, false, false, false,
                          true, false)), (String ((Ascii (true, false, true,
                          false, false, true, true, false)), (String ((Ascii
                          (true, true, false, false, false, true, true,
                          false)), (String ((Ascii (true, true, true, true,
                          false, true, true, false)), (String ((Ascii (true,
                          false, true, true, false, true, true, false)),
                          (String ((Ascii (false, false, false, false, true,
                          true, true, false)), (String ((Ascii (false, true,
                          false, false, true, true, true, false)), (String
                          ((Ascii (true, false, true, false, false, true,
                          true, false)), (String ((Ascii (true, true, false,
                          false, true, true, true, false)), (String ((Ascii
                          (true, true, false, false, true, true, true,
                          false)), (String ((Ascii (true, true, true, false,
                          true, false, true, false)), (String ((Ascii (true,
                          false, true, false, false, true, true, false)),
                          (String ((Ascii (true, false, false, true, false,
                          true, true, false)), (String ((Ascii (true, true,
                          true, false, false, true, true, false)), (String
                          ((Ascii (false, false, false, true, false, true,
                          true, false)), (String ((Ascii (false, false, true,
                          false, true, true, true, false)), (String ((Ascii
                          (true, true, false, false, true, true, true,
                          false)),
                          EmptyString))))))))))))))))))))))))))))))))))))))))))))))))))))))))))))))))))
                   else let cw0 = firstn (Z.to_nat compressed_length) cw in
                        let br = rbr_new cw0 in
                        (match rbr_skip_padding br with
                         | Some br0 ->
                           rbind (fse_init_state ft br0) (fun pat0 ->
                             let (s1, br1) = pat0 in
                             rbind (fse_init_state ft br1) (fun pat1 ->
                               let (s2, br2) = pat1 in
                               rbind
                                 (fse_weights_loop (S
                                   (add
                                     (mul (S (S (S (S (S (S (S (S O))))))))
                                       (length cw0)) (S (S (S (S (S (S (S (S
                                     (S (S (S (S (S (S (S (S (S (S (S (S (S
                                     (S (S (S (S (S (S (S (S (S (S (S (S (S
                                     (S (S (S (S (S (S (S (S (S (S (S (S (S
                                     (S (S (S (S (S (S (S (S (S (S (S (S (S
                                     (S (S (S (S (S (S (S (S (S (S (S (S (S
                                     (S (S (S (S (S (S (S (S (S (S (S (S (S
                                     (S (S (S (S (S (S (S (S (S (S (S (S (S
                                     (S (S (S (S (S (S (S (S (S (S (S (S (S
                                     (S (S (S (S (S (S (S (S (S (S (S (S (S
                                     (S (S (S (S (S (S (S (S (S (S (S (S (S
                                     (S (S (S (S (S (S (S (S (S (S (S (S (S
                                     (S (S (S (S (S (S (S (S (S (S (S (S (S
                                     (S (S (S (S (S (S (S (S (S (S (S (S (S
                                     (S (S (S (S (S (S (S (S (S (S (S (S (S
                                     (S (S (S (S (S (S (S (S (S (S (S (S (S
                                     (S (S (S (S (S (S (S (S (S (S (S (S (S
                                     (S (S (S (S (S (S (S (S (S (S (S (S (S
                                     (S (S (S (S (S (S (S (S (S (S (S (S (S
                                     (S (S (S (S (S (S (S (S (S (S (S (S (S
                                     (S
                                     O))))))))))))))))))))))))))))))))))))))))))))))))))))))))))))))))))))))))))))))))))))))))))))))))))))))))))))))))))))))))))))))))))))))))))))))))))))))))))))))))))))))))))))))))))))))))))))))))))))))))))))))))))))))))))))))))))))))))))))))))))))))))))))))))))
                                   ft s1 s2 br2 [] Z0) (fun ws_rev ->
                                 let bits_read =
                                   Z.add (Zpos (XO (XO (XO XH))))
                                     (Z.mul (Z.add used compressed_length)
                                       (Zpos (XO (XO (XO XH)))))
                                 in
                                 ROk (((rev ws_rev), ft),
                                 (Z.div bits_read (Zpos (XO (XO (XO XH)))))))))
                         | None ->
                           RErr (String ((Ascii (true, false, true, false,
                             false, false, true, false)), (String ((Ascii
                             (false, false, false, true, true, true, true,
                             false)), (String ((Ascii (false, false, true,
                             false, true, true, true, false)), (String
                             ((Ascii (false, true, false, false, true, true,
                             true, false)), (String ((Ascii (true, false,
                             false, false, false, true, true, false)),
                             (String ((Ascii (false, false, false, false,
                             true, false, true, false)), (String ((Ascii
                             (true, false, false, false, false, true, true,
                             false)), (String ((Ascii (false, false, true,
                             false, false, true, true, false)), (String
                             ((Ascii (false, false, true, false, false, true,
                             true, false)), (String ((Ascii (true, false,
                             false, true, false, true, true, false)), (String
                             ((Ascii (false, true, true, true, false, true,
                             true, false)), (String ((Ascii (true, true,
                             true, false, false, true, true, false)),
                             EmptyString))))))))))))))))))))))))))
  else let num_weights = Z.sub header (Zpos (XI (XI (XI (XI (XI (XI XH)))))))
       in
       let bytes_needed =
         if Z.eqb (Z.modulo num_weights (Zpos (XO XH))) Z0
         then Z.div num_weights (Zpos (XO XH))
         else Z.add (Z.div num_weights (Zpos (XO XH))) (Zpos XH)
       in
       if Z.ltb (Z.of_nat (length fse_stream)) bytes_needed
       then RErr (String ((Ascii (false, true, true, true, false, false,
              true, false)), (String ((Ascii (true, true, true, true, false,
              true, true, false)), (String ((Ascii (false, false, true,
              false, true, true, true, false)), (String ((Ascii (true, false,
              true, false, false, false, true, false)), (String ((Ascii
              (false, true, true, true, false, true, true, false)), (String
              ((Ascii (true, true, true, true, false, true, true, false)),
              (String ((Ascii (true, false, true, false, true, true, true,
              false)), (String ((Ascii (true, true, true, false, false, true,
              true, false)), (String ((Ascii (false, false, false, true,
              false, true, true, false)), (String ((Ascii (false, true,
              false, false, false, false, true, false)), (String ((Ascii
              (true, false, false, true, true, true, true, false)), (String
              ((Ascii (false, false, true, false, true, true, true, false)),
              (String ((Ascii (true, false, true, false, false, true, true,
              false)), (String ((Ascii (true, true, false, false, true, true,
              true, false)), (String ((Ascii (true, false, false, true,
              false, false, true, false)), (String ((Ascii (false, true,
              true, true, false, true, true, false)), (String ((Ascii (true,
              true, false, false, true, false, true, false)), (String ((Ascii
              (true, true, true, true, false, true, true, false)), (String
              ((Ascii (true, false, true, false, true, true, true, false)),
              (String ((Ascii (false, true, false, false, true, true, true,
              false)), (String ((Ascii (true, true, false, false, false,
              true, true, false)), (String ((Ascii (true, false, true, false,
              false, true, true, false)),
              EmptyString))))))))))))))))))))))))))))))))))))))))))))
       else let ws = direct_weights (Z.to_nat num_weights) Z0 fse_stream in
            let bits_read =
              Z.add (Zpos (XO (XO (XO XH))))
                (Z.mul (Zpos (XO (XO XH))) num_weights)
            in
            ROk ((ws, t.ht_fse),
            (if Z.eqb (Z.modulo bits_read (Zpos (XO (XO (XO XH))))) Z0
             then Z.div bits_read (Zpos (XO (XO (XO XH))))
             else Z.add (Z.div bits_read (Zpos (XO (XO (XO XH))))) (Zpos XH)))

(** val weight_sum : z list -> z -> z res **)

let rec weight_sum ws acc =
  match ws with
  | [] -> ROk acc
  | w :: t ->
    if Z.ltb mAX_MAX_NUM_BITS w
    then RErr (String ((Ascii (true, true, true, false, true, false, true,
           false)), (String ((Ascii (true, false, true, false, false, true,
           true, false)), (String ((Ascii (true, false, false, true, false,
           true, true, false)), (String ((Ascii (true, true, true, false,
           false, true, true, false)), (String ((Ascii (false, false, false,
           true, false, true, true, false)), (String ((Ascii (false, false,
           true, false, true, true, true, false)), (String ((Ascii (false,
           true, false, false, false, false, true, false)), (String ((Ascii
           (true, false, false, true, false, true, true, false)), (String
           ((Ascii (true, true, true, false, false, true, true, false)),
           (String ((Ascii (true, true, true, false, false, true, true,
           false)), (String ((Ascii (true, false, true, false, false, true,
           true, false)), (String ((Ascii (false, true, false, false, true,
           true, true, false)), (String ((Ascii (false, false, true, false,
           true, false, true, false)), (String ((Ascii (false, false, false,
           true, false, true, true, false)), (String ((Ascii (true, false,
           false, false, false, true, true, false)), (String ((Ascii (false,
           true, true, true, false, true, true, false)), (String ((Ascii
           (true, false, true, true, false, false, true, false)), (String
           ((Ascii (true, false, false, false, false, true, true, false)),
           (String ((Ascii (false, false, false, true, true, true, true,
           false)), (String ((Ascii (false, true, true, true, false, false,
           true, false)), (String ((Ascii (true, false, true, false, true,
           true, true, false)), (String ((Ascii (true, false, true, true,
           false, true, true, false)), (String ((Ascii (false, true, false,
           false, false, false, true, false)), (String ((Ascii (true, false,
           false, true, false, true, true, false)), (String ((Ascii (false,
           false, true, false, true, true, true, false)), (String ((Ascii
           (true, true, false, false, true, true, true, false)),
           EmptyString))))))))))))))))))))))))))))))))))))))))))))))))))))
    else weight_sum t
           (Z.add acc
             (if Z.ltb Z0 w
              then Z.pow (Zpos (XO XH)) (Z.sub w (Zpos XH))
              else Z0))

(** val is_pow2 : z -> bool **)

let is_pow2 x =
  (&&) (Z.ltb Z0 x) (Z.eqb (Z.pow (Zpos (XO XH)) (Z.log2 x)) x)

(** val count_ranks : z list -> z list -> z list res **)

let rec count_ranks bits ranks =
  match bits with
  | [] -> ROk ranks
  | b :: t ->
    if Z.leb (Z.of_nat (length ranks)) b
    then RPanic (String ((Ascii (true, false, false, true, false, true, true,
           false)), (String ((Ascii (false, true, true, true, false, true,
           true, false)), (String ((Ascii (false, false, true, false, false,
           true, true, false)), (String ((Ascii (true, false, true, false,
           false, true, true, false)), (String ((Ascii (false, false, false,
           true, true, true, true, false)), (String ((Ascii (false, false,
           false, false, false, true, false, false)), (String ((Ascii (true,
           true, true, true, false, true, true, false)), (String ((Ascii
           (true, false, true, false, true, true, true, false)), (String
           ((Ascii (false, false, true, false, true, true, true, false)),
           (String ((Ascii (false, false, false, false, false, true, false,
           false)), (String ((Ascii (true, true, true, true, false, true,
           true, false)), (String ((Ascii (false, true, true, false, false,
           true, true, false)), (String ((Ascii (false, false, false, false,
           false, true, false, false)), (String ((Ascii (false, true, false,
           false, false, true, true, false)), (String ((Ascii (true, true,
           true, true, false, true, true, false)), (String ((Ascii (true,
           false, true, false, true, true, true, false)), (String ((Ascii
           (false, true, true, true, false, true, true, false)), (String
           ((Ascii (false, false, true, false, false, true, true, false)),
           (String ((Ascii (true, true, false, false, true, true, true,
           false)), EmptyString))))))))))))))))))))))))))))))))))))))
    else count_ranks t
           (upd ranks (Z.to_nat b) (Z.add (nth_z ranks b) (Zpos XH)))

(** val rank_idx_loop : nat -> z -> z -> z list -> z list -> z list **)

let rec rank_idx_loop n0 bits max_bits ranks idxs =
  match n0 with
  | O -> idxs
  | S k ->
    let idxs0 =
      upd idxs (Z.to_nat (Z.sub bits (Zpos XH)))
        (Z.add (nth_z idxs bits)
          (Z.mul (nth_z ranks bits)
            (Z.pow (Zpos (XO XH)) (Z.sub max_bits bits))))
    in
    rank_idx_loop k (Z.sub bits (Zpos XH)) max_bits ranks idxs0

(** val fill_range :
    nat -> z -> huf_entry -> huf_entry list -> huf_entry list res **)

let rec fill_range n0 base e dec =
  match n0 with
  | O -> ROk dec
  | S k ->
    if Z.leb (Z.of_nat (length dec)) base
    then RPanic (String ((Ascii (true, false, false, true, false, true, true,
           false)), (String ((Ascii (false, true, true, true, false, true,
           true, false)), (String ((Ascii (false, false, true, false, false,
           true, true, false)), (String ((Ascii (true, false, true, false,
           false, true, true, false)), (String ((Ascii (false, false, false,
           true, true, true, true, false)), (String ((Ascii (false, false,
           false, false, false, true, false, false)), (String ((Ascii (true,
           true, true, true, false, true, true, false)), (String ((Ascii
           (true, false, true, false, true, true, true, false)), (String
           ((Ascii (false, false, true, false, true, true, true, false)),
           (String ((Ascii (false, false, false, false, false, true, false,
           false)), (String ((Ascii (true, true, true, true, false, true,
           true, false)), (String ((Ascii (false, true, true, false, false,
           true, true, false)), (String ((Ascii (false, false, false, false,
           false, true, false, false)), (String ((Ascii (false, true, false,
           false, false, true, true, false)), (String ((Ascii (true, true,
           true, true, false, true, true, false)), (String ((Ascii (true,
           false, true, false, true, true, true, false)), (String ((Ascii
           (false, true, true, true, false, true, true, false)), (String
           ((Ascii (false, false, true, false, false, true, true, false)),
           (String ((Ascii (true, true, false, false, true, true, true,
           false)), EmptyString))))))))))))))))))))))))))))))))))))))
    else fill_range k (Z.add base (Zpos XH)) e (upd dec (Z.to_nat base) e)

(** val assign_codes :
    z list -> z -> z -> z list -> huf_entry list -> (z list * huf_entry list)
    res **)

let rec assign_codes bits symbol max_bits idxs dec =
  match bits with
  | [] -> ROk (idxs, dec)
  | b :: t ->
    if Z.eqb b Z0
    then assign_codes t (Z.add symbol (Zpos XH)) max_bits idxs dec
    else if Z.leb (Z.of_nat (length idxs)) b
         then RPanic (String ((Ascii (true, false, false, true, false, true,
                true, false)), (String ((Ascii (false, true, true, true,
                false, true, true, false)), (String ((Ascii (false, false,
                true, false, false, true, true, false)), (String ((Ascii
                (true, false, true, false, false, true, true, false)),
                (String ((Ascii (false, false, false, true, true, true, true,
                false)), (String ((Ascii (false, false, false, false, false,
                true, false, false)), (String ((Ascii (true, true, true,
                true, false, true, true, false)), (String ((Ascii (true,
                false, true, false, true, true, true, false)), (String
                ((Ascii (false, false, true, false, true, true, true,
                false)), (String ((Ascii (false, false, false, false, false,
                true, false, false)), (String ((Ascii (true, true, true,
                true, false, true, true, false)), (String ((Ascii (false,
                true, true, false, false, true, true, false)), (String
                ((Ascii (false, false, false, false, false, true, false,
                false)), (String ((Ascii (false, true, false, false, false,
                true, true, false)), (String ((Ascii (true, true, true, true,
                false, true, true, false)), (String ((Ascii (true, false,
                true, false, true, true, true, false)), (String ((Ascii
                (false, true, true, true, false, true, true, false)), (String
                ((Ascii (false, false, true, false, false, true, true,
                false)), (String ((Ascii (true, true, false, false, true,
                true, true, false)),
                EmptyString))))))))))))))))))))))))))))))))))))))
         else let base = nth_z idxs b in
              let len = Z.pow (Zpos (XO XH)) (Z.sub max_bits b) in
              let idxs0 = upd idxs (Z.to_nat b) (Z.add base len) in
              rbind
                (fill_range (Z.to_nat len) base { h_sym =
                  (Z.modulo symbol (Zpos (XO (XO (XO (XO (XO (XO (XO (XO
                    XH)))))))))); h_bits = b } dec) (fun dec0 ->
                assign_codes t (Z.add symbol (Zpos XH)) max_bits idxs0 dec0)

(** val hentries0 : nat -> huf_entry list **)

let rec hentries0 = function
| O -> []
| S k -> hentry0 :: (hentries0 k)

(** val build_table_from_weights :
    z list -> ((((huf_entry list * z) * z list) * z list) * z list) res **)

let build_table_from_weights ws =
  rbind (weight_sum ws Z0) (fun wsum ->
    if Z.eqb wsum Z0
    then RErr (String ((Ascii (true, false, true, true, false, false, true,
           false)), (String ((Ascii (true, false, false, true, false, true,
           true, false)), (String ((Ascii (true, true, false, false, true,
           true, true, false)), (String ((Ascii (true, true, false, false,
           true, true, true, false)), (String ((Ascii (true, false, false,
           true, false, true, true, false)), (String ((Ascii (false, true,
           true, true, false, true, true, false)), (String ((Ascii (true,
           true, true, false, false, true, true, false)), (String ((Ascii
           (true, true, true, false, true, false, true, false)), (String
           ((Ascii (true, false, true, false, false, true, true, false)),
           (String ((Ascii (true, false, false, true, false, true, true,
           false)), (String ((Ascii (true, true, true, false, false, true,
           true, false)), (String ((Ascii (false, false, false, true, false,
           true, true, false)), (String ((Ascii (false, false, true, false,
           true, true, true, false)), (String ((Ascii (true, true, false,
           false, true, true, true, false)),
           EmptyString))))))))))))))))))))))))))))
    else let max_bits = highest_bit_set wsum in
         let left_over = Z.sub (Z.pow (Zpos (XO XH)) max_bits) wsum in
         if negb (is_pow2 left_over)
         then RErr (String ((Ascii (false, false, true, true, false, false,
                true, false)), (String ((Ascii (true, false, true, false,
                false, true, true, false)), (String ((Ascii (false, true,
                true, false, false, true, true, false)), (String ((Ascii
                (false, false, true, false, true, true, true, false)),
                (String ((Ascii (true, true, true, true, false, true, true,
                false)), (String ((Ascii (false, true, true, false, true,
                true, true, false)), (String ((Ascii (true, false, true,
                false, false, true, true, false)), (String ((Ascii (false,
                true, false, false, true, true, true, false)), (String
                ((Ascii (true, false, false, true, false, false, true,
                false)), (String ((Ascii (true, true, false, false, true,
                true, true, false)), (String ((Ascii (false, true, true,
                true, false, false, true, false)), (String ((Ascii (true,
                true, true, true, false, true, true, false)), (String ((Ascii
                (false, false, true, false, true, true, true, false)),
                (String ((Ascii (true, false, false, false, false, false,
                true, false)), (String ((Ascii (false, false, false, false,
                true, false, true, false)), (String ((Ascii (true, true,
                true, true, false, true, true, false)), (String ((Ascii
                (true, true, true, false, true, true, true, false)), (String
                ((Ascii (true, false, true, false, false, true, true,
                false)), (String ((Ascii (false, true, false, false, true,
                true, true, false)), (String ((Ascii (true, true, true, true,
                false, false, true, false)), (String ((Ascii (false, true,
                true, false, false, true, true, false)), (String ((Ascii
                (false, true, false, false, true, true, false, false)),
                EmptyString))))))))))))))))))))))))))))))))))))))))))))
         else let last_weight = highest_bit_set left_over in
              let bits =
                app
                  (map (fun w ->
                    if Z.ltb Z0 w
                    then Z.sub (Z.add max_bits (Zpos XH)) w
                    else Z0) ws)
                  ((Z.sub (Z.add max_bits (Zpos XH)) last_weight) :: [])
              in
              if Z.ltb mAX_MAX_NUM_BITS max_bits
              then RErr (String ((Ascii (true, false, true, true, false,
                     false, true, false)), (String ((Ascii (true, false,
                     false, false, false, true, true, false)), (String
                     ((Ascii (false, false, false, true, true, true, true,
                     false)), (String ((Ascii (false, true, false, false,
                     false, false, true, false)), (String ((Ascii (true,
                     false, false, true, false, true, true, false)), (String
                     ((Ascii (false, false, true, false, true, true, true,
                     false)), (String ((Ascii (true, true, false, false,
                     true, true, true, false)), (String ((Ascii (false,
                     false, true, false, true, false, true, false)), (String
                     ((Ascii (true, true, true, true, false, true, true,
                     false)), (String ((Ascii (true, true, true, true, false,
                     true, true, false)), (String ((Ascii (false, false,
                     false, true, false, false, true, false)), (String
                     ((Ascii (true, false, false, true, false, true, true,
                     false)), (String ((Ascii (true, true, true, false,
                     false, true, true, false)), (String ((Ascii (false,
                     false, false, true, false, true, true, false)),
                     EmptyString))))))))))))))))))))))))))))
              else rbind
                     (count_ranks bits
                       (zeros (Z.to_nat (Z.add max_bits (Zpos XH)))))
                     (fun ranks ->
                     let dec =
                       hentries0 (Z.to_nat (Z.pow (Zpos (XO XH)) max_bits))
                     in
                     let idxs =
                       rank_idx_loop (Z.to_nat max_bits) max_bits max_bits
                         ranks (zeros (Z.to_nat (Z.add max_bits (Zpos XH))))
                     in
                     if negb
                          (Z.eqb (nth_z idxs Z0)
                            (Z.pow (Zpos (XO XH)) max_bits))
                     then RPanic (String ((Ascii (true, false, false, false,
                            false, true, true, false)), (String ((Ascii
                            (true, true, false, false, true, true, true,
                            false)), (String ((Ascii (true, true, false,
                            false, true, true, true, false)), (String ((Ascii
                            (true, false, true, false, false, true, true,
                            false)), (String ((Ascii (false, true, false,
                            false, true, true, true, false)), (String ((Ascii
                            (false, false, true, false, true, true, true,
                            false)), (String ((Ascii (false, false, false,
                            false, false, true, false, false)), (String
                            ((Ascii (false, true, false, false, true, true,
                            true, false)), (String ((Ascii (true, false,
                            false, false, false, true, true, false)), (String
                            ((Ascii (false, true, true, true, false, true,
                            true, false)), (String ((Ascii (true, true,
                            false, true, false, true, true, false)), (String
                            ((Ascii (true, true, true, true, true, false,
                            true, false)), (String ((Ascii (true, false,
                            false, true, false, true, true, false)), (String
                            ((Ascii (false, true, true, true, false, true,
                            true, false)), (String ((Ascii (false, false,
                            true, false, false, true, true, false)), (String
                            ((Ascii (true, false, true, false, false, true,
                            true, false)), (String ((Ascii (false, false,
                            false, true, true, true, true, false)), (String
                            ((Ascii (true, false, true, false, false, true,
                            true, false)), (String ((Ascii (true, true,
                            false, false, true, true, true, false)), (String
                            ((Ascii (true, true, false, true, true, false,
                            true, false)), (String ((Ascii (false, false,
                            false, false, true, true, false, false)), (String
                            ((Ascii (true, false, true, true, true, false,
                            true, false)), (String ((Ascii (false, false,
                            false, false, false, true, false, false)),
                            (String ((Ascii (true, false, true, true, true,
                            true, false, false)), (String ((Ascii (true,
                            false, true, true, true, true, false, false)),
                            (String ((Ascii (false, false, false, false,
                            false, true, false, false)), (String ((Ascii
                            (false, false, true, false, false, true, true,
                            false)), (String ((Ascii (true, false, true,
                            false, false, true, true, false)), (String
                            ((Ascii (true, true, false, false, false, true,
                            true, false)), (String ((Ascii (true, true, true,
                            true, false, true, true, false)), (String ((Ascii
                            (false, false, true, false, false, true, true,
                            false)), (String ((Ascii (true, false, true,
                            false, false, true, true, false)), (String
                            ((Ascii (false, true, true, true, false, true,
                            false, false)), (String ((Ascii (false, false,
                            true, true, false, true, true, false)), (String
                            ((Ascii (true, false, true, false, false, true,
                            true, false)), (String ((Ascii (false, true,
                            true, true, false, true, true, false)), (String
                            ((Ascii (false, false, false, true, false, true,
                            false, false)), (String ((Ascii (true, false,
                            false, true, false, true, false, false)),
                            EmptyString))))))))))))))))))))))))))))))))))))))))))))))))))))))))))))))))))))))))))))
                     else rbind (assign_codes bits Z0 max_bits idxs dec)
                            (fun pat ->
                            let (idxs0, dec0) = pat in
                            ROk ((((dec0, max_bits), bits), ranks), idxs0))))

(** val huf_build_decoder : huf_table -> z list -> (huf_table * z) res **)

let huf_build_decoder t source =
  rbind (read_weights t source) (fun pat ->
    let (p, bytes) = pat in
    let (ws, ft) = p in
    rbind (build_table_from_weights ws) (fun pat0 ->
      let (p0, idxs) = pat0 in
      let (p1, ranks) = p0 in
      let (p2, bits) = p1 in
      let (dec, max_bits) = p2 in
      ROk ({ ht_decode = dec; ht_weights = ws; ht_max_bits = max_bits;
      ht_bits = bits; ht_bit_ranks = ranks; ht_rank_indexes = idxs; ht_fse =
      ft }, bytes)))

(** val nth_h : huf_entry list -> z -> huf_entry **)

let nth_h l i =
  nth (Z.to_nat i) l hentry0

(** val huf_init_state : huf_table -> rbr -> z * rbr **)

let huf_init_state t br =
  rbr_get_bits br t.ht_max_bits

(** val huf_decode_symbol : huf_table -> z -> z res **)

let huf_decode_symbol t state =
  if Z.leb (Z.of_nat (length t.ht_decode)) state
  then RPanic (String ((Ascii (true, false, false, true, false, true, true,
         false)), (String ((Ascii (false, true, true, true, false, true,
         true, false)), (String ((Ascii (false, false, true, false, false,
         true, true, false)), (String ((Ascii (true, false, true, false,
         false, true, true, false)), (String ((Ascii (false, false, false,
         true, true, true, true, false)), (String ((Ascii (false, false,
         false, false, false, true, false, false)), (String ((Ascii (true,
         true, true, true, false, true, true, false)), (String ((Ascii (true,
         false, true, false, true, true, true, false)), (String ((Ascii
         (false, false, true, false, true, true, true, false)), (String
         ((Ascii (false, false, false, false, false, true, false, false)),
         (String ((Ascii (true, true, true, true, false, true, true, false)),
         (String ((Ascii (false, true, true, false, false, true, true,
         false)), (String ((Ascii (false, false, false, false, false, true,
         false, false)), (String ((Ascii (false, true, false, false, false,
         true, true, false)), (String ((Ascii (true, true, true, true, false,
         true, true, false)), (String ((Ascii (true, false, true, false,
         true, true, true, false)), (String ((Ascii (false, true, true, true,
         false, true, true, false)), (String ((Ascii (false, false, true,
         false, false, true, true, false)), (String ((Ascii (true, true,
         false, false, true, true, true, false)),
         EmptyString))))))))))))))))))))))))))))))))))))))
  else ROk (nth_h t.ht_decode state).h_sym

(** val huf_next_state : huf_table -> z -> rbr -> (z * rbr) res **)

let huf_next_state t state br =
  if Z.leb (Z.of_nat (length t.ht_decode)) state
  then RPanic (String ((Ascii (true, false, false, true, false, true, true,
         false)), (String ((Ascii (false, true, true, true, false, true,
         true, false)), (String ((Ascii (false, false, true, false, false,
         true, true, false)), (String ((Ascii (true, false, true, false,
         false, true, true, false)), (String ((Ascii (false, false, false,
         true, true, true, true, false)), (String ((Ascii (false, false,
         false, false, false, true, false, false)), (String ((Ascii (true,
         true, true, true, false, true, true, false)), (String ((Ascii (true,
         false, true, false, true, true, true, false)), (String ((Ascii
         (false, false, true, false, true, true, true, false)), (String
         ((Ascii (false, false, false, false, false, true, false, false)),
         (String ((Ascii (true, true, true, true, false, true, true, false)),
         (String ((Ascii (false, true, true, false, false, true, true,
         false)), (String ((Ascii (false, false, false, false, false, true,
         false, false)), (String ((Ascii (false, true, false, false, false,
         true, true, false)), (String ((Ascii (true, true, true, true, false,
         true, true, false)), (String ((Ascii (true, false, true, false,
         true, true, true, false)), (String ((Ascii (false, true, true, true,
         false, true, true, false)), (String ((Ascii (false, false, true,
         false, false, true, true, false)), (String ((Ascii (true, true,
         false, false, true, true, true, false)),
         EmptyString))))))))))))))))))))))))))))))))))))))
  else let nb = (nth_h t.ht_decode state).h_bits in
       let (new_bits, br0) = rbr_get_bits br nb in
       let len = Z.of_nat (length t.ht_decode) in
       ROk
       ((Z.coq_lor
          (Z.coq_land (Z.mul state (Z.pow (Zpos (XO XH)) nb))
            (Z.sub len (Zpos XH))) new_bits), br0)

(** val huf_stream_loop :
    nat -> huf_table -> z -> rbr -> z list -> (z list * rbr) res **)

let rec huf_stream_loop fuel t state br out_rev =
  match fuel with
  | O ->
    RPanic (String ((Ascii (false, true, true, false, false, true, true,
      false)), (String ((Ascii (true, false, true, false, true, true, true,
      false)), (String ((Ascii (true, false, true, false, false, true, true,
      false)), (String ((Ascii (false, false, true, true, false, true, true,
      false)), EmptyString))))))))
  | S f ->
    if Z.ltb (Z.opp t.ht_max_bits) (rbr_bits_remaining br)
    then rbind (huf_decode_symbol t state) (fun sym ->
           rbind (huf_next_state t state br) (fun pat ->
             let (state0, br0) = pat in
             huf_stream_loop f t state0 br0 (sym :: out_rev)))
    else ROk (out_rev, br)

(** val huf_decode_stream :
    huf_table -> z list -> z list -> bool -> z list res **)

let huf_decode_stream t stream out_rev check_end =
  let br = rbr_new stream in
  (match rbr_skip_padding br with
   | Some br0 ->
     let (state, br1) = huf_init_state t br0 in
     rbind
       (huf_stream_loop (S
         (add (mul (S (S (S (S (S (S (S (S O)))))))) (length stream)) (S (S
           (S (S (S (S (S (S (S (S (S (S (S (S (S (S O)))))))))))))))))) t
         state br1 out_rev) (fun pat ->
       let (out_rev0, br2) = pat in
       if (&&) check_end
            (negb (Z.eqb (rbr_bits_remaining br2) (Z.opp t.ht_max_bits)))
       then RErr (String ((Ascii (false, true, false, false, false, false,
              true, false)), (String ((Ascii (true, false, false, true,
              false, true, true, false)), (String ((Ascii (false, false,
              true, false, true, true, true, false)), (String ((Ascii (true,
              true, false, false, true, true, true, false)), (String ((Ascii
              (false, false, true, false, true, true, true, false)), (String
              ((Ascii (false, true, false, false, true, true, true, false)),
              (String ((Ascii (true, false, true, false, false, true, true,
              false)), (String ((Ascii (true, false, false, false, false,
              true, true, false)), (String ((Ascii (true, false, true, true,
              false, true, true, false)), (String ((Ascii (false, true,
              false, false, true, false, true, false)), (String ((Ascii
              (true, false, true, false, false, true, true, false)), (String
              ((Ascii (true, false, false, false, false, true, true, false)),
              (String ((Ascii (false, false, true, false, false, true, true,
              false)), (String ((Ascii (true, false, true, true, false,
              false, true, false)), (String ((Ascii (true, false, false,
              true, false, true, true, false)), (String ((Ascii (true, true,
              false, false, true, true, true, false)), (String ((Ascii (true,
              false, true, true, false, true, true, false)), (String ((Ascii
              (true, false, false, false, false, true, true, false)), (String
              ((Ascii (false, false, true, false, true, true, true, false)),
              (String ((Ascii (true, true, false, false, false, true, true,
              false)), (String ((Ascii (false, false, false, true, false,
              true, true, false)),
              EmptyString))))))))))))))))))))))))))))))))))))))))))
       else ROk out_rev0)
   | None ->
     RErr (String ((Ascii (true, false, true, false, false, false, true,
       false)), (String ((Ascii (false, false, false, true, true, true, true,
       false)), (String ((Ascii (false, false, true, false, true, true, true,
       false)), (String ((Ascii (false, true, false, false, true, true, true,
       false)), (String ((Ascii (true, false, false, false, false, true,
       true, false)), (String ((Ascii (false, false, false, false, true,
       false, true, false)), (String ((Ascii (true, false, false, false,
       false, true, true, false)), (String ((Ascii (false, false, true,
       false, false, true, true, false)), (String ((Ascii (false, false,
       true, false, false, true, true, false)), (String ((Ascii (true, false,
       false, true, false, true, true, false)), (String ((Ascii (false, true,
       true, true, false, true, true, false)), (String ((Ascii (true, true,
       true, false, false, true, true, false)),
       EmptyString)))))))))))))))))))))))))

(** val mAGIC_NUM : z **)

let mAGIC_NUM =
  Zpos (XO (XO (XO (XI (XO (XI (XO (XO (XI (XO (XI (XO (XI (XI (XO (XI (XI
    (XI (XI (XI (XO (XI (XO (XO (XI (XO (XI (XI (XI (XI (XI
    XH)))))))))))))))))))))))))))))))

(** val mIN_WINDOW_SIZE : z **)

let mIN_WINDOW_SIZE =
  Zpos (XO (XO (XO (XO (XO (XO (XO (XO (XO (XO XH))))))))))

(** val mAX_WINDOW_SIZE : z **)

let mAX_WINDOW_SIZE =
  Z.add
    (Z.modulo
      (Z.mul (Zpos XH)
        (Z.pow (Zpos (XO XH)) (Zpos (XI (XO (XO (XI (XO XH)))))))) (Zpos (XO
      (XO (XO (XO (XO (XO (XO (XO (XO (XO (XO (XO (XO (XO (XO (XO (XO (XO (XO
      (XO (XO (XO (XO (XO (XO (XO (XO (XO (XO (XO (XO (XO (XO (XO (XO (XO (XO
      (XO (XO (XO (XO (XO (XO (XO (XO (XO (XO (XO (XO (XO (XO (XO (XO (XO (XO
      (XO (XO (XO (XO (XO (XO (XO (XO (XO
      XH))))))))))))))))))))))))))))))))))))))))))))))))))))))))))))))))))
    (Z.mul (Zpos (XI (XI XH)))
      (Z.modulo
        (Z.mul (Zpos XH)
          (Z.pow (Zpos (XO XH)) (Zpos (XO (XI (XI (XO (XO XH)))))))) (Zpos
        (XO (XO (XO (XO (XO (XO (XO (XO (XO (XO (XO (XO (XO (XO (XO (XO (XO
        (XO (XO (XO (XO (XO (XO (XO (XO (XO (XO (XO (XO (XO (XO (XO (XO (XO
        (XO (XO (XO (XO (XO (XO (XO (XO (XO (XO (XO (XO (XO (XO (XO (XO (XO
        (XO (XO (XO (XO (XO (XO (XO (XO (XO (XO (XO (XO (XO
        XH)))))))))))))))))))))))))))))))))))))))))))))))))))))))))))))))))))

(** val mAX_BLOCK_SIZE : z **)

let mAX_BLOCK_SIZE =
  Z.mul (Zpos (XO (XO (XO (XO (XO (XO (XO XH)))))))) (Zpos (XO (XO (XO (XO
    (XO (XO (XO (XO (XO (XO XH)))))))))))

(** val dEFAULT_MAX_WINDOW_SIZE : z **)

let dEFAULT_MAX_WINDOW_SIZE =
  Z.mul
    (Z.mul (Zpos (XO (XO (XO (XO (XO (XO (XO (XO (XO (XO XH))))))))))) (Zpos
      (XO (XO (XO (XO (XO (XO (XO (XO (XO (XO XH)))))))))))) (Zpos (XO (XO
    (XO (XO (XO (XO (XO XH))))))))

(** val lL_MAX_LOG : z **)

let lL_MAX_LOG =
  Zpos (XI (XO (XO XH)))

(** val mL_MAX_LOG : z **)

let mL_MAX_LOG =
  Zpos (XI (XO (XO XH)))

(** val oF_MAX_LOG : z **)

let oF_MAX_LOG =
  Zpos (XO (XO (XO XH)))

(** val lL_DEFAULT_ACC_LOG : z **)

let lL_DEFAULT_ACC_LOG =
  Zpos (XO (XI XH))

(** val mL_DEFAULT_ACC_LOG : z **)

let mL_DEFAULT_ACC_LOG =
  Zpos (XO (XI XH))

(** val oF_DEFAULT_ACC_LOG : z **)

let oF_DEFAULT_ACC_LOG =
  Zpos (XI (XO XH))

(** val lITERALS_LENGTH_DEFAULT_DISTRIBUTION : z list **)

let lITERALS_LENGTH_DEFAULT_DISTRIBUTION =
  (Zpos (XO (XO XH))) :: ((Zpos (XI XH)) :: ((Zpos (XO XH)) :: ((Zpos (XO
    XH)) :: ((Zpos (XO XH)) :: ((Zpos (XO XH)) :: ((Zpos (XO XH)) :: ((Zpos
    (XO XH)) :: ((Zpos (XO XH)) :: ((Zpos (XO XH)) :: ((Zpos (XO
    XH)) :: ((Zpos (XO XH)) :: ((Zpos (XO XH)) :: ((Zpos XH) :: ((Zpos
    XH) :: ((Zpos XH) :: ((Zpos (XO XH)) :: ((Zpos (XO XH)) :: ((Zpos (XO
    XH)) :: ((Zpos (XO XH)) :: ((Zpos (XO XH)) :: ((Zpos (XO XH)) :: ((Zpos
    (XO XH)) :: ((Zpos (XO XH)) :: ((Zpos (XO XH)) :: ((Zpos (XI
    XH)) :: ((Zpos (XO XH)) :: ((Zpos XH) :: ((Zpos XH) :: ((Zpos
    XH) :: ((Zpos XH) :: ((Zpos XH) :: ((Zneg XH) :: ((Zneg XH) :: ((Zneg
    XH) :: ((Zneg XH) :: [])))))))))))))))))))))))))))))))))))

(** val mATCH_LENGTH_DEFAULT_DISTRIBUTION : z list **)

let mATCH_LENGTH_DEFAULT_DISTRIBUTION =
  (Zpos XH) :: ((Zpos (XO (XO XH))) :: ((Zpos (XI XH)) :: ((Zpos (XO
    XH)) :: ((Zpos (XO XH)) :: ((Zpos (XO XH)) :: ((Zpos (XO XH)) :: ((Zpos
    (XO XH)) :: ((Zpos (XO XH)) :: ((Zpos XH) :: ((Zpos XH) :: ((Zpos
    XH) :: ((Zpos XH) :: ((Zpos XH) :: ((Zpos XH) :: ((Zpos XH) :: ((Zpos
    XH) :: ((Zpos XH) :: ((Zpos XH) :: ((Zpos XH) :: ((Zpos XH) :: ((Zpos
    XH) :: ((Zpos XH) :: ((Zpos XH) :: ((Zpos XH) :: ((Zpos XH) :: ((Zpos
    XH) :: ((Zpos XH) :: ((Zpos XH) :: ((Zpos XH) :: ((Zpos XH) :: ((Zpos
    XH) :: ((Zpos XH) :: ((Zpos XH) :: ((Zpos XH) :: ((Zpos XH) :: ((Zpos
    XH) :: ((Zpos XH) :: ((Zpos XH) :: ((Zpos XH) :: ((Zpos XH) :: ((Zpos
    XH) :: ((Zpos XH) :: ((Zpos XH) :: ((Zpos XH) :: ((Zpos XH) :: ((Zneg
    XH) :: ((Zneg XH) :: ((Zneg XH) :: ((Zneg XH) :: ((Zneg XH) :: ((Zneg
    XH) :: ((Zneg
    XH) :: []))))))))))))))))))))))))))))))))))))))))))))))))))))

(** val oFFSET_DEFAULT_DISTRIBUTION : z list **)

let oFFSET_DEFAULT_DISTRIBUTION =
  (Zpos XH) :: ((Zpos XH) :: ((Zpos XH) :: ((Zpos XH) :: ((Zpos XH) :: ((Zpos
    XH) :: ((Zpos (XO XH)) :: ((Zpos (XO XH)) :: ((Zpos (XO XH)) :: ((Zpos
    XH) :: ((Zpos XH) :: ((Zpos XH) :: ((Zpos XH) :: ((Zpos XH) :: ((Zpos
    XH) :: ((Zpos XH) :: ((Zpos XH) :: ((Zpos XH) :: ((Zpos XH) :: ((Zpos
    XH) :: ((Zpos XH) :: ((Zpos XH) :: ((Zpos XH) :: ((Zpos XH) :: ((Zneg
    XH) :: ((Zneg XH) :: ((Zneg XH) :: ((Zneg XH) :: ((Zneg
    XH) :: []))))))))))))))))))))))))))))

(** val mAX_LITERAL_LENGTH_CODE : z **)

let mAX_LITERAL_LENGTH_CODE =
  Zpos (XI (XI (XO (XO (XO XH)))))

(** val mAX_MATCH_LENGTH_CODE : z **)

let mAX_MATCH_LENGTH_CODE =
  Zpos (XO (XO (XI (XO (XI XH)))))

(** val mAX_OFFSET_CODE : z **)

let mAX_OFFSET_CODE =
  Zpos (XI (XI (XI (XI XH))))

(** val lookup_ll_code : z -> (z * z) res **)

let lookup_ll_code code =
  if (&&) (Z.leb Z0 code) (Z.leb code (Zpos (XI (XI (XI XH)))))
  then ROk (code, Z0)
  else if Z.eqb code (Zpos (XO (XO (XO (XO XH)))))
       then ROk ((Zpos (XO (XO (XO (XO XH))))), (Zpos XH))
       else if Z.eqb code (Zpos (XI (XO (XO (XO XH)))))
            then ROk ((Zpos (XO (XI (XO (XO XH))))), (Zpos XH))
            else if Z.eqb code (Zpos (XO (XI (XO (XO XH)))))
                 then ROk ((Zpos (XO (XO (XI (XO XH))))), (Zpos XH))
                 else if Z.eqb code (Zpos (XI (XI (XO (XO XH)))))
                      then ROk ((Zpos (XO (XI (XI (XO XH))))), (Zpos XH))
                      else if Z.eqb code (Zpos (XO (XO (XI (XO XH)))))
                           then ROk ((Zpos (XO (XO (XO (XI XH))))), (Zpos (XO
                                  XH)))
                           else if Z.eqb code (Zpos (XI (XO (XI (XO XH)))))
                                then ROk ((Zpos (XO (XO (XI (XI XH))))),
                                       (Zpos (XO XH)))
                                else if Z.eqb code (Zpos (XO (XI (XI (XO
                                          XH)))))
                                     then ROk ((Zpos (XO (XO (XO (XO (XO
                                            XH)))))), (Zpos (XI XH)))
                                     else if Z.eqb code (Zpos (XI (XI (XI (XO
                                               XH)))))
                                          then ROk ((Zpos (XO (XO (XO (XI (XO
                                                 XH)))))), (Zpos (XI XH)))
                                          else if Z.eqb code (Zpos (XO (XO
                                                    (XO (XI XH)))))
                                               then ROk ((Zpos (XO (XO (XO
                                                      (XO (XI XH)))))), (Zpos
                                                      (XO (XO XH))))
                                               else if Z.eqb code (Zpos (XI
                                                         (XO (XO (XI XH)))))
                                                    then ROk ((Zpos (XO (XO
                                                           (XO (XO (XO (XO
                                                           XH))))))), (Zpos
                                                           (XO (XI XH))))
                                                    else if Z.eqb code (Zpos
                                                              (XO (XI (XO (XI
                                                              XH)))))
                                                         then ROk ((Zpos (XO
                                                                (XO (XO (XO
                                                                (XO (XO (XO
                                                                XH)))))))),
                                                                (Zpos (XI (XI
                                                                XH))))
                                                         else if Z.eqb code
                                                                   (Zpos (XI
                                                                   (XI (XO
                                                                   (XI XH)))))
                                                              then ROk ((Zpos
                                                                    (XO (XO
                                                                    (XO (XO
                                                                    (XO (XO
                                                                    (XO (XO
                                                                    XH))))))))),
                                                                    (Zpos (XO
                                                                    (XO (XO
                                                                    XH)))))
                                                              else if 
                                                                    Z.eqb
                                                                    code
                                                                    (Zpos (XO
                                                                    (XO (XI
                                                                    (XI
                                                                    XH)))))
                                                                   then 
                                                                    ROk
                                                                    ((Zpos
                                                                    (XO (XO
                                                                    (XO (XO
                                                                    (XO (XO
                                                                    (XO (XO
                                                                    (XO
                                                                    XH)))))))))),
                                                                    (Zpos (XI
                                                                    (XO (XO
                                                                    XH)))))
                                                                   else 
                                                                    if 
                                                                    Z.eqb
                                                                    code
                                                                    (Zpos (XI
                                                                    (XO (XI
                                                                    (XI
                                                                    XH)))))
                                                                    then 
                                                                    ROk
                                                                    ((Zpos
                                                                    (XO (XO
                                                                    (XO (XO
                                                                    (XO (XO
                                                                    (XO (XO
                                                                    (XO (XO
                                                                    XH))))))))))),
                                                                    (Zpos (XO
                                                                    (XI (XO
                                                                    XH)))))
                                                                    else 
                                                                    if 
                                                                    Z.eqb
                                                                    code
                                                                    (Zpos (XO
                                                                    (XI (XI
                                                                    (XI
                                                                    XH)))))
                                                                    then 
                                                                    ROk
                                                                    ((Zpos
                                                                    (XO (XO
                                                                    (XO (XO
                                                                    (XO (XO
                                                                    (XO (XO
                                                                    (XO (XO
                                                                    (XO
                                                                    XH)))))))))))),
                                                                    (Zpos (XI
                                                                    (XI (XO
                                                                    XH)))))
                                                                    else 
                                                                    if 
                                                                    Z.eqb
                                                                    code
                                                                    (Zpos (XI
                                                                    (XI (XI
                                                                    (XI
                                                                    XH)))))
                                                                    then 
                                                                    ROk
                                                                    ((Zpos
                                                                    (XO (XO
                                                                    (XO (XO
                                                                    (XO (XO
                                                                    (XO (XO
                                                                    (XO (XO
                                                                    (XO (XO
                                                                    XH))))))))))))),
                                                                    (Zpos (XO
                                                                    (XO (XI
                                                                    XH)))))
                                                                    else 
                                                                    if 
                                                                    Z.eqb
                                                                    code
                                                                    (Zpos (XO
                                                                    (XO (XO
                                                                    (XO (XO
                                                                    XH))))))
                                                                    then 
                                                                    ROk
                                                                    ((Zpos
                                                                    (XO (XO
                                                                    (XO (XO
                                                                    (XO (XO
                                                                    (XO (XO
                                                                    (XO (XO
                                                                    (XO (XO
                                                                    (XO
                                                                    XH)))))))))))))),
                                                                    (Zpos (XI
                                                                    (XO (XI
                                                                    XH)))))
                                                                    else 
                                                                    if 
                                                                    Z.eqb
                                                                    code
                                                                    (Zpos (XI
                                                                    (XO (XO
                                                                    (XO (XO
                                                                    XH))))))
                                                                    then 
                                                                    ROk
                                                                    ((Zpos
                                                                    (XO (XO
                                                                    (XO (XO
                                                                    (XO (XO
                                                                    (XO (XO
                                                                    (XO (XO
                                                                    (XO (XO
                                                                    (XO (XO
                                                                    XH))))))))))))))),
                                                                    (Zpos (XO
                                                                    (XI (XI
                                                                    XH)))))
                                                                    else 
                                                                    if 
                                                                    Z.eqb
                                                                    code
                                                                    (Zpos (XO
                                                                    (XI (XO
                                                                    (XO (XO
                                                                    XH))))))
                                                                    then 
                                                                    ROk
                                                                    ((Zpos
                                                                    (XO (XO
                                                                    (XO (XO
                                                                    (XO (XO
                                                                    (XO (XO
                                                                    (XO (XO
                                                                    (XO (XO
                                                                    (XO (XO
                                                                    (XO
                                                                    XH)))))))))))))))),
                                                                    (Zpos (XI
                                                                    (XI (XI
                                                                    XH)))))
                                                                    else 
                                                                    if 
                                                                    Z.eqb
                                                                    code
                                                                    (Zpos (XI
                                                                    (XI (XO
                                                                    (XO (XO
                                                                    XH))))))
                                                                    then 
                                                                    ROk
                                                                    ((Zpos
                                                                    (XO (XO
                                                                    (XO (XO
                                                                    (XO (XO
                                                                    (XO (XO
                                                                    (XO (XO
                                                                    (XO (XO
                                                                    (XO (XO
                                                                    (XO (XO
                                                                    XH))))))))))))))))),
                                                                    (Zpos (XO
                                                                    (XO (XO
                                                                    (XO
                                                                    XH))))))
                                                                    else 
                                                                    RPanic
                                                                    (String
                                                                    ((Ascii
                                                                    (true,
                                                                    false,
                                                                    true,
                                                                    false,
                                                                    true,
                                                                    true,
                                                                    true,
                                                                    false)),
                                                                    (String
                                                                    ((Ascii
                                                                    (false,
                                                                    true,
                                                                    true,
                                                                    true,
                                                                    false,
                                                                    true,
                                                                    true,
                                                                    false)),
                                                                    (String
                                                                    ((Ascii
                                                                    (false,
                                                                    true,
                                                                    false,
                                                                    false,
                                                                    true,
                                                                    true,
                                                                    true,
                                                                    false)),
                                                                    (String
                                                                    ((Ascii
                                                                    (true,
                                                                    false,
                                                                    true,
                                                                    false,
                                                                    false,
                                                                    true,
                                                                    true,
                                                                    false)),
                                                                    (String
                                                                    ((Ascii
                                                                    (true,
                                                                    false,
                                                                    false,
                                                                    false,
                                                                    false,
                                                                    true,
                                                                    true,
                                                                    false)),
                                                                    (String
                                                                    ((Ascii
                                                                    (true,
                                                                    true,
                                                                    false,
                                                                    false,
                                                                    false,
                                                                    true,
                                                                    true,
                                                                    false)),
                                                                    (String
                                                                    ((Ascii
                                                                    (false,
                                                                    false,
                                                                    false,
                                                                    true,
                                                                    false,
                                                                    true,
                                                                    true,
                                                                    false)),
                                                                    (String
                                                                    ((Ascii
                                                                    (true,
                                                                    false,
                                                                    false,
                                                                    false,
                                                                    false,
                                                                    true,
                                                                    true,
                                                                    false)),
                                                                    (String
                                                                    ((Ascii
                                                                    (false,
                                                                    true,
                                                                    false,
                                                                    false,
                                                                    false,
                                                                    true,
                                                                    true,
                                                                    false)),
                                                                    (String
                                                                    ((Ascii
                                                                    (false,
                                                                    false,
                                                                    true,
                                                                    true,
                                                                    false,
                                                                    true,
                                                                    true,
                                                                    false)),
                                                                    (String
                                                                    ((Ascii
                                                                    (true,
                                                                    false,
                                                                    true,
                                                                    false,
                                                                    false,
                                                                    true,
                                                                    true,
                                                                    false)),
                                                                    EmptyString))))))))))))))))))))))

(** val lookup_ml_code : z -> (z * z) res **)

let lookup_ml_code code =
  if (&&) (Z.leb Z0 code) (Z.leb code (Zpos (XI (XI (XI (XI XH))))))
  then ROk ((Z.add code (Zpos (XI XH))), Z0)
  else if Z.eqb code (Zpos (XO (XO (XO (XO (XO XH))))))
       then ROk ((Zpos (XI (XI (XO (XO (XO XH)))))), (Zpos XH))
       else if Z.eqb code (Zpos (XI (XO (XO (XO (XO XH))))))
            then ROk ((Zpos (XI (XO (XI (XO (XO XH)))))), (Zpos XH))
            else if Z.eqb code (Zpos (XO (XI (XO (XO (XO XH))))))
                 then ROk ((Zpos (XI (XI (XI (XO (XO XH)))))), (Zpos XH))
                 else if Z.eqb code (Zpos (XI (XI (XO (XO (XO XH))))))
                      then ROk ((Zpos (XI (XO (XO (XI (XO XH)))))), (Zpos XH))
                      else if Z.eqb code (Zpos (XO (XO (XI (XO (XO XH))))))
                           then ROk ((Zpos (XI (XI (XO (XI (XO XH)))))),
                                  (Zpos (XO XH)))
                           else if Z.eqb code (Zpos (XI (XO (XI (XO (XO
                                     XH))))))
                                then ROk ((Zpos (XI (XI (XI (XI (XO XH)))))),
                                       (Zpos (XO XH)))
                                else if Z.eqb code (Zpos (XO (XI (XI (XO (XO
                                          XH))))))
                                     then ROk ((Zpos (XI (XI (XO (XO (XI
                                            XH)))))), (Zpos (XI XH)))
                                     else if Z.eqb code (Zpos (XI (XI (XI (XO
                                               (XO XH))))))
                                          then ROk ((Zpos (XI (XI (XO (XI (XI
                                                 XH)))))), (Zpos (XI XH)))
                                          else if Z.eqb code (Zpos (XO (XO
                                                    (XO (XI (XO XH))))))
                                               then ROk ((Zpos (XI (XI (XO
                                                      (XO (XO (XO XH))))))),
                                                      (Zpos (XO (XO XH))))
                                               else if Z.eqb code (Zpos (XI
                                                         (XO (XO (XI (XO
                                                         XH))))))
                                                    then ROk ((Zpos (XI (XI
                                                           (XO (XO (XI (XO
                                                           XH))))))), (Zpos
                                                           (XO (XO XH))))
                                                    else if Z.eqb code (Zpos
                                                              (XO (XI (XO (XI
                                                              (XO XH))))))
                                                         then ROk ((Zpos (XI
                                                                (XI (XO (XO
                                                                (XO (XI
                                                                XH))))))),
                                                                (Zpos (XI (XO
                                                                XH))))
                                                         else if Z.eqb code
                                                                   (Zpos (XI
                                                                   (XI (XO
                                                                   (XI (XO
                                                                   XH))))))
                                                              then ROk ((Zpos
                                                                    (XI (XI
                                                                    (XO (XO
                                                                    (XO (XO
                                                                    (XO
                                                                    XH)))))))),
                                                                    (Zpos (XI
                                                                    (XI XH))))
                                                              else if 
                                                                    Z.eqb
                                                                    code
                                                                    (Zpos (XO
                                                                    (XO (XI
                                                                    (XI (XO
                                                                    XH))))))
                                                                   then 
                                                                    ROk
                                                                    ((Zpos
                                                                    (XI (XI
                                                                    (XO (XO
                                                                    (XO (XO
                                                                    (XO (XO
                                                                    XH))))))))),
                                                                    (Zpos (XO
                                                                    (XO (XO
                                                                    XH)))))
                                                                   else 
                                                                    if 
                                                                    Z.eqb
                                                                    code
                                                                    (Zpos (XI
                                                                    (XO (XI
                                                                    (XI (XO
                                                                    XH))))))
                                                                    then 
                                                                    ROk
                                                                    ((Zpos
                                                                    (XI (XI
                                                                    (XO (XO
                                                                    (XO (XO
                                                                    (XO (XO
                                                                    (XO
                                                                    XH)))))))))),
                                                                    (Zpos (XI
                                                                    (XO (XO
                                                                    XH)))))
                                                                    else 
                                                                    if 
                                                                    Z.eqb
                                                                    code
                                                                    (Zpos (XO
                                                                    (XI (XI
                                                                    (XI (XO
                                                                    XH))))))
                                                                    then 
                                                                    ROk
                                                                    ((Zpos
                                                                    (XI (XI
                                                                    (XO (XO
                                                                    (XO (XO
                                                                    (XO (XO
                                                                    (XO (XO
                                                                    XH))))))))))),
                                                                    (Zpos (XO
                                                                    (XI (XO
                                                                    XH)))))
                                                                    else 
                                                                    if 
                                                                    Z.eqb
                                                                    code
                                                                    (Zpos (XI
                                                                    (XI (XI
                                                                    (XI (XO
                                                                    XH))))))
                                                                    then 
                                                                    ROk
                                                                    ((Zpos
                                                                    (XI (XI
                                                                    (XO (XO
                                                                    (XO (XO
                                                                    (XO (XO
                                                                    (XO (XO
                                                                    (XO
                                                                    XH)))))))))))),
                                                                    (Zpos (XI
                                                                    (XI (XO
                                                                    XH)))))
                                                                    else 
                                                                    if 
                                                                    Z.eqb
                                                                    code
                                                                    (Zpos (XO
                                                                    (XO (XO
                                                                    (XO (XI
                                                                    XH))))))
                                                                    then 
                                                                    ROk
                                                                    ((Zpos
                                                                    (XI (XI
                                                                    (XO (XO
                                                                    (XO (XO
                                                                    (XO (XO
                                                                    (XO (XO
                                                                    (XO (XO
                                                                    XH))))))))))))),
                                                                    (Zpos (XO
                                                                    (XO (XI
                                                                    XH)))))
                                                                    else 
                                                                    if 
                                                                    Z.eqb
                                                                    code
                                                                    (Zpos (XI
                                                                    (XO (XO
                                                                    (XO (XI
                                                                    XH))))))
                                                                    then 
                                                                    ROk
                                                                    ((Zpos
                                                                    (XI (XI
                                                                    (XO (XO
                                                                    (XO (XO
                                                                    (XO (XO
                                                                    (XO (XO
                                                                    (XO (XO
                                                                    (XO
                                                                    XH)))))))))))))),
                                                                    (Zpos (XI
                                                                    (XO (XI
                                                                    XH)))))
                                                                    else 
                                                                    if 
                                                                    Z.eqb
                                                                    code
                                                                    (Zpos (XO
                                                                    (XI (XO
                                                                    (XO (XI
                                                                    XH))))))
                                                                    then 
                                                                    ROk
                                                                    ((Zpos
                                                                    (XI (XI
                                                                    (XO (XO
                                                                    (XO (XO
                                                                    (XO (XO
                                                                    (XO (XO
                                                                    (XO (XO
                                                                    (XO (XO
                                                                    XH))))))))))))))),
                                                                    (Zpos (XO
                                                                    (XI (XI
                                                                    XH)))))
                                                                    else 
                                                                    if 
                                                                    Z.eqb
                                                                    code
                                                                    (Zpos (XI
                                                                    (XI (XO
                                                                    (XO (XI
                                                                    XH))))))
                                                                    then 
                                                                    ROk
                                                                    ((Zpos
                                                                    (XI (XI
                                                                    (XO (XO
                                                                    (XO (XO
                                                                    (XO (XO
                                                                    (XO (XO
                                                                    (XO (XO
                                                                    (XO (XO
                                                                    (XO
                                                                    XH)))))))))))))))),
                                                                    (Zpos (XI
                                                                    (XI (XI
                                                                    XH)))))
                                                                    else 
                                                                    if 
                                                                    Z.eqb
                                                                    code
                                                                    (Zpos (XO
                                                                    (XO (XI
                                                                    (XO (XI
                                                                    XH))))))
                                                                    then 
                                                                    ROk
                                                                    ((Zpos
                                                                    (XI (XI
                                                                    (XO (XO
                                                                    (XO (XO
                                                                    (XO (XO
                                                                    (XO (XO
                                                                    (XO (XO
                                                                    (XO (XO
                                                                    (XO (XO
                                                                    XH))))))))))))))))),
                                                                    (Zpos (XO
                                                                    (XO (XO
                                                                    (XO
                                                                    XH))))))
                                                                    else 
                                                                    RPanic
                                                                    (String
                                                                    ((Ascii
                                                                    (true,
                                                                    false,
                                                                    true,
                                                                    false,
                                                                    true,
                                                                    true,
                                                                    true,
                                                                    false)),
                                                                    (String
                                                                    ((Ascii
                                                                    (false,
                                                                    true,
                                                                    true,
                                                                    true,
                                                                    false,
                                                                    true,
                                                                    true,
                                                                    false)),
                                                                    (String
                                                                    ((Ascii
                                                                    (false,
                                                                    true,
                                                                    false,
                                                                    false,
                                                                    true,
                                                                    true,
                                                                    true,
                                                                    false)),
                                                                    (String
                                                                    ((Ascii
                                                                    (true,
                                                                    false,
                                                                    true,
                                                                    false,
                                                                    false,
                                                                    true,
                                                                    true,
                                                                    false)),
                                                                    (String
                                                                    ((Ascii
                                                                    (true,
                                                                    false,
                                                                    false,
                                                                    false,
                                                                    false,
                                                                    true,
                                                                    true,
                                                                    false)),
                                                                    (String
                                                                    ((Ascii
                                                                    (true,
                                                                    true,
                                                                    false,
                                                                    false,
                                                                    false,
                                                                    true,
                                                                    true,
                                                                    false)),
                                                                    (String
                                                                    ((Ascii
                                                                    (false,
                                                                    false,
                                                                    false,
                                                                    true,
                                                                    false,
                                                                    true,
                                                                    true,
                                                                    false)),
                                                                    (String
                                                                    ((Ascii
                                                                    (true,
                                                                    false,
                                                                    false,
                                                                    false,
                                                                    false,
                                                                    true,
                                                                    true,
                                                                    false)),
                                                                    (String
                                                                    ((Ascii
                                                                    (false,
                                                                    true,
                                                                    false,
                                                                    false,
                                                                    false,
                                                                    true,
                                                                    true,
                                                                    false)),
                                                                    (String
                                                                    ((Ascii
                                                                    (false,
                                                                    false,
                                                                    true,
                                                                    true,
                                                                    false,
                                                                    true,
                                                                    true,
                                                                    false)),
                                                                    (String
                                                                    ((Ascii
                                                                    (true,
                                                                    false,
                                                                    true,
                                                                    false,
                                                                    false,
                                                                    true,
                                                                    true,
                                                                    false)),
                                                                    EmptyString))))))))))))))))))))))

(** val do_offset_history : z -> z -> z list -> z * z list **)

let do_offset_history offset_value lit_len scratch0 =
  let actual_offset =
    if Z.gtb lit_len Z0
    then if (&&) (Z.leb (Zpos XH) offset_value)
              (Z.leb offset_value (Zpos (XI XH)))
         then znth scratch0 (Z.sub offset_value (Zpos XH))
         else Z.sub offset_value (Zpos (XI XH))
    else if (&&) (Z.leb (Zpos XH) offset_value)
              (Z.leb offset_value (Zpos (XO XH)))
         then znth scratch0 offset_value
         else if Z.eqb offset_value (Zpos (XI XH))
              then Z.max Z0 (Z.sub (znth scratch0 Z0) (Zpos XH))
              else Z.sub offset_value (Zpos (XI XH))
  in
  if Z.gtb lit_len Z0
  then if Z.eqb offset_value (Zpos XH)
       then (actual_offset, scratch0)
       else if Z.eqb offset_value (Zpos (XO XH))
            then let scratch1 = zupd scratch0 (Zpos XH) (znth scratch0 Z0) in
                 let scratch2 = zupd scratch1 Z0 actual_offset in
                 (actual_offset, scratch2)
            else let scratch1 =
                   zupd scratch0 (Zpos (XO XH)) (znth scratch0 (Zpos XH))
                 in
                 let scratch2 = zupd scratch1 (Zpos XH) (znth scratch1 Z0) in
                 let scratch3 = zupd scratch2 Z0 actual_offset in
                 (actual_offset, scratch3)
  else if Z.eqb offset_value (Zpos XH)
       then let scratch1 = zupd scratch0 (Zpos XH) (znth scratch0 Z0) in
            let scratch2 = zupd scratch1 Z0 actual_offset in
            (actual_offset, scratch2)
       else let scratch1 =
              zupd scratch0 (Zpos (XO XH)) (znth scratch0 (Zpos XH))
            in
            let scratch2 = zupd scratch1 (Zpos XH) (znth scratch1 Z0) in
            let scratch3 = zupd scratch2 Z0 actual_offset in
            (actual_offset, scratch3)

(** val frame_content_size_flag : z -> z **)

let frame_content_size_flag d =
  Z.div d (Z.pow (Zpos (XO XH)) (Zpos (XO (XI XH))))

(** val single_segment_flag : z -> bool **)

let single_segment_flag d =
  Z.eqb
    (Z.modulo (Z.div d (Z.pow (Zpos (XO XH)) (Zpos (XI (XO XH))))) (Zpos (XO
      XH))) (Zpos XH)

(** val content_checksum_flag : z -> bool **)

let content_checksum_flag d =
  Z.eqb
    (Z.modulo (Z.div d (Z.pow (Zpos (XO XH)) (Zpos (XO XH)))) (Zpos (XO XH)))
    (Zpos XH)

(** val dict_id_flag : z -> z **)

let dict_id_flag d =
  Z.modulo d (Zpos (XO (XO XH)))

(** val frame_content_size_bytes : z -> z res **)

let frame_content_size_bytes d =
  let _m0 = frame_content_size_flag d in
  if Z.eqb _m0 Z0
  then if single_segment_flag d then ROk (Zpos XH) else ROk Z0
  else if Z.eqb _m0 (Zpos XH)
       then ROk (Zpos (XO XH))
       else if Z.eqb _m0 (Zpos (XO XH))
            then ROk (Zpos (XO (XO XH)))
            else if Z.eqb _m0 (Zpos (XI XH))
                 then ROk (Zpos (XO (XO (XO XH))))
                 else RErr (String ((Ascii (true, false, false, true, false,
                        false, true, false)), (String ((Ascii (false, true,
                        true, true, false, true, true, false)), (String
                        ((Ascii (false, true, true, false, true, true, true,
                        false)), (String ((Ascii (true, false, false, false,
                        false, true, true, false)), (String ((Ascii (false,
                        false, true, true, false, true, true, false)),
                        (String ((Ascii (true, false, false, true, false,
                        true, true, false)), (String ((Ascii (false, false,
                        true, false, false, true, true, false)), (String
                        ((Ascii (false, true, true, false, false, false,
                        true, false)), (String ((Ascii (false, true, false,
                        false, true, true, true, false)), (String ((Ascii
                        (true, false, false, false, false, true, true,
                        false)), (String ((Ascii (true, false, true, true,
                        false, true, true, false)), (String ((Ascii (true,
                        false, true, false, false, true, true, false)),
                        (String ((Ascii (true, true, false, false, false,
                        false, true, false)), (String ((Ascii (true, true,
                        true, true, false, true, true, false)), (String
                        ((Ascii (false, true, true, true, false, true, true,
                        false)), (String ((Ascii (false, false, true, false,
                        true, true, true, false)), (String ((Ascii (true,
                        false, true, false, false, true, true, false)),
                        (String ((Ascii (false, true, true, true, false,
                        true, true, false)), (String ((Ascii (false, false,
                        true, false, true, true, true, false)), (String
                        ((Ascii (true, true, false, false, true, false, true,
                        false)), (String ((Ascii (true, false, false, true,
                        false, true, true, false)), (String ((Ascii (false,
                        true, false, true, true, true, true, false)), (String
                        ((Ascii (true, false, true, false, false, true, true,
                        false)), (String ((Ascii (false, true, true, false,
                        false, false, true, false)), (String ((Ascii (false,
                        false, true, true, false, true, true, false)),
                        (String ((Ascii (true, false, false, false, false,
                        true, true, false)), (String ((Ascii (true, true,
                        true, false, false, true, true, false)),
                        EmptyString))))))))))))))))))))))))))))))))))))))))))))))))))))))

(** val dictionary_id_bytes : z -> z res **)

let dictionary_id_bytes d =
  let _m0 = dict_id_flag d in
  if Z.eqb _m0 Z0
  then ROk Z0
  else if Z.eqb _m0 (Zpos XH)
       then ROk (Zpos XH)
       else if Z.eqb _m0 (Zpos (XO XH))
            then ROk (Zpos (XO XH))
            else if Z.eqb _m0 (Zpos (XI XH))
                 then ROk (Zpos (XO (XO XH)))
                 else RErr (String ((Ascii (true, false, false, true, false,
                        false, true, false)), (String ((Ascii (false, true,
                        true, true, false, true, true, false)), (String
                        ((Ascii (false, true, true, false, true, true, true,
                        false)), (String ((Ascii (true, false, false, false,
                        false, true, true, false)), (String ((Ascii (false,
                        false, true, true, false, true, true, false)),
                        (String ((Ascii (true, false, false, true, false,
                        true, true, false)), (String ((Ascii (false, false,
                        true, false, false, true, true, false)), (String
                        ((Ascii (false, true, true, false, false, false,
                        true, false)), (String ((Ascii (false, true, false,
                        false, true, true, true, false)), (String ((Ascii
                        (true, false, false, false, false, true, true,
                        false)), (String ((Ascii (true, false, true, true,
                        false, true, true, false)), (String ((Ascii (true,
                        false, true, false, false, true, true, false)),
                        (String ((Ascii (true, true, false, false, false,
                        false, true, false)), (String ((Ascii (true, true,
                        true, true, false, true, true, false)), (String
                        ((Ascii (false, true, true, true, false, true, true,
                        false)), (String ((Ascii (false, false, true, false,
                        true, true, true, false)), (String ((Ascii (true,
                        false, true, false, false, true, true, false)),
                        (String ((Ascii (false, true, true, true, false,
                        true, true, false)), (String ((Ascii (false, false,
                        true, false, true, true, true, false)), (String
                        ((Ascii (true, true, false, false, true, false, true,
                        false)), (String ((Ascii (true, false, false, true,
                        false, true, true, false)), (String ((Ascii (false,
                        true, false, true, true, true, true, false)), (String
                        ((Ascii (true, false, true, false, false, true, true,
                        false)), (String ((Ascii (false, true, true, false,
                        false, false, true, false)), (String ((Ascii (false,
                        false, true, true, false, true, true, false)),
                        (String ((Ascii (true, false, false, false, false,
                        true, true, false)), (String ((Ascii (true, true,
                        true, false, false, true, true, false)),
                        EmptyString))))))))))))))))))))))))))))))))))))))))))))))))))))))

(** val window_size : z -> z -> z -> z res **)

let window_size window_descriptor d fcs =
  if single_segment_flag d
  then ROk fcs
  else let exp = Z.div window_descriptor (Z.pow (Zpos (XO XH)) (Zpos (XI XH)))
       in
       let mantissa = Z.modulo window_descriptor (Zpos (XO (XO (XO XH)))) in
       let window_log = Z.add (Zpos (XO (XI (XO XH)))) exp in
       let window_base =
         Z.modulo (Z.mul (Zpos XH) (Z.pow (Zpos (XO XH)) window_log)) (Zpos
           (XO (XO (XO (XO (XO (XO (XO (XO (XO (XO (XO (XO (XO (XO (XO (XO
           (XO (XO (XO (XO (XO (XO (XO (XO (XO (XO (XO (XO (XO (XO (XO (XO
           (XO (XO (XO (XO (XO (XO (XO (XO (XO (XO (XO (XO (XO (XO (XO (XO
           (XO (XO (XO (XO (XO (XO (XO (XO (XO (XO (XO (XO (XO (XO (XO (XO
           XH)))))))))))))))))))))))))))))))))))))))))))))))))))))))))))))))))
       in
       let window_add =
         Z.mul (Z.div window_base (Zpos (XO (XO (XO XH))))) mantissa
       in
       let window_size0 = Z.add window_base window_add in
       if Z.geb window_size0 mIN_WINDOW_SIZE
       then if Z.leb window_size0 mAX_WINDOW_SIZE
            then ROk window_size0
            else RErr (String ((Ascii (true, true, true, false, true, false,
                   true, false)), (String ((Ascii (true, false, false, true,
                   false, true, true, false)), (String ((Ascii (false, true,
                   true, true, false, true, true, false)), (String ((Ascii
                   (false, false, true, false, false, true, true, false)),
                   (String ((Ascii (true, true, true, true, false, true,
                   true, false)), (String ((Ascii (true, true, true, false,
                   true, true, true, false)), (String ((Ascii (false, false,
                   true, false, true, false, true, false)), (String ((Ascii
                   (true, true, true, true, false, true, true, false)),
                   (String ((Ascii (true, true, true, true, false, true,
                   true, false)), (String ((Ascii (false, true, false, false,
                   false, false, true, false)), (String ((Ascii (true, false,
                   false, true, false, true, true, false)), (String ((Ascii
                   (true, true, true, false, false, true, true, false)),
                   EmptyString))))))))))))))))))))))))
       else RErr (String ((Ascii (true, true, true, false, true, false, true,
              false)), (String ((Ascii (true, false, false, true, false,
              true, true, false)), (String ((Ascii (false, true, true, true,
              false, true, true, false)), (String ((Ascii (false, false,
              true, false, false, true, true, false)), (String ((Ascii (true,
              true, true, true, false, true, true, false)), (String ((Ascii
              (true, true, true, false, true, true, true, false)), (String
              ((Ascii (false, false, true, false, true, false, true, false)),
              (String ((Ascii (true, true, true, true, false, true, true,
              false)), (String ((Ascii (true, true, true, true, false, true,
              true, false)), (String ((Ascii (true, true, false, false, true,
              false, true, false)), (String ((Ascii (true, false, true, true,
              false, true, true, false)), (String ((Ascii (true, false,
              false, false, false, true, true, false)), (String ((Ascii
              (false, false, true, true, false, true, true, false)), (String
              ((Ascii (false, false, true, true, false, true, true, false)),
              EmptyString))))))))))))))))))))))))))))

(** val is_last : z -> bool **)

let is_last b0 =
  Z.eqb (Z.modulo b0 (Zpos (XO XH))) (Zpos XH)

(** val block_type : z -> z res **)

let block_type b0 =
  let t =
    Z.modulo (Z.div b0 (Z.pow (Zpos (XO XH)) (Zpos XH))) (Zpos (XO (XO XH)))
  in
  if Z.eqb t Z0
  then ROk Z0
  else if Z.eqb t (Zpos XH)
       then ROk (Zpos XH)
       else if Z.eqb t (Zpos (XO XH))
            then ROk (Zpos (XO XH))
            else if Z.eqb t (Zpos (XI XH))
                 then ROk (Zpos (XI XH))
                 else RErr (String ((Ascii (true, false, false, true, false,
                        false, true, false)), (String ((Ascii (false, true,
                        true, true, false, true, true, false)), (String
                        ((Ascii (false, true, true, false, true, true, true,
                        false)), (String ((Ascii (true, false, false, false,
                        false, true, true, false)), (String ((Ascii (false,
                        false, true, true, false, true, true, false)),
                        (String ((Ascii (true, false, false, true, false,
                        true, true, false)), (String ((Ascii (false, false,
                        true, false, false, true, true, false)), (String
                        ((Ascii (false, true, false, false, false, false,
                        true, false)), (String ((Ascii (false, false, true,
                        true, false, true, true, false)), (String ((Ascii
                        (true, true, true, true, false, true, true, false)),
                        (String ((Ascii (true, true, false, false, false,
                        true, true, false)), (String ((Ascii (true, true,
                        false, true, false, true, true, false)), (String
                        ((Ascii (false, false, true, false, true, true, true,
                        false)), (String ((Ascii (true, false, false, true,
                        true, true, true, false)), (String ((Ascii (false,
                        false, false, false, true, true, true, false)),
                        (String ((Ascii (true, false, true, false, false,
                        true, true, false)), (String ((Ascii (false, true,
                        true, true, false, false, true, false)), (String
                        ((Ascii (true, false, true, false, true, true, true,
                        false)), (String ((Ascii (true, false, true, true,
                        false, true, true, false)), (String ((Ascii (false,
                        true, false, false, false, true, true, false)),
                        (String ((Ascii (true, false, true, false, false,
                        true, true, false)), (String ((Ascii (false, true,
                        false, false, true, true, true, false)),
                        EmptyString))))))))))))))))))))))))))))))))))))))))))))

(** val block_content_size_unchecked : z -> z -> z -> z **)

let block_content_size_unchecked b0 b1 b2 =
  Z.coq_lor
    (Z.coq_lor (Z.div b0 (Z.pow (Zpos (XO XH)) (Zpos (XI XH))))
      (Z.modulo (Z.mul b1 (Z.pow (Zpos (XO XH)) (Zpos (XI (XO XH))))) (Zpos
        (XO (XO (XO (XO (XO (XO (XO (XO (XO (XO (XO (XO (XO (XO (XO (XO (XO
        (XO (XO (XO (XO (XO (XO (XO (XO (XO (XO (XO (XO (XO (XO (XO
        XH)))))))))))))))))))))))))))))))))))
    (Z.modulo (Z.mul b2 (Z.pow (Zpos (XO XH)) (Zpos (XI (XO (XI XH))))))
      (Zpos (XO (XO (XO (XO (XO (XO (XO (XO (XO (XO (XO (XO (XO (XO (XO (XO
      (XO (XO (XO (XO (XO (XO (XO (XO (XO (XO (XO (XO (XO (XO (XO (XO
      XH))))))))))))))))))))))))))))))))))

(** val block_content_size : z -> z -> z -> z res **)

let block_content_size b0 b1 b2 =
  let val0 = block_content_size_unchecked b0 b1 b2 in
  if Z.gtb val0 mAX_BLOCK_SIZE
  then RErr (String ((Ascii (false, true, false, false, false, false, true,
         false)), (String ((Ascii (false, false, true, true, false, true,
         true, false)), (String ((Ascii (true, true, true, true, false, true,
         true, false)), (String ((Ascii (true, true, false, false, false,
         true, true, false)), (String ((Ascii (true, true, false, true,
         false, true, true, false)), (String ((Ascii (true, true, false,
         false, true, false, true, false)), (String ((Ascii (true, false,
         false, true, false, true, true, false)), (String ((Ascii (false,
         true, false, true, true, true, true, false)), (String ((Ascii (true,
         false, true, false, false, true, true, false)), (String ((Ascii
         (false, false, true, false, true, false, true, false)), (String
         ((Ascii (true, true, true, true, false, true, true, false)), (String
         ((Ascii (true, true, true, true, false, true, true, false)), (String
         ((Ascii (false, false, true, true, false, false, true, false)),
         (String ((Ascii (true, false, false, false, false, true, true,
         false)), (String ((Ascii (false, true, false, false, true, true,
         true, false)), (String ((Ascii (true, true, true, false, false,
         true, true, false)), (String ((Ascii (true, false, true, false,
         false, true, true, false)),
         EmptyString))))))))))))))))))))))))))))))))))
  else ROk val0

(** val literals_section_type : z -> z res **)

let literals_section_type raw =
  let t = Z.modulo raw (Zpos (XO (XO XH))) in
  if Z.eqb t Z0
  then ROk Z0
  else if Z.eqb t (Zpos XH)
       then ROk (Zpos XH)
       else if Z.eqb t (Zpos (XO XH))
            then ROk (Zpos (XO XH))
            else if Z.eqb t (Zpos (XI XH))
                 then ROk (Zpos (XI XH))
                 else RErr (String ((Ascii (true, false, false, true, false,
                        false, true, false)), (String ((Ascii (false, false,
                        true, true, false, true, true, false)), (String
                        ((Ascii (false, false, true, true, false, true, true,
                        false)), (String ((Ascii (true, false, true, false,
                        false, true, true, false)), (String ((Ascii (true,
                        true, true, false, false, true, true, false)),
                        (String ((Ascii (true, false, false, false, false,
                        true, true, false)), (String ((Ascii (false, false,
                        true, true, false, true, true, false)), (String
                        ((Ascii (false, false, true, true, false, false,
                        true, false)), (String ((Ascii (true, false, false,
                        true, false, true, true, false)), (String ((Ascii
                        (false, false, true, false, true, true, true,
                        false)), (String ((Ascii (true, false, true, false,
                        false, true, true, false)), (String ((Ascii (false,
                        true, false, false, true, true, true, false)),
                        (String ((Ascii (true, false, false, false, false,
                        true, true, false)), (String ((Ascii (false, false,
                        true, true, false, true, true, false)), (String
                        ((Ascii (true, true, false, false, true, false, true,
                        false)), (String ((Ascii (true, false, true, false,
                        false, true, true, false)), (String ((Ascii (true,
                        true, false, false, false, true, true, false)),
                        (String ((Ascii (false, false, true, false, true,
                        true, true, false)), (String ((Ascii (true, false,
                        false, true, false, true, true, false)), (String
                        ((Ascii (true, true, true, true, false, true, true,
                        false)), (String ((Ascii (false, true, true, true,
                        false, true, true, false)), (String ((Ascii (false,
                        false, true, false, true, false, true, false)),
                        (String ((Ascii (true, false, false, true, true,
                        true, true, false)), (String ((Ascii (false, false,
                        false, false, true, true, true, false)), (String
                        ((Ascii (true, false, true, false, false, true, true,
                        false)),
                        EmptyString))))))))))))))))))))))))))))))))))))))))))))))))))

(** val header_bytes_needed : z -> z res **)

let header_bytes_needed first_byte =
  match literals_section_type first_byte with
  | ROk ls_type0 ->
    let size_format =
      Z.modulo (Z.div first_byte (Z.pow (Zpos (XO XH)) (Zpos (XO XH)))) (Zpos
        (XO (XO XH)))
    in
    if (||) (Z.eqb ls_type0 (Zpos XH)) (Z.eqb ls_type0 Z0)
    then if (||) (Z.eqb size_format Z0) (Z.eqb size_format (Zpos (XO XH)))
         then ROk (Zpos XH)
         else if Z.eqb size_format (Zpos XH)
              then ROk (Zpos (XO XH))
              else if Z.eqb size_format (Zpos (XI XH))
                   then ROk (Zpos (XI XH))
                   else RPanic (String ((Ascii (false, false, false, false,
                          true, true, true, false)), (String ((Ascii (true,
                          false, false, false, false, true, true, false)),
                          (String ((Ascii (false, true, true, true, false,
                          true, true, false)), (String ((Ascii (true, false,
                          false, true, false, true, true, false)), (String
                          ((Ascii (true, true, false, false, false, true,
                          true, false)), EmptyString))))))))))
    else if (||) (Z.eqb ls_type0 (Zpos (XO XH)))
              (Z.eqb ls_type0 (Zpos (XI XH)))
         then if (||) (Z.eqb size_format Z0) (Z.eqb size_format (Zpos XH))
              then ROk (Zpos (XI XH))
              else if Z.eqb size_format (Zpos (XO XH))
                   then ROk (Zpos (XO (XO XH)))
                   else if Z.eqb size_format (Zpos (XI XH))
                        then ROk (Zpos (XI (XO XH)))
                        else RPanic (String ((Ascii (false, false, false,
                               false, true, true, true, false)), (String
                               ((Ascii (true, false, false, false, false,
                               true, true, false)), (String ((Ascii (false,
                               true, true, true, false, true, true, false)),
                               (String ((Ascii (true, false, false, true,
                               false, true, true, false)), (String ((Ascii
                               (true, true, false, false, false, true, true,
                               false)), EmptyString))))))))))
         else RPanic (String ((Ascii (false, true, true, true, false, true,
                true, false)), (String ((Ascii (true, true, true, true,
                false, true, true, false)), (String ((Ascii (false, true,
                true, true, false, true, true, false)), (String ((Ascii
                (true, false, true, false, false, true, true, false)),
                (String ((Ascii (false, false, false, true, true, true, true,
                false)), (String ((Ascii (false, false, false, true, false,
                true, true, false)), (String ((Ascii (true, false, false,
                false, false, true, true, false)), (String ((Ascii (true,
                false, true, false, true, true, true, false)), (String
                ((Ascii (true, true, false, false, true, true, true, false)),
                (String ((Ascii (false, false, true, false, true, true, true,
                false)), (String ((Ascii (true, false, false, true, false,
                true, true, false)), (String ((Ascii (false, true, true,
                false, true, true, true, false)), (String ((Ascii (true,
                false, true, false, false, true, true, false)),
                EmptyString))))))))))))))))))))))))))
  | x -> x

(** val sequences_header_parse :
    z -> z option -> z list -> ((z * z) * z option) res **)

let sequences_header_parse _ modes source =
  let bytes_read = Z0 in
  if Nat.eqb (length source) O
  then RErr (String ((Ascii (false, true, true, true, false, false, true,
         false)), (String ((Ascii (true, true, true, true, false, true, true,
         false)), (String ((Ascii (false, false, true, false, true, true,
         true, false)), (String ((Ascii (true, false, true, false, false,
         false, true, false)), (String ((Ascii (false, true, true, true,
         false, true, true, false)), (String ((Ascii (true, true, true, true,
         false, true, true, false)), (String ((Ascii (true, false, true,
         false, true, true, true, false)), (String ((Ascii (true, true, true,
         false, false, true, true, false)), (String ((Ascii (false, false,
         false, true, false, true, true, false)), (String ((Ascii (false,
         true, false, false, false, false, true, false)), (String ((Ascii
         (true, false, false, true, true, true, true, false)), (String
         ((Ascii (false, false, true, false, true, true, true, false)),
         (String ((Ascii (true, false, true, false, false, true, true,
         false)), (String ((Ascii (true, true, false, false, true, true,
         true, false)), EmptyString))))))))))))))))))))))))))))
  else let _m0 = znth source Z0 in
       if Z.eqb _m0 Z0
       then let num_sequences = Z0 in
            let bytes_read0 = Z.add bytes_read (Zpos XH) in
            ROk ((bytes_read0, num_sequences), modes)
       else if (&&) (Z.leb (Zpos XH) _m0)
                 (Z.leb _m0 (Zpos (XI (XI (XI (XI (XI (XI XH))))))))
            then if Z.ltb (Z.of_nat (length source)) (Zpos (XO XH))
                 then RErr (String ((Ascii (false, true, true, true, false,
                        false, true, false)), (String ((Ascii (true, true,
                        true, true, false, true, true, false)), (String
                        ((Ascii (false, false, true, false, true, true, true,
                        false)), (String ((Ascii (true, false, true, false,
                        false, false, true, false)), (String ((Ascii (false,
                        true, true, true, false, true, true, false)), (String
                        ((Ascii (true, true, true, true, false, true, true,
                        false)), (String ((Ascii (true, false, true, false,
                        true, true, true, false)), (String ((Ascii (true,
                        true, true, false, false, true, true, false)),
                        (String ((Ascii (false, false, false, true, false,
                        true, true, false)), (String ((Ascii (false, true,
                        false, false, false, false, true, false)), (String
                        ((Ascii (true, false, false, true, true, true, true,
                        false)), (String ((Ascii (false, false, true, false,
                        true, true, true, false)), (String ((Ascii (true,
                        false, true, false, false, true, true, false)),
                        (String ((Ascii (true, true, false, false, true,
                        true, true, false)),
                        EmptyString))))))))))))))))))))))))))))
                 else let num_sequences = znth source Z0 in
                      let modes0 = Some (znth source (Zpos XH)) in
                      let bytes_read0 = Z.add bytes_read (Zpos (XO XH)) in
                      ROk ((bytes_read0, num_sequences), modes0)
            else if (&&)
                      (Z.leb (Zpos (XO (XO (XO (XO (XO (XO (XO XH)))))))) _m0)
                      (Z.leb _m0 (Zpos (XO (XI (XI (XI (XI (XI (XI XH)))))))))
                 then if Z.ltb (Z.of_nat (length source)) (Zpos (XO XH))
                      then RErr (String ((Ascii (false, true, true, true,
                             false, false, true, false)), (String ((Ascii
                             (true, true, true, true, false, true, true,
                             false)), (String ((Ascii (false, false, true,
                             false, true, true, true, false)), (String
                             ((Ascii (true, false, true, false, false, false,
                             true, false)), (String ((Ascii (false, true,
                             true, true, false, true, true, false)), (String
                             ((Ascii (true, true, true, true, false, true,
                             true, false)), (String ((Ascii (true, false,
                             true, false, true, true, true, false)), (String
                             ((Ascii (true, true, true, false, false, true,
                             true, false)), (String ((Ascii (false, false,
                             false, true, false, true, true, false)), (String
                             ((Ascii (false, true, false, false, false,
                             false, true, false)), (String ((Ascii (true,
                             false, false, true, true, true, true, false)),
                             (String ((Ascii (false, false, true, false,
                             true, true, true, false)), (String ((Ascii
                             (true, false, true, false, false, true, true,
                             false)), (String ((Ascii (true, true, false,
                             false, true, true, true, false)),
                             EmptyString))))))))))))))))))))))))))))
                      else let num_sequences =
                             Z.add
                               (Z.modulo
                                 (Z.mul
                                   (Z.sub (znth source Z0) (Zpos (XO (XO (XO
                                     (XO (XO (XO (XO XH)))))))))
                                   (Z.pow (Zpos (XO XH)) (Zpos (XO (XO (XO
                                     XH)))))) (Zpos (XO (XO (XO (XO (XO (XO
                                 (XO (XO (XO (XO (XO (XO (XO (XO (XO (XO (XO
                                 (XO (XO (XO (XO (XO (XO (XO (XO (XO (XO (XO
                                 (XO (XO (XO (XO
                                 XH))))))))))))))))))))))))))))))))))
                               (znth source (Zpos XH))
                           in
                           let bytes_read0 = Z.add bytes_read (Zpos (XO XH))
                           in
                           if negb (Z.eqb num_sequences Z0)
                           then if Z.ltb (Z.of_nat (length source)) (Zpos (XI
                                     XH))
                                then RErr (String ((Ascii (false, true, true,
                                       true, false, false, true, false)),
                                       (String ((Ascii (true, true, true,
                                       true, false, true, true, false)),
                                       (String ((Ascii (false, false, true,
                                       false, true, true, true, false)),
                                       (String ((Ascii (true, false, true,
                                       false, false, false, true, false)),
                                       (String ((Ascii (false, true, true,
                                       true, false, true, true, false)),
                                       (String ((Ascii (true, true, true,
                                       true, false, true, true, false)),
                                       (String ((Ascii (true, false, true,
                                       false, true, true, true, false)),
                                       (String ((Ascii (true, true, true,
                                       false, false, true, true, false)),
                                       (String ((Ascii (false, false, false,
                                       true, false, true, true, false)),
                                       (String ((Ascii (false, true, false,
                                       false, false, false, true, false)),
                                       (String ((Ascii (true, false, false,
                                       true, true, true, true, false)),
                                       (String ((Ascii (false, false, true,
                                       false, true, true, true, false)),
                                       (String ((Ascii (true, false, true,
                                       false, false, true, true, false)),
                                       (String ((Ascii (true, true, false,
                                       false, true, true, true, false)),
                                       EmptyString))))))))))))))))))))))))))))
                                else let modes0 = Some
                                       (znth source (Zpos (XO XH)))
                                     in
                                     let bytes_read1 =
                                       Z.add bytes_read0 (Zpos XH)
                                     in
                                     ROk ((bytes_read1, num_sequences),
                                     modes0)
                           else ROk ((bytes_read0, num_sequences), modes)
                 else if Z.eqb _m0 (Zpos (XI (XI (XI (XI (XI (XI (XI
                           XH))))))))
                      then if Z.ltb (Z.of_nat (length source)) (Zpos (XO (XO
                                XH)))
                           then RErr (String ((Ascii (false, true, true,
                                  true, false, false, true, false)), (String
                                  ((Ascii (true, true, true, true, false,
                                  true, true, false)), (String ((Ascii
                                  (false, false, true, false, true, true,
                                  true, false)), (String ((Ascii (true,
                                  false, true, false, false, false, true,
                                  false)), (String ((Ascii (false, true,
                                  true, true, false, true, true, false)),
                                  (String ((Ascii (true, true, true, true,
                                  false, true, true, false)), (String ((Ascii
                                  (true, false, true, false, true, true,
                                  true, false)), (String ((Ascii (true, true,
                                  true, false, false, true, true, false)),
                                  (String ((Ascii (false, false, false, true,
                                  false, true, true, false)), (String ((Ascii
                                  (false, true, false, false, false, false,
                                  true, false)), (String ((Ascii (true,
                                  false, false, true, true, true, true,
                                  false)), (String ((Ascii (false, false,
                                  true, false, true, true, true, false)),
                                  (String ((Ascii (true, false, true, false,
                                  false, true, true, false)), (String ((Ascii
                                  (true, true, false, false, true, true,
                                  true, false)),
                                  EmptyString))))))))))))))))))))))))))))
                           else let num_sequences =
                                  Z.add
                                    (Z.add (znth source (Zpos XH))
                                      (Z.modulo
                                        (Z.mul (znth source (Zpos (XO XH)))
                                          (Z.pow (Zpos (XO XH)) (Zpos (XO (XO
                                            (XO XH)))))) (Zpos (XO (XO (XO
                                        (XO (XO (XO (XO (XO (XO (XO (XO (XO
                                        (XO (XO (XO (XO (XO (XO (XO (XO (XO
                                        (XO (XO (XO (XO (XO (XO (XO (XO (XO
                                        (XO (XO
                                        XH)))))))))))))))))))))))))))))))))))
                                    (Zpos (XO (XO (XO (XO (XO (XO (XO (XO (XI
                                    (XI (XI (XI (XI (XI XH)))))))))))))))
                                in
                                let modes0 = Some (znth source (Zpos (XI XH)))
                                in
                                let bytes_read0 =
                                  Z.add bytes_read (Zpos (XO (XO XH)))
                                in
                                ROk ((bytes_read0, num_sequences), modes0)
                      else RPanic (String ((Ascii (false, true, true, true,
                             false, true, true, false)), (String ((Ascii
                             (true, true, true, true, false, true, true,
                             false)), (String ((Ascii (false, true, true,
                             true, false, true, true, false)), (String
                             ((Ascii (true, false, true, false, false, true,
                             true, false)), (String ((Ascii (false, false,
                             false, true, true, true, true, false)), (String
                             ((Ascii (false, false, false, true, false, true,
                             true, false)), (String ((Ascii (true, false,
                             false, false, false, true, true, false)),
                             (String ((Ascii (true, false, true, false, true,
                             true, true, false)), (String ((Ascii (true,
                             true, false, false, true, true, true, false)),
                             (String ((Ascii (false, false, true, false,
                             true, true, true, false)), (String ((Ascii
                             (true, false, false, true, false, true, true,
                             false)), (String ((Ascii (false, true, true,
                             false, true, true, true, false)), (String
                             ((Ascii (true, false, true, false, false, true,
                             true, false)),
                             EmptyString))))))))))))))))))))))))))

(** val check_window_size : z -> z -> unit res **)

let check_window_size window_size0 max_window_size =
  if Z.gtb window_size0 max_window_size
  then RErr (String ((Ascii (true, true, true, false, true, false, true,
         false)), (String ((Ascii (true, false, false, true, false, true,
         true, false)), (String ((Ascii (false, true, true, true, false,
         true, true, false)), (String ((Ascii (false, false, true, false,
         false, true, true, false)), (String ((Ascii (true, true, true, true,
         false, true, true, false)), (String ((Ascii (true, true, true,
         false, true, true, true, false)), (String ((Ascii (true, true,
         false, false, true, false, true, false)), (String ((Ascii (true,
         false, false, true, false, true, true, false)), (String ((Ascii
         (false, true, false, true, true, true, true, false)), (String
         ((Ascii (true, false, true, false, false, true, true, false)),
         (String ((Ascii (false, false, true, false, true, false, true,
         false)), (String ((Ascii (true, true, true, true, false, true, true,
         false)), (String ((Ascii (true, true, true, true, false, true, true,
         false)), (String ((Ascii (false, true, false, false, false, false,
         true, false)), (String ((Ascii (true, false, false, true, false,
         true, true, false)), (String ((Ascii (true, true, true, false,
         false, true, true, false)),
         EmptyString))))))))))))))))))))))))))))))))
  else ROk ()

(** val set_max_window_size : z -> unit * z **)

let set_max_window_size max_window_size =
  let self_max_window_size = Z.min max_window_size mAX_WINDOW_SIZE in
  ((), self_max_window_size)

(** val read_block_header : z -> z -> z -> (((bool * z) * z) * z) res **)

let read_block_header b0 b1 b2 =
  rbind (block_type b0) (fun ty ->
    if Z.eqb ty (Zpos (XI XH))
    then RErr (String ((Ascii (false, true, true, false, false, false, true,
           false)), (String ((Ascii (true, true, true, true, false, true,
           true, false)), (String ((Ascii (true, false, true, false, true,
           true, true, false)), (String ((Ascii (false, true, true, true,
           false, true, true, false)), (String ((Ascii (false, false, true,
           false, false, true, true, false)), (String ((Ascii (false, true,
           false, false, true, false, true, false)), (String ((Ascii (true,
           false, true, false, false, true, true, false)), (String ((Ascii
           (true, true, false, false, true, true, true, false)), (String
           ((Ascii (true, false, true, false, false, true, true, false)),
           (String ((Ascii (false, true, false, false, true, true, true,
           false)), (String ((Ascii (false, true, true, false, true, true,
           true, false)), (String ((Ascii (true, false, true, false, false,
           true, true, false)), (String ((Ascii (false, false, true, false,
           false, true, true, false)), (String ((Ascii (false, true, false,
           false, false, false, true, false)), (String ((Ascii (false, false,
           true, true, false, true, true, false)), (String ((Ascii (true,
           true, true, true, false, true, true, false)), (String ((Ascii
           (true, true, false, false, false, true, true, false)), (String
           ((Ascii (true, true, false, true, false, true, true, false)),
           EmptyString))))))))))))))))))))))))))))))))))))
    else rbind (block_content_size b0 b1 b2) (fun size0 ->
           let decompressed =
             if (||) (Z.eqb ty Z0) (Z.eqb ty (Zpos XH)) then size0 else Z0
           in
           let content = if Z.eqb ty (Zpos XH) then Zpos XH else size0 in
           ROk ((((is_last b0), ty), decompressed), content)))

type frame_header = { fh_desc : z; fh_wd : z; fh_dict_id : z option;
                      fh_fcs : z }

type fh_result =
| FhOk of frame_header * z
| FhSkip of z * z
| FhErr of string
| FhPanic of string

(** val take : nat -> z list -> (z list * z list) option **)

let take n0 src =
  if Nat.ltb (length src) n0
  then None
  else Some ((firstn n0 src), (skipn n0 src))

(** val read_frame_header : z list -> fh_result **)

let read_frame_header src =
  match take (S (S (S (S O)))) src with
  | Some p ->
    let (m, r1) = p in
    let magic = le_val m in
    if (&&)
         (Z.leb (Zpos (XO (XO (XO (XO (XI (XO (XI (XO (XO (XI (XO (XI (XO (XI
           (XO (XO (XI (XO (XI (XI (XO (XO (XI (XO (XO (XO (XO (XI
           XH))))))))))))))))))))))))))))) magic)
         (Z.leb magic (Zpos (XI (XI (XI (XI (XI (XO (XI (XO (XO (XI (XO (XI
           (XO (XI (XO (XO (XI (XO (XI (XI (XO (XO (XI (XO (XO (XO (XO (XI
           XH))))))))))))))))))))))))))))))
    then (match take (S (S (S (S O)))) r1 with
          | Some p0 -> let (l, _) = p0 in FhSkip (magic, (le_val l))
          | None ->
            FhErr (String ((Ascii (false, true, true, false, false, false,
              true, false)), (String ((Ascii (false, true, false, false,
              true, true, true, false)), (String ((Ascii (true, false, false,
              false, false, true, true, false)), (String ((Ascii (true,
              false, true, true, false, true, true, false)), (String ((Ascii
              (true, false, true, false, false, true, true, false)), (String
              ((Ascii (false, false, true, false, false, false, true,
              false)), (String ((Ascii (true, false, true, false, false,
              true, true, false)), (String ((Ascii (true, true, false, false,
              true, true, true, false)), (String ((Ascii (true, true, false,
              false, false, true, true, false)), (String ((Ascii (false,
              true, false, false, true, true, true, false)), (String ((Ascii
              (true, false, false, true, false, true, true, false)), (String
              ((Ascii (false, false, false, false, true, true, true, false)),
              (String ((Ascii (false, false, true, false, true, true, true,
              false)), (String ((Ascii (true, true, true, true, false, true,
              true, false)), (String ((Ascii (false, true, false, false,
              true, true, true, false)), (String ((Ascii (false, true, false,
              false, true, false, true, false)), (String ((Ascii (true,
              false, true, false, false, true, true, false)), (String ((Ascii
              (true, false, false, false, false, true, true, false)), (String
              ((Ascii (false, false, true, false, false, true, true, false)),
              (String ((Ascii (true, false, true, false, false, false, true,
              false)), (String ((Ascii (false, true, false, false, true,
              true, true, false)), (String ((Ascii (false, true, false,
              false, true, true, true, false)), (String ((Ascii (true, true,
              true, true, false, true, true, false)), (String ((Ascii (false,
              true, false, false, true, true, true, false)),
              EmptyString)))))))))))))))))))))))))))))))))))))))))))))))))
    else if negb (Z.eqb magic mAGIC_NUM)
         then FhErr (String ((Ascii (false, true, false, false, false, false,
                true, false)), (String ((Ascii (true, false, false, false,
                false, true, true, false)), (String ((Ascii (false, false,
                true, false, false, true, true, false)), (String ((Ascii
                (true, false, true, true, false, false, true, false)),
                (String ((Ascii (true, false, false, false, false, true,
                true, false)), (String ((Ascii (true, true, true, false,
                false, true, true, false)), (String ((Ascii (true, false,
                false, true, false, true, true, false)), (String ((Ascii
                (true, true, false, false, false, true, true, false)),
                (String ((Ascii (false, true, true, true, false, false, true,
                false)), (String ((Ascii (true, false, true, false, true,
                true, true, false)), (String ((Ascii (true, false, true,
                true, false, true, true, false)), (String ((Ascii (false,
                true, false, false, false, true, true, false)), (String
                ((Ascii (true, false, true, false, false, true, true,
                false)), (String ((Ascii (false, true, false, false, true,
                true, true, false)), EmptyString))))))))))))))))))))))))))))
         else (match take (S O) r1 with
               | Some p0 ->
                 let (dl, r2) = p0 in
                 let d = znth dl Z0 in
                 let wd_step =
                   if single_segment_flag d
                   then Some ((Z0, r2), Z0)
                   else (match take (S O) r2 with
                         | Some p1 ->
                           let (w, r3) = p1 in
                           Some (((znth w Z0), r3), (Zpos XH))
                         | None -> None)
                 in
                 (match wd_step with
                  | Some p1 ->
                    let (p2, n_wd) = p1 in
                    let (wd, r3) = p2 in
                    (match dictionary_id_bytes d with
                     | ROk did_len ->
                       (match take (Z.to_nat did_len) r3 with
                        | Some p3 ->
                          let (db, r4) = p3 in
                          let did = le_val db in
                          let dict_id =
                            if (||) (Z.eqb did_len Z0) (Z.eqb did Z0)
                            then None
                            else Some did
                          in
                          (match frame_content_size_bytes d with
                           | ROk fcs_len ->
                             (match take (Z.to_nat fcs_len) r4 with
                              | Some p4 ->
                                let (fb, _) = p4 in
                                let fcs = le_val fb in
                                let fcs0 =
                                  if Z.eqb fcs_len (Zpos (XO XH))
                                  then Z.add fcs (Zpos (XO (XO (XO (XO (XO
                                         (XO (XO (XO XH)))))))))
                                  else fcs
                                in
                                FhOk ({ fh_desc = d; fh_wd = wd; fh_dict_id =
                                dict_id; fh_fcs = fcs0 },
                                (Z.add
                                  (Z.add
                                    (Z.add
                                      (Z.add (Zpos (XO (XO XH))) (Zpos XH))
                                      n_wd) did_len) fcs_len))
                              | None ->
                                FhErr (String ((Ascii (false, true, true,
                                  false, false, false, true, false)), (String
                                  ((Ascii (false, true, false, false, true,
                                  true, true, false)), (String ((Ascii (true,
                                  false, false, false, false, true, true,
                                  false)), (String ((Ascii (true, false,
                                  true, true, false, true, true, false)),
                                  (String ((Ascii (true, false, true, false,
                                  false, true, true, false)), (String ((Ascii
                                  (true, true, false, false, false, false,
                                  true, false)), (String ((Ascii (true, true,
                                  true, true, false, true, true, false)),
                                  (String ((Ascii (false, true, true, true,
                                  false, true, true, false)), (String ((Ascii
                                  (false, false, true, false, true, true,
                                  true, false)), (String ((Ascii (true,
                                  false, true, false, false, true, true,
                                  false)), (String ((Ascii (false, true,
                                  true, true, false, true, true, false)),
                                  (String ((Ascii (false, false, true, false,
                                  true, true, true, false)), (String ((Ascii
                                  (true, true, false, false, true, false,
                                  true, false)), (String ((Ascii (true,
                                  false, false, true, false, true, true,
                                  false)), (String ((Ascii (false, true,
                                  false, true, true, true, true, false)),
                                  (String ((Ascii (true, false, true, false,
                                  false, true, true, false)), (String ((Ascii
                                  (false, true, false, false, true, false,
                                  true, false)), (String ((Ascii (true,
                                  false, true, false, false, true, true,
                                  false)), (String ((Ascii (true, false,
                                  false, false, false, true, true, false)),
                                  (String ((Ascii (false, false, true, false,
                                  false, true, true, false)), (String ((Ascii
                                  (true, false, true, false, false, false,
                                  true, false)), (String ((Ascii (false,
                                  true, false, false, true, true, true,
                                  false)), (String ((Ascii (false, true,
                                  false, false, true, true, true, false)),
                                  (String ((Ascii (true, true, true, true,
                                  false, true, true, false)), (String ((Ascii
                                  (false, true, false, false, true, true,
                                  true, false)),
                                  EmptyString)))))))))))))))))))))))))))))))))))))))))))))))))))
                           | RErr e -> FhErr e
                           | RPanic e -> FhPanic e)
                        | None ->
                          FhErr (String ((Ascii (false, false, true, false,
                            false, false, true, false)), (String ((Ascii
                            (true, false, false, true, false, true, true,
                            false)), (String ((Ascii (true, true, false,
                            false, false, true, true, false)), (String
                            ((Ascii (false, false, true, false, true, true,
                            true, false)), (String ((Ascii (true, false,
                            false, true, false, true, true, false)), (String
                            ((Ascii (true, true, true, true, false, true,
                            true, false)), (String ((Ascii (false, true,
                            true, true, false, true, true, false)), (String
                            ((Ascii (true, false, false, false, false, true,
                            true, false)), (String ((Ascii (false, true,
                            false, false, true, true, true, false)), (String
                            ((Ascii (true, false, false, true, true, true,
                            true, false)), (String ((Ascii (true, false,
                            false, true, false, false, true, false)), (String
                            ((Ascii (false, false, true, false, false, true,
                            true, false)), (String ((Ascii (false, true,
                            false, false, true, false, true, false)), (String
                            ((Ascii (true, false, true, false, false, true,
                            true, false)), (String ((Ascii (true, false,
                            false, false, false, true, true, false)), (String
                            ((Ascii (false, false, true, false, false, true,
                            true, false)), (String ((Ascii (true, false,
                            true, false, false, false, true, false)), (String
                            ((Ascii (false, true, false, false, true, true,
                            true, false)), (String ((Ascii (false, true,
                            false, false, true, true, true, false)), (String
                            ((Ascii (true, true, true, true, false, true,
                            true, false)), (String ((Ascii (false, true,
                            false, false, true, true, true, false)),
                            EmptyString)))))))))))))))))))))))))))))))))))))))))))
                     | RErr e -> FhErr e
                     | RPanic e -> FhPanic e)
                  | None ->
                    FhErr (String ((Ascii (true, true, true, false, true,
                      false, true, false)), (String ((Ascii (true, false,
                      false, true, false, true, true, false)), (String
                      ((Ascii (false, true, true, true, false, true, true,
                      false)), (String ((Ascii (false, false, true, false,
                      false, true, true, false)), (String ((Ascii (true,
                      true, true, true, false, true, true, false)), (String
                      ((Ascii (true, true, true, false, true, true, true,
                      false)), (String ((Ascii (false, false, true, false,
                      false, false, true, false)), (String ((Ascii (true,
                      false, true, false, false, true, true, false)), (String
                      ((Ascii (true, true, false, false, true, true, true,
                      false)), (String ((Ascii (true, true, false, false,
                      false, true, true, false)), (String ((Ascii (false,
                      true, false, false, true, true, true, false)), (String
                      ((Ascii (true, false, false, true, false, true, true,
                      false)), (String ((Ascii (false, false, false, false,
                      true, true, true, false)), (String ((Ascii (false,
                      false, true, false, true, true, true, false)), (String
                      ((Ascii (true, true, true, true, false, true, true,
                      false)), (String ((Ascii (false, true, false, false,
                      true, true, true, false)), (String ((Ascii (false,
                      true, false, false, true, false, true, false)), (String
                      ((Ascii (true, false, true, false, false, true, true,
                      false)), (String ((Ascii (true, false, false, false,
                      false, true, true, false)), (String ((Ascii (false,
                      false, true, false, false, true, true, false)), (String
                      ((Ascii (true, false, true, false, false, false, true,
                      false)), (String ((Ascii (false, true, false, false,
                      true, true, true, false)), (String ((Ascii (false,
                      true, false, false, true, true, true, false)), (String
                      ((Ascii (true, true, true, true, false, true, true,
                      false)), (String ((Ascii (false, true, false, false,
                      true, true, true, false)),
                      EmptyString)))))))))))))))))))))))))))))))))))))))))))))))))))
               | None ->
                 FhErr (String ((Ascii (false, true, true, false, false,
                   false, true, false)), (String ((Ascii (false, true, false,
                   false, true, true, true, false)), (String ((Ascii (true,
                   false, false, false, false, true, true, false)), (String
                   ((Ascii (true, false, true, true, false, true, true,
                   false)), (String ((Ascii (true, false, true, false, false,
                   true, true, false)), (String ((Ascii (false, false, true,
                   false, false, false, true, false)), (String ((Ascii (true,
                   false, true, false, false, true, true, false)), (String
                   ((Ascii (true, true, false, false, true, true, true,
                   false)), (String ((Ascii (true, true, false, false, false,
                   true, true, false)), (String ((Ascii (false, true, false,
                   false, true, true, true, false)), (String ((Ascii (true,
                   false, false, true, false, true, true, false)), (String
                   ((Ascii (false, false, false, false, true, true, true,
                   false)), (String ((Ascii (false, false, true, false, true,
                   true, true, false)), (String ((Ascii (true, true, true,
                   true, false, true, true, false)), (String ((Ascii (false,
                   true, false, false, true, true, true, false)), (String
                   ((Ascii (false, true, false, false, true, false, true,
                   false)), (String ((Ascii (true, false, true, false, false,
                   true, true, false)), (String ((Ascii (true, false, false,
                   false, false, true, true, false)), (String ((Ascii (false,
                   false, true, false, false, true, true, false)), (String
                   ((Ascii (true, false, true, false, false, false, true,
                   false)), (String ((Ascii (false, true, false, false, true,
                   true, true, false)), (String ((Ascii (false, true, false,
                   false, true, true, true, false)), (String ((Ascii (true,
                   true, true, true, false, true, true, false)), (String
                   ((Ascii (false, true, false, false, true, true, true,
                   false)),
                   EmptyString)))))))))))))))))))))))))))))))))))))))))))))))))
  | None ->
    FhErr (String ((Ascii (true, false, true, true, false, false, true,
      false)), (String ((Ascii (true, false, false, false, false, true, true,
      false)), (String ((Ascii (true, true, true, false, false, true, true,
      false)), (String ((Ascii (true, false, false, true, false, true, true,
      false)), (String ((Ascii (true, true, false, false, false, true, true,
      false)), (String ((Ascii (false, true, true, true, false, false, true,
      false)), (String ((Ascii (true, false, true, false, true, true, true,
      false)), (String ((Ascii (true, false, true, true, false, true, true,
      false)), (String ((Ascii (false, true, false, false, false, true, true,
      false)), (String ((Ascii (true, false, true, false, false, true, true,
      false)), (String ((Ascii (false, true, false, false, true, true, true,
      false)), (String ((Ascii (false, true, false, false, true, false, true,
      false)), (String ((Ascii (true, false, true, false, false, true, true,
      false)), (String ((Ascii (true, false, false, false, false, true, true,
      false)), (String ((Ascii (false, false, true, false, false, true, true,
      false)), (String ((Ascii (true, false, true, false, false, false, true,
      false)), (String ((Ascii (false, true, false, false, true, true, true,
      false)), (String ((Ascii (false, true, false, false, true, true, true,
      false)), (String ((Ascii (true, true, true, true, false, true, true,
      false)), (String ((Ascii (false, true, false, false, true, true, true,
      false)), EmptyString))))))))))))))))))))))))))))))))))))))))

(** val fh_window_size : frame_header -> z res **)

let fh_window_size h =
  window_size h.fh_wd h.fh_desc h.fh_fcs

(** val lit_header_parse :
    z list -> ((((z * z) * z) * z option) * z option) res **)

let lit_header_parse raw = match raw with
| [] ->
  RErr (String ((Ascii (true, true, true, false, false, false, true, false)),
    (String ((Ascii (true, false, true, false, false, true, true, false)),
    (String ((Ascii (false, false, true, false, true, true, true, false)),
    (String ((Ascii (false, true, false, false, false, false, true, false)),
    (String ((Ascii (true, false, false, true, false, true, true, false)),
    (String ((Ascii (false, false, true, false, true, true, true, false)),
    (String ((Ascii (true, true, false, false, true, true, true, false)),
    (String ((Ascii (true, false, true, false, false, false, true, false)),
    (String ((Ascii (false, true, false, false, true, true, true, false)),
    (String ((Ascii (false, true, false, false, true, true, true, false)),
    (String ((Ascii (true, true, true, true, false, true, true, false)),
    (String ((Ascii (false, true, false, false, true, true, true, false)),
    EmptyString))))))))))))))))))))))))
| r0 :: _ ->
  rbind (literals_section_type (Z.modulo r0 (Zpos (XO (XO XH)))))
    (fun ls_type0 ->
    let size_format =
      Z.modulo (Z.div r0 (Zpos (XO (XO XH)))) (Zpos (XO (XO XH)))
    in
    rbind (header_bytes_needed r0) (fun need ->
      if Z.ltb (Z.of_nat (length raw)) need
      then RErr (String ((Ascii (false, true, true, true, false, false, true,
             false)), (String ((Ascii (true, true, true, true, false, true,
             true, false)), (String ((Ascii (false, false, true, false, true,
             true, true, false)), (String ((Ascii (true, false, true, false,
             false, false, true, false)), (String ((Ascii (false, true, true,
             true, false, true, true, false)), (String ((Ascii (true, true,
             true, true, false, true, true, false)), (String ((Ascii (true,
             false, true, false, true, true, true, false)), (String ((Ascii
             (true, true, true, false, false, true, true, false)), (String
             ((Ascii (false, false, false, true, false, true, true, false)),
             (String ((Ascii (false, true, false, false, false, false, true,
             false)), (String ((Ascii (true, false, false, true, true, true,
             true, false)), (String ((Ascii (false, false, true, false, true,
             true, true, false)), (String ((Ascii (true, false, true, false,
             false, true, true, false)), (String ((Ascii (true, true, false,
             false, true, true, true, false)),
             EmptyString))))))))))))))))))))))))))))
      else let r1 = znth raw (Zpos XH) in
           let r2 = znth raw (Zpos (XO XH)) in
           let r3 = znth raw (Zpos (XI XH)) in
           let r4 = znth raw (Zpos (XO (XO XH))) in
           if (||) (Z.eqb ls_type0 (Zpos XH)) (Z.eqb ls_type0 Z0)
           then if (||) (Z.eqb size_format Z0)
                     (Z.eqb size_format (Zpos (XO XH)))
                then ROk (((((Zpos XH), ls_type0),
                       (Z.div r0 (Zpos (XO (XO (XO XH)))))), None), None)
                else if Z.eqb size_format (Zpos XH)
                     then ROk (((((Zpos (XO XH)), ls_type0),
                            (Z.add (Z.div r0 (Zpos (XO (XO (XO (XO XH))))))
                              (Z.mul r1 (Zpos (XO (XO (XO (XO XH)))))))),
                            None), None)
                     else ROk (((((Zpos (XI XH)), ls_type0),
                            (Z.add
                              (Z.add (Z.div r0 (Zpos (XO (XO (XO (XO XH))))))
                                (Z.mul r1 (Zpos (XO (XO (XO (XO XH)))))))
                              (Z.mul r2 (Zpos (XO (XO (XO (XO (XO (XO (XO (XO
                                (XO (XO (XO (XO XH)))))))))))))))), None),
                            None)
           else let streams =
                  if Z.eqb size_format Z0 then Zpos XH else Zpos (XO (XO XH))
                in
                if (||) (Z.eqb size_format Z0) (Z.eqb size_format (Zpos XH))
                then ROk (((((Zpos (XI XH)), ls_type0),
                       (Z.add (Z.div r0 (Zpos (XO (XO (XO (XO XH))))))
                         (Z.mul
                           (Z.modulo r1 (Zpos (XO (XO (XO (XO (XO (XO
                             XH)))))))) (Zpos (XO (XO (XO (XO XH)))))))),
                       (Some
                       (Z.add
                         (Z.div r1 (Zpos (XO (XO (XO (XO (XO (XO XH))))))))
                         (Z.mul r2 (Zpos (XO (XO XH))))))), (Some streams))
                else if Z.eqb size_format (Zpos (XO XH))
                     then ROk (((((Zpos (XO (XO XH))), ls_type0),
                            (Z.add
                              (Z.add (Z.div r0 (Zpos (XO (XO (XO (XO XH))))))
                                (Z.mul r1 (Zpos (XO (XO (XO (XO XH)))))))
                              (Z.mul (Z.modulo r2 (Zpos (XO (XO XH)))) (Zpos
                                (XO (XO (XO (XO (XO (XO (XO (XO (XO (XO (XO
                                (XO XH)))))))))))))))), (Some
                            (Z.add (Z.div r2 (Zpos (XO (XO XH))))
                              (Z.mul r3 (Zpos (XO (XO (XO (XO (XO (XO
                                XH))))))))))), (Some streams))
                     else ROk (((((Zpos (XI (XO XH))), ls_type0),
                            (Z.add
                              (Z.add (Z.div r0 (Zpos (XO (XO (XO (XO XH))))))
                                (Z.mul r1 (Zpos (XO (XO (XO (XO XH)))))))
                              (Z.mul
                                (Z.modulo r2 (Zpos (XO (XO (XO (XO (XO (XO
                                  XH)))))))) (Zpos (XO (XO (XO (XO (XO (XO
                                (XO (XO (XO (XO (XO (XO XH)))))))))))))))),
                            (Some
                            (Z.add
                              (Z.add
                                (Z.div r2 (Zpos (XO (XO (XO (XO (XO (XO
                                  XH)))))))) (Z.mul r3 (Zpos (XO (XO XH)))))
                              (Z.mul r4 (Zpos (XO (XO (XO (XO (XO (XO (XO (XO
                                (XO (XO XH))))))))))))))), (Some streams))))

type dbuf = { db_rev : z list; db_len : z; db_dict : z list; db_window : 
              z; db_total_out : z; db_hashed_rev : z list }

(** val db_new : z -> dbuf **)

let db_new window =
  { db_rev = []; db_len = Z0; db_dict = []; db_window = window;
    db_total_out = Z0; db_hashed_rev = [] }

(** val db_reset : dbuf -> z -> dbuf **)

let db_reset _ =
  db_new

(** val db_append_raw : dbuf -> z list -> dbuf **)

let db_append_raw b data =
  { db_rev = (rev_append data b.db_rev); db_len =
    (Z.add b.db_len (Z.of_nat (length data))); db_dict = b.db_dict;
    db_window = b.db_window; db_total_out = b.db_total_out; db_hashed_rev =
    b.db_hashed_rev }

(** val db_add_total : dbuf -> z -> dbuf **)

let db_add_total b n0 =
  { db_rev = b.db_rev; db_len = b.db_len; db_dict = b.db_dict; db_window =
    b.db_window; db_total_out = (Z.add b.db_total_out n0); db_hashed_rev =
    b.db_hashed_rev }

(** val db_push : dbuf -> z list -> dbuf **)

let db_push b data =
  db_add_total (db_append_raw b data) (Z.of_nat (length data))

(** val lz_copy : nat -> nat -> z list -> z list **)

let rec lz_copy n0 off rev_buf =
  match n0 with
  | O -> rev_buf
  | S k -> lz_copy k off ((nth (sub off (S O)) rev_buf Z0) :: rev_buf)

(** val db_set_rev : dbuf -> z list -> z -> dbuf **)

let db_set_rev b r added =
  { db_rev = r; db_len = (Z.add b.db_len added); db_dict = b.db_dict;
    db_window = b.db_window; db_total_out = b.db_total_out; db_hashed_rev =
    b.db_hashed_rev }

(** val db_repeat : dbuf -> z -> z -> dbuf res **)

let db_repeat b offset match_length =
  if Z.ltb b.db_len offset
  then if Z.leb b.db_total_out b.db_window
       then let bytes_from_dict = Z.sub offset b.db_len in
            let dl = Z.of_nat (length b.db_dict) in
            if Z.ltb dl bytes_from_dict
            then RErr (String ((Ascii (false, true, true, true, false, false,
                   true, false)), (String ((Ascii (true, true, true, true,
                   false, true, true, false)), (String ((Ascii (false, false,
                   true, false, true, true, true, false)), (String ((Ascii
                   (true, false, true, false, false, false, true, false)),
                   (String ((Ascii (false, true, true, true, false, true,
                   true, false)), (String ((Ascii (true, true, true, true,
                   false, true, true, false)), (String ((Ascii (true, false,
                   true, false, true, true, true, false)), (String ((Ascii
                   (true, true, true, false, false, true, true, false)),
                   (String ((Ascii (false, false, false, true, false, true,
                   true, false)), (String ((Ascii (false, true, false, false,
                   false, false, true, false)), (String ((Ascii (true, false,
                   false, true, true, true, true, false)), (String ((Ascii
                   (false, false, true, false, true, true, true, false)),
                   (String ((Ascii (true, false, true, false, false, true,
                   true, false)), (String ((Ascii (true, true, false, false,
                   true, true, true, false)), (String ((Ascii (true, false,
                   false, true, false, false, true, false)), (String ((Ascii
                   (false, true, true, true, false, true, true, false)),
                   (String ((Ascii (false, false, true, false, false, false,
                   true, false)), (String ((Ascii (true, false, false, true,
                   false, true, true, false)), (String ((Ascii (true, true,
                   false, false, false, true, true, false)), (String ((Ascii
                   (false, false, true, false, true, true, true, false)),
                   (String ((Ascii (true, false, false, true, false, true,
                   true, false)), (String ((Ascii (true, true, true, true,
                   false, true, true, false)), (String ((Ascii (false, true,
                   true, true, false, true, true, false)), (String ((Ascii
                   (true, false, false, false, false, true, true, false)),
                   (String ((Ascii (false, true, false, false, true, true,
                   true, false)), (String ((Ascii (true, false, false, true,
                   true, true, true, false)),
                   EmptyString))))))))))))))))))))))))))))))))))))))))))))))))))))
            else if Z.ltb bytes_from_dict match_length
                 then let slice =
                        skipn (Z.to_nat (Z.sub dl bytes_from_dict)) b.db_dict
                      in
                      let b1 =
                        db_add_total (db_append_raw b slice) bytes_from_dict
                      in
                      let rest = Z.sub match_length bytes_from_dict in
                      if Z.eqb b1.db_len Z0
                      then RPanic (String ((Ascii (false, true, false, false,
                             true, true, true, false)), (String ((Ascii
                             (true, false, true, false, false, true, true,
                             false)), (String ((Ascii (false, false, false,
                             false, true, true, true, false)), (String
                             ((Ascii (true, false, true, false, false, true,
                             true, false)), (String ((Ascii (true, false,
                             false, false, false, true, true, false)),
                             (String ((Ascii (false, false, true, false,
                             true, true, true, false)), (String ((Ascii
                             (false, false, false, false, false, true, false,
                             false)), (String ((Ascii (true, true, true,
                             false, true, true, true, false)), (String
                             ((Ascii (true, false, false, true, false, true,
                             true, false)), (String ((Ascii (false, false,
                             true, false, true, true, true, false)), (String
                             ((Ascii (false, false, false, true, false, true,
                             true, false)), (String ((Ascii (false, false,
                             false, false, false, true, false, false)),
                             (String ((Ascii (true, true, true, true, false,
                             true, true, false)), (String ((Ascii (false,
                             true, true, false, false, true, true, false)),
                             (String ((Ascii (false, true, true, false,
                             false, true, true, false)), (String ((Ascii
                             (true, true, false, false, true, true, true,
                             false)), (String ((Ascii (true, false, true,
                             false, false, true, true, false)), (String
                             ((Ascii (false, false, true, false, true, true,
                             true, false)), (String ((Ascii (false, false,
                             false, false, false, true, false, false)),
                             (String ((Ascii (false, false, false, false,
                             true, true, false, false)), (String ((Ascii
                             (false, false, false, false, false, true, false,
                             false)), (String ((Ascii (false, false, false,
                             true, false, true, false, false)), (String
                             ((Ascii (true, false, true, false, false, true,
                             true, false)), (String ((Ascii (false, true,
                             true, true, false, true, true, false)), (String
                             ((Ascii (false, false, true, false, false, true,
                             true, false)), (String ((Ascii (false, false,
                             true, true, false, true, true, false)), (String
                             ((Ascii (true, false, true, false, false, true,
                             true, false)), (String ((Ascii (true, true,
                             false, false, true, true, true, false)), (String
                             ((Ascii (true, true, false, false, true, true,
                             true, false)), (String ((Ascii (false, false,
                             false, false, false, true, false, false)),
                             (String ((Ascii (false, false, true, true,
                             false, true, true, false)), (String ((Ascii
                             (true, true, true, true, false, true, true,
                             false)), (String ((Ascii (true, true, true,
                             true, false, true, true, false)), (String
                             ((Ascii (false, false, false, false, true, true,
                             true, false)), (String ((Ascii (true, false,
                             false, true, false, true, false, false)),
                             EmptyString))))))))))))))))))))))))))))))))))))))))))))))))))))))))))))))))))))))
                      else ROk
                             (db_add_total
                               (db_set_rev b1
                                 (lz_copy (Z.to_nat rest)
                                   (Z.to_nat b1.db_len) b1.db_rev) rest) rest)
                 else let low = Z.sub dl bytes_from_dict in
                      ROk
                      (db_append_raw b
                        (firstn (Z.to_nat match_length)
                          (skipn (Z.to_nat low) b.db_dict)))
       else RErr (String ((Ascii (true, true, true, true, false, false, true,
              false)), (String ((Ascii (false, true, true, false, false,
              true, true, false)), (String ((Ascii (false, true, true, false,
              false, true, true, false)), (String ((Ascii (true, true, false,
              false, true, true, true, false)), (String ((Ascii (true, false,
              true, false, false, true, true, false)), (String ((Ascii
              (false, false, true, false, true, true, true, false)), (String
              ((Ascii (false, false, true, false, true, false, true, false)),
              (String ((Ascii (true, true, true, true, false, true, true,
              false)), (String ((Ascii (true, true, true, true, false, true,
              true, false)), (String ((Ascii (false, true, false, false,
              false, false, true, false)), (String ((Ascii (true, false,
              false, true, false, true, true, false)), (String ((Ascii (true,
              true, true, false, false, true, true, false)),
              EmptyString))))))))))))))))))))))))
  else if (&&) (Z.eqb offset Z0) (Z.ltb Z0 match_length)
       then RPanic (String ((Ascii (false, true, false, false, true, true,
              true, false)), (String ((Ascii (true, false, true, false,
              false, true, true, false)), (String ((Ascii (false, false,
              false, false, true, true, true, false)), (String ((Ascii (true,
              false, true, false, false, true, true, false)), (String ((Ascii
              (true, false, false, false, false, true, true, false)), (String
              ((Ascii (false, false, true, false, true, true, true, false)),
              (String ((Ascii (false, false, false, false, false, true,
              false, false)), (String ((Ascii (true, true, true, false, true,
              true, true, false)), (String ((Ascii (true, false, false, true,
              false, true, true, false)), (String ((Ascii (false, false,
              true, false, true, true, true, false)), (String ((Ascii (false,
              false, false, true, false, true, true, false)), (String ((Ascii
              (false, false, false, false, false, true, false, false)),
              (String ((Ascii (true, true, true, true, false, true, true,
              false)), (String ((Ascii (false, true, true, false, false,
              true, true, false)), (String ((Ascii (false, true, true, false,
              false, true, true, false)), (String ((Ascii (true, true, false,
              false, true, true, true, false)), (String ((Ascii (true, false,
              true, false, false, true, true, false)), (String ((Ascii
              (false, false, true, false, true, true, true, false)), (String
              ((Ascii (false, false, false, false, false, true, false,
              false)), (String ((Ascii (false, false, false, false, true,
              true, false, false)), (String ((Ascii (false, false, false,
              false, false, true, false, false)), (String ((Ascii (false,
              false, false, true, false, true, false, false)), (String
              ((Ascii (true, false, true, false, false, true, true, false)),
              (String ((Ascii (false, true, true, true, false, true, true,
              false)), (String ((Ascii (false, false, true, false, false,
              true, true, false)), (String ((Ascii (false, false, true, true,
              false, true, true, false)), (String ((Ascii (true, false, true,
              false, false, true, true, false)), (String ((Ascii (true, true,
              false, false, true, true, true, false)), (String ((Ascii (true,
              true, false, false, true, true, true, false)), (String ((Ascii
              (false, false, false, false, false, true, false, false)),
              (String ((Ascii (false, false, true, true, false, true, true,
              false)), (String ((Ascii (true, true, true, true, false, true,
              true, false)), (String ((Ascii (true, true, true, true, false,
              true, true, false)), (String ((Ascii (false, false, false,
              false, true, true, true, false)), (String ((Ascii (true, false,
              false, true, false, true, false, false)),
              EmptyString))))))))))))))))))))))))))))))))))))))))))))))))))))))))))))))))))))))
       else ROk
              (db_add_total
                (db_set_rev b
                  (lz_copy (Z.to_nat match_length) (Z.to_nat offset) b.db_rev)
                  match_length) match_length)

type lit_section = { ls_type : z; ls_regen : z; ls_comp : z option;
                     ls_streams : z option }

(** val take_z : z -> z list -> z list **)

let take_z n0 l =
  firstn (Z.to_nat n0) l

(** val drop_z : z -> z list -> z list **)

let drop_z n0 l =
  skipn (Z.to_nat n0) l

(** val zlen : z list -> z **)

let zlen l =
  Z.of_nat (length l)

(** val repeat_z : z -> nat -> z list **)

let rec repeat_z b = function
| O -> []
| S k -> b :: (repeat_z b k)

(** val decode_literals :
    lit_section -> huf_table -> z list -> ((huf_table * z list) * z) res **)

let decode_literals sec ht source =
  if Z.eqb sec.ls_type Z0
  then if Z.ltb (zlen source) sec.ls_regen
       then RPanic (String ((Ascii (true, true, false, false, true, true,
              true, false)), (String ((Ascii (false, false, true, true,
              false, true, true, false)), (String ((Ascii (true, false,
              false, true, false, true, true, false)), (String ((Ascii (true,
              true, false, false, false, true, true, false)), (String ((Ascii
              (true, false, true, false, false, true, true, false)), (String
              ((Ascii (false, false, false, false, false, true, false,
              false)), (String ((Ascii (true, false, false, true, false,
              true, true, false)), (String ((Ascii (false, true, true, true,
              false, true, true, false)), (String ((Ascii (false, false,
              true, false, false, true, true, false)), (String ((Ascii (true,
              false, true, false, false, true, true, false)), (String ((Ascii
              (false, false, false, true, true, true, true, false)), (String
              ((Ascii (false, false, false, false, false, true, false,
              false)), (String ((Ascii (true, true, true, true, false, true,
              true, false)), (String ((Ascii (true, false, true, false, true,
              true, true, false)), (String ((Ascii (false, false, true,
              false, true, true, true, false)), (String ((Ascii (false,
              false, false, false, false, true, false, false)), (String
              ((Ascii (true, true, true, true, false, true, true, false)),
              (String ((Ascii (false, true, true, false, false, true, true,
              false)), (String ((Ascii (false, false, false, false, false,
              true, false, false)), (String ((Ascii (false, true, false,
              false, true, true, true, false)), (String ((Ascii (true, false,
              false, false, false, true, true, false)), (String ((Ascii
              (false, true, true, true, false, true, true, false)), (String
              ((Ascii (true, true, true, false, false, true, true, false)),
              (String ((Ascii (true, false, true, false, false, true, true,
              false)),
              EmptyString))))))))))))))))))))))))))))))))))))))))))))))))
       else ROk ((ht, (take_z sec.ls_regen source)), sec.ls_regen)
  else if Z.eqb sec.ls_type (Zpos XH)
       then (match source with
             | [] ->
               RPanic (String ((Ascii (true, false, false, true, false, true,
                 true, false)), (String ((Ascii (false, true, true, true,
                 false, true, true, false)), (String ((Ascii (false, false,
                 true, false, false, true, true, false)), (String ((Ascii
                 (true, false, true, false, false, true, true, false)),
                 (String ((Ascii (false, false, false, true, true, true,
                 true, false)), (String ((Ascii (false, false, false, false,
                 false, true, false, false)), (String ((Ascii (true, true,
                 true, true, false, true, true, false)), (String ((Ascii
                 (true, false, true, false, true, true, true, false)),
                 (String ((Ascii (false, false, true, false, true, true,
                 true, false)), (String ((Ascii (false, false, false, false,
                 false, true, false, false)), (String ((Ascii (true, true,
                 true, true, false, true, true, false)), (String ((Ascii
                 (false, true, true, false, false, true, true, false)),
                 (String ((Ascii (false, false, false, false, false, true,
                 false, false)), (String ((Ascii (false, true, false, false,
                 false, true, true, false)), (String ((Ascii (true, true,
                 true, true, false, true, true, false)), (String ((Ascii
                 (true, false, true, false, true, true, true, false)),
                 (String ((Ascii (false, true, true, true, false, true, true,
                 false)), (String ((Ascii (false, false, true, false, false,
                 true, true, false)), (String ((Ascii (true, true, false,
                 false, true, true, true, false)),
                 EmptyString))))))))))))))))))))))))))))))))))))))
             | b :: _ ->
               ROk ((ht, (repeat_z b (Z.to_nat sec.ls_regen))), (Zpos XH)))
       else (match sec.ls_comp with
             | Some csize ->
               (match sec.ls_streams with
                | Some nstreams ->
                  if Z.ltb (zlen source) csize
                  then RPanic (String ((Ascii (true, true, false, false,
                         true, true, true, false)), (String ((Ascii (false,
                         false, true, true, false, true, true, false)),
                         (String ((Ascii (true, false, false, true, false,
                         true, true, false)), (String ((Ascii (true, true,
                         false, false, false, true, true, false)), (String
                         ((Ascii (true, false, true, false, false, true,
                         true, false)), (String ((Ascii (false, false, false,
                         false, false, true, false, false)), (String ((Ascii
                         (true, false, false, true, false, true, true,
                         false)), (String ((Ascii (false, true, true, true,
                         false, true, true, false)), (String ((Ascii (false,
                         false, true, false, false, true, true, false)),
                         (String ((Ascii (true, false, true, false, false,
                         true, true, false)), (String ((Ascii (false, false,
                         false, true, true, true, true, false)), (String
                         ((Ascii (false, false, false, false, false, true,
                         false, false)), (String ((Ascii (true, true, true,
                         true, false, true, true, false)), (String ((Ascii
                         (true, false, true, false, true, true, true,
                         false)), (String ((Ascii (false, false, true, false,
                         true, true, true, false)), (String ((Ascii (false,
                         false, false, false, false, true, false, false)),
                         (String ((Ascii (true, true, true, true, false,
                         true, true, false)), (String ((Ascii (false, true,
                         true, false, false, true, true, false)), (String
                         ((Ascii (false, false, false, false, false, true,
                         false, false)), (String ((Ascii (false, true, false,
                         false, true, true, true, false)), (String ((Ascii
                         (true, false, false, false, false, true, true,
                         false)), (String ((Ascii (false, true, true, true,
                         false, true, true, false)), (String ((Ascii (true,
                         true, true, false, false, true, true, false)),
                         (String ((Ascii (true, false, true, false, false,
                         true, true, false)),
                         EmptyString))))))))))))))))))))))))))))))))))))))))))))))))
                  else let source0 = take_z csize source in
                       rbind
                         (if Z.eqb sec.ls_type (Zpos (XO XH))
                          then huf_build_decoder ht source0
                          else if Z.eqb ht.ht_max_bits Z0
                               then RErr (String ((Ascii (true, false, true,
                                      false, true, false, true, false)),
                                      (String ((Ascii (false, true, true,
                                      true, false, true, true, false)),
                                      (String ((Ascii (true, false, false,
                                      true, false, true, true, false)),
                                      (String ((Ascii (false, true, true,
                                      true, false, true, true, false)),
                                      (String ((Ascii (true, false, false,
                                      true, false, true, true, false)),
                                      (String ((Ascii (false, false, true,
                                      false, true, true, true, false)),
                                      (String ((Ascii (true, false, false,
                                      true, false, true, true, false)),
                                      (String ((Ascii (true, false, false,
                                      false, false, true, true, false)),
                                      (String ((Ascii (false, false, true,
                                      true, false, true, true, false)),
                                      (String ((Ascii (true, false, false,
                                      true, false, true, true, false)),
                                      (String ((Ascii (false, true, false,
                                      true, true, true, true, false)),
                                      (String ((Ascii (true, false, true,
                                      false, false, true, true, false)),
                                      (String ((Ascii (false, false, true,
                                      false, false, true, true, false)),
                                      (String ((Ascii (false, false, false,
                                      true, false, false, true, false)),
                                      (String ((Ascii (true, false, true,
                                      false, true, true, true, false)),
                                      (String ((Ascii (false, true, true,
                                      false, false, true, true, false)),
                                      (String ((Ascii (false, true, true,
                                      false, false, true, true, false)),
                                      (String ((Ascii (true, false, true,
                                      true, false, true, true, false)),
                                      (String ((Ascii (true, false, false,
                                      false, false, true, true, false)),
                                      (String ((Ascii (false, true, true,
                                      true, false, true, true, false)),
                                      (String ((Ascii (false, false, true,
                                      false, true, false, true, false)),
                                      (String ((Ascii (true, false, false,
                                      false, false, true, true, false)),
                                      (String ((Ascii (false, true, false,
                                      false, false, true, true, false)),
                                      (String ((Ascii (false, false, true,
                                      true, false, true, true, false)),
                                      (String ((Ascii (true, false, true,
                                      false, false, true, true, false)),
                                      EmptyString))))))))))))))))))))))))))))))))))))))))))))))))))
                               else ROk (ht, Z0)) (fun pat ->
                         let (ht0, bytes_read) = pat in
                         if Z.ltb (zlen source0) bytes_read
                         then RPanic (String ((Ascii (true, true, false,
                                false, true, true, true, false)), (String
                                ((Ascii (false, false, true, true, false,
                                true, true, false)), (String ((Ascii (true,
                                false, false, true, false, true, true,
                                false)), (String ((Ascii (true, true, false,
                                false, false, true, true, false)), (String
                                ((Ascii (true, false, true, false, false,
                                true, true, false)), (String ((Ascii (false,
                                false, false, false, false, true, false,
                                false)), (String ((Ascii (true, false, false,
                                true, false, true, true, false)), (String
                                ((Ascii (false, true, true, true, false,
                                true, true, false)), (String ((Ascii (false,
                                false, true, false, false, true, true,
                                false)), (String ((Ascii (true, false, true,
                                false, false, true, true, false)), (String
                                ((Ascii (false, false, false, true, true,
                                true, true, false)), (String ((Ascii (false,
                                false, false, false, false, true, false,
                                false)), (String ((Ascii (true, true, true,
                                true, false, true, true, false)), (String
                                ((Ascii (true, false, true, false, true,
                                true, true, false)), (String ((Ascii (false,
                                false, true, false, true, true, true,
                                false)), (String ((Ascii (false, false,
                                false, false, false, true, false, false)),
                                (String ((Ascii (true, true, true, true,
                                false, true, true, false)), (String ((Ascii
                                (false, true, true, false, false, true, true,
                                false)), (String ((Ascii (false, false,
                                false, false, false, true, false, false)),
                                (String ((Ascii (false, true, false, false,
                                true, true, true, false)), (String ((Ascii
                                (true, false, false, false, false, true,
                                true, false)), (String ((Ascii (false, true,
                                true, true, false, true, true, false)),
                                (String ((Ascii (true, true, true, false,
                                false, true, true, false)), (String ((Ascii
                                (true, false, true, false, false, true, true,
                                false)),
                                EmptyString))))))))))))))))))))))))))))))))))))))))))))))))
                         else let source1 = drop_z bytes_read source0 in
                              rbind
                                (if Z.eqb nstreams (Zpos (XO (XO XH)))
                                 then if Z.ltb (zlen source1) (Zpos (XO (XI
                                           XH)))
                                      then RErr (String ((Ascii (true, false,
                                             true, true, false, false, true,
                                             false)), (String ((Ascii (true,
                                             false, false, true, false, true,
                                             true, false)), (String ((Ascii
                                             (true, true, false, false, true,
                                             true, true, false)), (String
                                             ((Ascii (true, true, false,
                                             false, true, true, true,
                                             false)), (String ((Ascii (true,
                                             false, false, true, false, true,
                                             true, false)), (String ((Ascii
                                             (false, true, true, true, false,
                                             true, true, false)), (String
                                             ((Ascii (true, true, true,
                                             false, false, true, true,
                                             false)), (String ((Ascii (false,
                                             true, false, false, false,
                                             false, true, false)), (String
                                             ((Ascii (true, false, false,
                                             true, true, true, true, false)),
                                             (String ((Ascii (false, false,
                                             true, false, true, true, true,
                                             false)), (String ((Ascii (true,
                                             false, true, false, false, true,
                                             true, false)), (String ((Ascii
                                             (true, true, false, false, true,
                                             true, true, false)), (String
                                             ((Ascii (false, true, true,
                                             false, false, false, true,
                                             false)), (String ((Ascii (true,
                                             true, true, true, false, true,
                                             true, false)), (String ((Ascii
                                             (false, true, false, false,
                                             true, true, true, false)),
                                             (String ((Ascii (false, true,
                                             false, true, false, false, true,
                                             false)), (String ((Ascii (true,
                                             false, true, false, true, true,
                                             true, false)), (String ((Ascii
                                             (true, false, true, true, false,
                                             true, true, false)), (String
                                             ((Ascii (false, false, false,
                                             false, true, true, true,
                                             false)), (String ((Ascii (false,
                                             false, false, true, false,
                                             false, true, false)), (String
                                             ((Ascii (true, false, true,
                                             false, false, true, true,
                                             false)), (String ((Ascii (true,
                                             false, false, false, false,
                                             true, true, false)), (String
                                             ((Ascii (false, false, true,
                                             false, false, true, true,
                                             false)), (String ((Ascii (true,
                                             false, true, false, false, true,
                                             true, false)), (String ((Ascii
                                             (false, true, false, false,
                                             true, true, true, false)),
                                             EmptyString))))))))))))))))))))))))))))))))))))))))))))))))))
                                      else let jump1 =
                                             Z.add (nth_z source1 Z0)
                                               (Z.mul
                                                 (nth_z source1 (Zpos XH))
                                                 (Zpos (XO (XO (XO (XO (XO
                                                 (XO (XO (XO XH))))))))))
                                           in
                                           let jump2 =
                                             Z.add
                                               (Z.add jump1
                                                 (nth_z source1 (Zpos (XO
                                                   XH))))
                                               (Z.mul
                                                 (nth_z source1 (Zpos (XI
                                                   XH))) (Zpos (XO (XO (XO
                                                 (XO (XO (XO (XO (XO
                                                 XH))))))))))
                                           in
                                           let jump3 =
                                             Z.add
                                               (Z.add jump2
                                                 (nth_z source1 (Zpos (XO (XO
                                                   XH)))))
                                               (Z.mul
                                                 (nth_z source1 (Zpos (XI (XO
                                                   XH)))) (Zpos (XO (XO (XO
                                                 (XO (XO (XO (XO (XO
                                                 XH))))))))))
                                           in
                                           let src =
                                             drop_z (Zpos (XO (XI XH)))
                                               source1
                                           in
                                           if Z.ltb (zlen src) jump3
                                           then RErr (String ((Ascii (true,
                                                  false, true, true, false,
                                                  false, true, false)),
                                                  (String ((Ascii (true,
                                                  false, false, true, false,
                                                  true, true, false)),
                                                  (String ((Ascii (true,
                                                  true, false, false, true,
                                                  true, true, false)),
                                                  (String ((Ascii (true,
                                                  true, false, false, true,
                                                  true, true, false)),
                                                  (String ((Ascii (true,
                                                  false, false, true, false,
                                                  true, true, false)),
                                                  (String ((Ascii (false,
                                                  true, true, true, false,
                                                  true, true, false)),
                                                  (String ((Ascii (true,
                                                  true, true, false, false,
                                                  true, true, false)),
                                                  (String ((Ascii (false,
                                                  true, false, false, false,
                                                  false, true, false)),
                                                  (String ((Ascii (true,
                                                  false, false, true, true,
                                                  true, true, false)),
                                                  (String ((Ascii (false,
                                                  false, true, false, true,
                                                  true, true, false)),
                                                  (String ((Ascii (true,
                                                  false, true, false, false,
                                                  true, true, false)),
                                                  (String ((Ascii (true,
                                                  true, false, false, true,
                                                  true, true, false)),
                                                  (String ((Ascii (false,
                                                  true, true, false, false,
                                                  false, true, false)),
                                                  (String ((Ascii (true,
                                                  true, true, true, false,
                                                  true, true, false)),
                                                  (String ((Ascii (false,
                                                  true, false, false, true,
                                                  true, true, false)),
                                                  (String ((Ascii (false,
                                                  false, true, true, false,
                                                  false, true, false)),
                                                  (String ((Ascii (true,
                                                  false, false, true, false,
                                                  true, true, false)),
                                                  (String ((Ascii (false,
                                                  false, true, false, true,
                                                  true, true, false)),
                                                  (String ((Ascii (true,
                                                  false, true, false, false,
                                                  true, true, false)),
                                                  (String ((Ascii (false,
                                                  true, false, false, true,
                                                  true, true, false)),
                                                  (String ((Ascii (true,
                                                  false, false, false, false,
                                                  true, true, false)),
                                                  (String ((Ascii (false,
                                                  false, true, true, false,
                                                  true, true, false)),
                                                  (String ((Ascii (true,
                                                  true, false, false, true,
                                                  true, true, false)),
                                                  EmptyString))))))))))))))))))))))))))))))))))))))))))))))
                                           else let s1 = take_z jump1 src in
                                                let s2 =
                                                  take_z (Z.sub jump2 jump1)
                                                    (drop_z jump1 src)
                                                in
                                                let s3 =
                                                  take_z (Z.sub jump3 jump2)
                                                    (drop_z jump2 src)
                                                in
                                                let s4 = drop_z jump3 src in
                                                rbind
                                                  (huf_decode_stream ht0 s1
                                                    [] true) (fun o ->
                                                  rbind
                                                    (huf_decode_stream ht0 s2
                                                      o true) (fun o0 ->
                                                    rbind
                                                      (huf_decode_stream ht0
                                                        s3 o0 true)
                                                      (fun o1 ->
                                                      rbind
                                                        (huf_decode_stream
                                                          ht0 s4 o1 true)
                                                        (fun o2 -> ROk (o2,
                                                        (Z.add
                                                          (Z.add bytes_read
                                                            (Zpos (XO (XI
                                                            XH)))) (zlen src)))))))
                                 else if Z.eqb nstreams (Zpos XH)
                                      then rbind
                                             (huf_decode_stream ht0 source1
                                               [] false) (fun o -> ROk (o,
                                             (Z.add bytes_read (zlen source1))))
                                      else RPanic (String ((Ascii (true,
                                             false, false, false, false,
                                             true, true, false)), (String
                                             ((Ascii (true, true, false,
                                             false, true, true, true,
                                             false)), (String ((Ascii (true,
                                             true, false, false, true, true,
                                             true, false)), (String ((Ascii
                                             (true, false, true, false,
                                             false, true, true, false)),
                                             (String ((Ascii (false, true,
                                             false, false, true, true, true,
                                             false)), (String ((Ascii (false,
                                             false, true, false, true, true,
                                             true, false)), (String ((Ascii
                                             (false, false, false, false,
                                             false, true, false, false)),
                                             (String ((Ascii (false, true,
                                             true, true, false, true, true,
                                             false)), (String ((Ascii (true,
                                             false, true, false, true, true,
                                             true, false)), (String ((Ascii
                                             (true, false, true, true, false,
                                             true, true, false)), (String
                                             ((Ascii (true, true, true, true,
                                             true, false, true, false)),
                                             (String ((Ascii (true, true,
                                             false, false, true, true, true,
                                             false)), (String ((Ascii (false,
                                             false, true, false, true, true,
                                             true, false)), (String ((Ascii
                                             (false, true, false, false,
                                             true, true, true, false)),
                                             (String ((Ascii (true, false,
                                             true, false, false, true, true,
                                             false)), (String ((Ascii (true,
                                             false, false, false, false,
                                             true, true, false)), (String
                                             ((Ascii (true, false, true,
                                             true, false, true, true,
                                             false)), (String ((Ascii (true,
                                             true, false, false, true, true,
                                             true, false)), (String ((Ascii
                                             (false, false, false, false,
                                             false, true, false, false)),
                                             (String ((Ascii (true, false,
                                             true, true, true, true, false,
                                             false)), (String ((Ascii (true,
                                             false, true, true, true, true,
                                             false, false)), (String ((Ascii
                                             (false, false, false, false,
                                             false, true, false, false)),
                                             (String ((Ascii (true, false,
                                             false, false, true, true, false,
                                             false)),
                                             EmptyString)))))))))))))))))))))))))))))))))))))))))))))))
                                (fun pat0 ->
                                let (out_rev, bytes_read0) = pat0 in
                                if negb (Z.eqb (zlen out_rev) sec.ls_regen)
                                then RErr (String ((Ascii (false, false,
                                       true, false, false, false, true,
                                       false)), (String ((Ascii (true, false,
                                       true, false, false, true, true,
                                       false)), (String ((Ascii (true, true,
                                       false, false, false, true, true,
                                       false)), (String ((Ascii (true, true,
                                       true, true, false, true, true,
                                       false)), (String ((Ascii (false,
                                       false, true, false, false, true, true,
                                       false)), (String ((Ascii (true, false,
                                       true, false, false, true, true,
                                       false)), (String ((Ascii (false,
                                       false, true, false, false, true, true,
                                       false)), (String ((Ascii (false,
                                       false, true, true, false, false, true,
                                       false)), (String ((Ascii (true, false,
                                       false, true, false, true, true,
                                       false)), (String ((Ascii (false,
                                       false, true, false, true, true, true,
                                       false)), (String ((Ascii (true, false,
                                       true, false, false, true, true,
                                       false)), (String ((Ascii (false, true,
                                       false, false, true, true, true,
                                       false)), (String ((Ascii (true, false,
                                       false, false, false, true, true,
                                       false)), (String ((Ascii (false,
                                       false, true, true, false, true, true,
                                       false)), (String ((Ascii (true, true,
                                       false, false, false, false, true,
                                       false)), (String ((Ascii (true, true,
                                       true, true, false, true, true,
                                       false)), (String ((Ascii (true, false,
                                       true, false, true, true, true,
                                       false)), (String ((Ascii (false, true,
                                       true, true, false, true, true,
                                       false)), (String ((Ascii (false,
                                       false, true, false, true, true, true,
                                       false)), (String ((Ascii (true, false,
                                       true, true, false, false, true,
                                       false)), (String ((Ascii (true, false,
                                       false, true, false, true, true,
                                       false)), (String ((Ascii (true, true,
                                       false, false, true, true, true,
                                       false)), (String ((Ascii (true, false,
                                       true, true, false, true, true,
                                       false)), (String ((Ascii (true, false,
                                       false, false, false, true, true,
                                       false)), (String ((Ascii (false,
                                       false, true, false, true, true, true,
                                       false)), (String ((Ascii (true, true,
                                       false, false, false, true, true,
                                       false)), (String ((Ascii (false,
                                       false, false, true, false, true, true,
                                       false)),
                                       EmptyString))))))))))))))))))))))))))))))))))))))))))))))))))))))
                                else ROk ((ht0, (rev out_rev)), bytes_read0)))
                | None ->
                  RErr (String ((Ascii (true, false, true, true, false,
                    false, true, false)), (String ((Ascii (true, false,
                    false, true, false, true, true, false)), (String ((Ascii
                    (true, true, false, false, true, true, true, false)),
                    (String ((Ascii (true, true, false, false, true, true,
                    true, false)), (String ((Ascii (true, false, false, true,
                    false, true, true, false)), (String ((Ascii (false, true,
                    true, true, false, true, true, false)), (String ((Ascii
                    (true, true, true, false, false, true, true, false)),
                    (String ((Ascii (false, true, true, true, false, false,
                    true, false)), (String ((Ascii (true, false, true, false,
                    true, true, true, false)), (String ((Ascii (true, false,
                    true, true, false, true, true, false)), (String ((Ascii
                    (true, true, false, false, true, false, true, false)),
                    (String ((Ascii (false, false, true, false, true, true,
                    true, false)), (String ((Ascii (false, true, false,
                    false, true, true, true, false)), (String ((Ascii (true,
                    false, true, false, false, true, true, false)), (String
                    ((Ascii (true, false, false, false, false, true, true,
                    false)), (String ((Ascii (true, false, true, true, false,
                    true, true, false)), (String ((Ascii (true, true, false,
                    false, true, true, true, false)),
                    EmptyString)))))))))))))))))))))))))))))))))))
             | None ->
               RErr (String ((Ascii (true, false, true, true, false, false,
                 true, false)), (String ((Ascii (true, false, false, true,
                 false, true, true, false)), (String ((Ascii (true, true,
                 false, false, true, true, true, false)), (String ((Ascii
                 (true, true, false, false, true, true, true, false)),
                 (String ((Ascii (true, false, false, true, false, true,
                 true, false)), (String ((Ascii (false, true, true, true,
                 false, true, true, false)), (String ((Ascii (true, true,
                 true, false, false, true, true, false)), (String ((Ascii
                 (true, true, false, false, false, false, true, false)),
                 (String ((Ascii (true, true, true, true, false, true, true,
                 false)), (String ((Ascii (true, false, true, true, false,
                 true, true, false)), (String ((Ascii (false, false, false,
                 false, true, true, true, false)), (String ((Ascii (false,
                 true, false, false, true, true, true, false)), (String
                 ((Ascii (true, false, true, false, false, true, true,
                 false)), (String ((Ascii (true, true, false, false, true,
                 true, true, false)), (String ((Ascii (true, true, false,
                 false, true, true, true, false)), (String ((Ascii (true,
                 false, true, false, false, true, true, false)), (String
                 ((Ascii (false, false, true, false, false, true, true,
                 false)), (String ((Ascii (true, true, false, false, true,
                 false, true, false)), (String ((Ascii (true, false, false,
                 true, false, true, true, false)), (String ((Ascii (false,
                 true, false, true, true, true, true, false)), (String
                 ((Ascii (true, false, true, false, false, true, true,
                 false)),
                 EmptyString)))))))))))))))))))))))))))))))))))))))))))

type fse_scratch = { fs_of : fse_table; fs_of_rle : z option;
                     fs_ll : fse_table; fs_ll_rle : z option;
                     fs_ml : fse_table; fs_ml_rle : z option }

(** val fse_scratch_new : fse_scratch **)

let fse_scratch_new =
  { fs_of = (fse_new mAX_OFFSET_CODE); fs_of_rle = None; fs_ll =
    (fse_new mAX_LITERAL_LENGTH_CODE); fs_ll_rle = None; fs_ml =
    (fse_new mAX_MATCH_LENGTH_CODE); fs_ml_rle = None }

(** val fse_scratch_reset : fse_scratch -> fse_scratch **)

let fse_scratch_reset s =
  { fs_of = (fse_reset s.fs_of); fs_of_rle = None; fs_ll =
    (fse_reset s.fs_ll); fs_ll_rle = None; fs_ml = (fse_reset s.fs_ml);
    fs_ml_rle = None }

(** val fse_scratch_reinit_from :
    fse_scratch -> fse_scratch -> fse_scratch **)

let fse_scratch_reinit_from s other =
  { fs_of = (fse_reinit_from s.fs_of other.fs_of); fs_of_rle =
    other.fs_of_rle; fs_ll = (fse_reinit_from s.fs_ll other.fs_ll);
    fs_ll_rle = other.fs_ll_rle; fs_ml =
    (fse_reinit_from s.fs_ml other.fs_ml); fs_ml_rle = other.fs_ml_rle }

(** val update_one_table :
    z -> z list -> fse_table -> z option -> z -> z -> z -> z list -> string
    -> ((fse_table * z option) * z) res **)

let update_one_table mode src t rle max_log max_code def_log def_dist rle_err =
  if Z.eqb mode (Zpos (XO XH))
  then rbind (fse_build_decoder t src max_log) (fun pat ->
         let (t0, bytes) = pat in ROk ((t0, None), bytes))
  else if Z.eqb mode (Zpos XH)
       then (match src with
             | [] -> RErr rle_err
             | b :: _ ->
               if Z.ltb max_code b
               then RErr (String ((Ascii (true, false, true, true, false,
                      false, true, false)), (String ((Ascii (true, false,
                      false, true, false, true, true, false)), (String
                      ((Ascii (true, true, false, false, true, true, true,
                      false)), (String ((Ascii (true, true, false, false,
                      true, true, true, false)), (String ((Ascii (true,
                      false, false, true, false, true, true, false)), (String
                      ((Ascii (false, true, true, true, false, true, true,
                      false)), (String ((Ascii (true, true, true, false,
                      false, true, true, false)), (String ((Ascii (false,
                      true, false, false, false, false, true, false)),
                      (String ((Ascii (true, false, false, true, true, true,
                      true, false)), (String ((Ascii (false, false, true,
                      false, true, true, true, false)), (String ((Ascii
                      (true, false, true, false, false, true, true, false)),
                      (String ((Ascii (false, true, true, false, false,
                      false, true, false)), (String ((Ascii (true, true,
                      true, true, false, true, true, false)), (String ((Ascii
                      (false, true, false, false, true, true, true, false)),
                      (String ((Ascii (false, true, false, false, true,
                      false, true, false)), (String ((Ascii (false, false,
                      true, true, false, true, true, false)), (String ((Ascii
                      (true, false, true, false, false, true, true, false)),
                      (String ((Ascii (true, false, true, true, false, false,
                      true, false)), (String ((Ascii (false, false, true,
                      true, false, true, true, false)), (String ((Ascii
                      (false, false, true, false, true, false, true, false)),
                      (String ((Ascii (true, false, false, false, false,
                      true, true, false)), (String ((Ascii (false, true,
                      false, false, false, true, true, false)), (String
                      ((Ascii (false, false, true, true, false, true, true,
                      false)), (String ((Ascii (true, false, true, false,
                      false, true, true, false)),
                      EmptyString))))))))))))))))))))))))))))))))))))))))))))))))
               else ROk ((t, (Some b)), (Zpos XH)))
       else if Z.eqb mode Z0
            then rbind (fse_build_from_probabilities t def_log def_dist)
                   (fun t0 -> ROk ((t0, None), Z0))
            else ROk ((t, rle), Z0)

(** val maybe_update_fse_tables :
    z option -> z list -> fse_scratch -> (fse_scratch * z) res **)

let maybe_update_fse_tables modes source s =
  match modes with
  | Some m ->
    let ll_mode = Z.div m (Zpos (XO (XO (XO (XO (XO (XO XH))))))) in
    let of_mode =
      Z.modulo (Z.div m (Zpos (XO (XO (XO (XO XH)))))) (Zpos (XO (XO XH)))
    in
    let ml_mode = Z.modulo (Z.div m (Zpos (XO (XO XH)))) (Zpos (XO (XO XH)))
    in
    rbind
      (update_one_table ll_mode source s.fs_ll s.fs_ll_rle lL_MAX_LOG
        mAX_LITERAL_LENGTH_CODE lL_DEFAULT_ACC_LOG
        lITERALS_LENGTH_DEFAULT_DISTRIBUTION (String ((Ascii (true, false,
        true, true, false, false, true, false)), (String ((Ascii (true,
        false, false, true, false, true, true, false)), (String ((Ascii
        (true, true, false, false, true, true, true, false)), (String ((Ascii
        (true, true, false, false, true, true, true, false)), (String ((Ascii
        (true, false, false, true, false, true, true, false)), (String
        ((Ascii (false, true, true, true, false, true, true, false)), (String
        ((Ascii (true, true, true, false, false, true, true, false)), (String
        ((Ascii (false, true, false, false, false, false, true, false)),
        (String ((Ascii (true, false, false, true, true, true, true, false)),
        (String ((Ascii (false, false, true, false, true, true, true,
        false)), (String ((Ascii (true, false, true, false, false, true,
        true, false)), (String ((Ascii (false, true, true, false, false,
        false, true, false)), (String ((Ascii (true, true, true, true, false,
        true, true, false)), (String ((Ascii (false, true, false, false,
        true, true, true, false)), (String ((Ascii (false, true, false,
        false, true, false, true, false)), (String ((Ascii (false, false,
        true, true, false, true, true, false)), (String ((Ascii (true, false,
        true, false, false, true, true, false)), (String ((Ascii (false,
        false, true, true, false, false, true, false)), (String ((Ascii
        (false, false, true, true, false, true, true, false)), (String
        ((Ascii (false, false, true, false, true, false, true, false)),
        (String ((Ascii (true, false, false, false, false, true, true,
        false)), (String ((Ascii (false, true, false, false, false, true,
        true, false)), (String ((Ascii (false, false, true, true, false,
        true, true, false)), (String ((Ascii (true, false, true, false,
        false, true, true, false)),
        EmptyString)))))))))))))))))))))))))))))))))))))))))))))))))
      (fun pat ->
      let (p, n1) = pat in
      let (ll, ll_rle) = p in
      if Z.ltb (zlen source) n1
      then RPanic (String ((Ascii (true, true, false, false, true, true,
             true, false)), (String ((Ascii (false, false, true, true, false,
             true, true, false)), (String ((Ascii (true, false, false, true,
             false, true, true, false)), (String ((Ascii (true, true, false,
             false, false, true, true, false)), (String ((Ascii (true, false,
             true, false, false, true, true, false)), (String ((Ascii (false,
             false, false, false, false, true, false, false)), (String
             ((Ascii (true, false, false, true, false, true, true, false)),
             (String ((Ascii (false, true, true, true, false, true, true,
             false)), (String ((Ascii (false, false, true, false, false,
             true, true, false)), (String ((Ascii (true, false, true, false,
             false, true, true, false)), (String ((Ascii (false, false,
             false, true, true, true, true, false)), (String ((Ascii (false,
             false, false, false, false, true, false, false)), (String
             ((Ascii (true, true, true, true, false, true, true, false)),
             (String ((Ascii (true, false, true, false, true, true, true,
             false)), (String ((Ascii (false, false, true, false, true, true,
             true, false)), (String ((Ascii (false, false, false, false,
             false, true, false, false)), (String ((Ascii (true, true, true,
             true, false, true, true, false)), (String ((Ascii (false, true,
             true, false, false, true, true, false)), (String ((Ascii (false,
             false, false, false, false, true, false, false)), (String
             ((Ascii (false, true, false, false, true, true, true, false)),
             (String ((Ascii (true, false, false, false, false, true, true,
             false)), (String ((Ascii (false, true, true, true, false, true,
             true, false)), (String ((Ascii (true, true, true, false, false,
             true, true, false)), (String ((Ascii (true, false, true, false,
             false, true, true, false)),
             EmptyString))))))))))))))))))))))))))))))))))))))))))))))))
      else let of_src = drop_z n1 source in
           rbind
             (update_one_table of_mode of_src s.fs_of s.fs_of_rle oF_MAX_LOG
               mAX_OFFSET_CODE oF_DEFAULT_ACC_LOG oFFSET_DEFAULT_DISTRIBUTION
               (String ((Ascii (true, false, true, true, false, false, true,
               false)), (String ((Ascii (true, false, false, true, false,
               true, true, false)), (String ((Ascii (true, true, false,
               false, true, true, true, false)), (String ((Ascii (true, true,
               false, false, true, true, true, false)), (String ((Ascii
               (true, false, false, true, false, true, true, false)), (String
               ((Ascii (false, true, true, true, false, true, true, false)),
               (String ((Ascii (true, true, true, false, false, true, true,
               false)), (String ((Ascii (false, true, false, false, false,
               false, true, false)), (String ((Ascii (true, false, false,
               true, true, true, true, false)), (String ((Ascii (false,
               false, true, false, true, true, true, false)), (String ((Ascii
               (true, false, true, false, false, true, true, false)), (String
               ((Ascii (false, true, true, false, false, false, true,
               false)), (String ((Ascii (true, true, true, true, false, true,
               true, false)), (String ((Ascii (false, true, false, false,
               true, true, true, false)), (String ((Ascii (false, true,
               false, false, true, false, true, false)), (String ((Ascii
               (false, false, true, true, false, true, true, false)), (String
               ((Ascii (true, false, true, false, false, true, true, false)),
               (String ((Ascii (true, true, true, true, false, false, true,
               false)), (String ((Ascii (false, true, true, false, false,
               true, true, false)), (String ((Ascii (false, false, true,
               false, true, false, true, false)), (String ((Ascii (true,
               false, false, false, false, true, true, false)), (String
               ((Ascii (false, true, false, false, false, true, true,
               false)), (String ((Ascii (false, false, true, true, false,
               true, true, false)), (String ((Ascii (true, false, true,
               false, false, true, true, false)),
               EmptyString)))))))))))))))))))))))))))))))))))))))))))))))))
             (fun pat0 ->
             let (p0, n2) = pat0 in
             let (of0, of_rle) = p0 in
             if Z.ltb (zlen source) (Z.add n1 n2)
             then RPanic (String ((Ascii (true, true, false, false, true,
                    true, true, false)), (String ((Ascii (false, false, true,
                    true, false, true, true, false)), (String ((Ascii (true,
                    false, false, true, false, true, true, false)), (String
                    ((Ascii (true, true, false, false, false, true, true,
                    false)), (String ((Ascii (true, false, true, false,
                    false, true, true, false)), (String ((Ascii (false,
                    false, false, false, false, true, false, false)), (String
                    ((Ascii (true, false, false, true, false, true, true,
                    false)), (String ((Ascii (false, true, true, true, false,
                    true, true, false)), (String ((Ascii (false, false, true,
                    false, false, true, true, false)), (String ((Ascii (true,
                    false, true, false, false, true, true, false)), (String
                    ((Ascii (false, false, false, true, true, true, true,
                    false)), (String ((Ascii (false, false, false, false,
                    false, true, false, false)), (String ((Ascii (true, true,
                    true, true, false, true, true, false)), (String ((Ascii
                    (true, false, true, false, true, true, true, false)),
                    (String ((Ascii (false, false, true, false, true, true,
                    true, false)), (String ((Ascii (false, false, false,
                    false, false, true, false, false)), (String ((Ascii
                    (true, true, true, true, false, true, true, false)),
                    (String ((Ascii (false, true, true, false, false, true,
                    true, false)), (String ((Ascii (false, false, false,
                    false, false, true, false, false)), (String ((Ascii
                    (false, true, false, false, true, true, true, false)),
                    (String ((Ascii (true, false, false, false, false, true,
                    true, false)), (String ((Ascii (false, true, true, true,
                    false, true, true, false)), (String ((Ascii (true, true,
                    true, false, false, true, true, false)), (String ((Ascii
                    (true, false, true, false, false, true, true, false)),
                    EmptyString))))))))))))))))))))))))))))))))))))))))))))))))
             else let ml_src = drop_z (Z.add n1 n2) source in
                  rbind
                    (update_one_table ml_mode ml_src s.fs_ml s.fs_ml_rle
                      mL_MAX_LOG mAX_MATCH_LENGTH_CODE mL_DEFAULT_ACC_LOG
                      mATCH_LENGTH_DEFAULT_DISTRIBUTION (String ((Ascii
                      (true, false, true, true, false, false, true, false)),
                      (String ((Ascii (true, false, false, true, false, true,
                      true, false)), (String ((Ascii (true, true, false,
                      false, true, true, true, false)), (String ((Ascii
                      (true, true, false, false, true, true, true, false)),
                      (String ((Ascii (true, false, false, true, false, true,
                      true, false)), (String ((Ascii (false, true, true,
                      true, false, true, true, false)), (String ((Ascii
                      (true, true, true, false, false, true, true, false)),
                      (String ((Ascii (false, true, false, false, false,
                      false, true, false)), (String ((Ascii (true, false,
                      false, true, true, true, true, false)), (String ((Ascii
                      (false, false, true, false, true, true, true, false)),
                      (String ((Ascii (true, false, true, false, false, true,
                      true, false)), (String ((Ascii (false, true, true,
                      false, false, false, true, false)), (String ((Ascii
                      (true, true, true, true, false, true, true, false)),
                      (String ((Ascii (false, true, false, false, true, true,
                      true, false)), (String ((Ascii (false, true, false,
                      false, true, false, true, false)), (String ((Ascii
                      (false, false, true, true, false, true, true, false)),
                      (String ((Ascii (true, false, true, false, false, true,
                      true, false)), (String ((Ascii (true, false, true,
                      true, false, false, true, false)), (String ((Ascii
                      (false, false, true, true, false, true, true, false)),
                      (String ((Ascii (false, false, true, false, true,
                      false, true, false)), (String ((Ascii (true, false,
                      false, false, false, true, true, false)), (String
                      ((Ascii (false, true, false, false, false, true, true,
                      false)), (String ((Ascii (false, false, true, true,
                      false, true, true, false)), (String ((Ascii (true,
                      false, true, false, false, true, true, false)),
                      EmptyString)))))))))))))))))))))))))))))))))))))))))))))))))
                    (fun pat1 ->
                    let (p1, n3) = pat1 in
                    let (ml, ml_rle) = p1 in
                    ROk ({ fs_of = of0; fs_of_rle = of_rle; fs_ll = ll;
                    fs_ll_rle = ll_rle; fs_ml = ml; fs_ml_rle = ml_rle },
                    (Z.add (Z.add n1 n2) n3)))))
  | None ->
    RErr (String ((Ascii (true, false, true, true, false, false, true,
      false)), (String ((Ascii (true, false, false, true, false, true, true,
      false)), (String ((Ascii (true, true, false, false, true, true, true,
      false)), (String ((Ascii (true, true, false, false, true, true, true,
      false)), (String ((Ascii (true, false, false, true, false, true, true,
      false)), (String ((Ascii (false, true, true, true, false, true, true,
      false)), (String ((Ascii (true, true, true, false, false, true, true,
      false)), (String ((Ascii (true, true, false, false, false, false, true,
      false)), (String ((Ascii (true, true, true, true, false, true, true,
      false)), (String ((Ascii (true, false, true, true, false, true, true,
      false)), (String ((Ascii (false, false, false, false, true, true, true,
      false)), (String ((Ascii (false, true, false, false, true, true, true,
      false)), (String ((Ascii (true, false, true, false, false, true, true,
      false)), (String ((Ascii (true, true, false, false, true, true, true,
      false)), (String ((Ascii (true, true, false, false, true, true, true,
      false)), (String ((Ascii (true, false, false, true, false, true, true,
      false)), (String ((Ascii (true, true, true, true, false, true, true,
      false)), (String ((Ascii (false, true, true, true, false, true, true,
      false)), (String ((Ascii (true, false, true, true, false, false, true,
      false)), (String ((Ascii (true, true, true, true, false, true, true,
      false)), (String ((Ascii (false, false, true, false, false, true, true,
      false)), (String ((Ascii (true, false, true, false, false, true, true,
      false)), EmptyString))))))))))))))))))))))))))))))))))))))))))))

type sequence = { sq_ll : z; sq_ml : z; sq_of : z }

(** val code_of : z option -> fse_entry -> z **)

let code_of rle st =
  match rle with
  | Some c -> c
  | None -> st.e_sym

(** val seq_loop :
    nat -> z -> fse_scratch -> fse_entry -> fse_entry -> fse_entry -> rbr ->
    z -> sequence list -> (sequence list * rbr) res **)

let rec seq_loop n0 total s ll ml of0 br done0 acc_rev =
  match n0 with
  | O -> ROk (acc_rev, br)
  | S k ->
    let ll_code = code_of s.fs_ll_rle ll in
    let ml_code = code_of s.fs_ml_rle ml in
    let of_code = code_of s.fs_of_rle of0 in
    rbind (lookup_ll_code ll_code) (fun pat ->
      let (ll_value, ll_bits) = pat in
      rbind (lookup_ml_code ml_code) (fun pat0 ->
        let (ml_value, ml_bits) = pat0 in
        if Z.ltb mAX_OFFSET_CODE of_code
        then RErr (String ((Ascii (true, false, true, false, true, false,
               true, false)), (String ((Ascii (false, true, true, true,
               false, true, true, false)), (String ((Ascii (true, true,
               false, false, true, true, true, false)), (String ((Ascii
               (true, false, true, false, true, true, true, false)), (String
               ((Ascii (false, false, false, false, true, true, true,
               false)), (String ((Ascii (false, false, false, false, true,
               true, true, false)), (String ((Ascii (true, true, true, true,
               false, true, true, false)), (String ((Ascii (false, true,
               false, false, true, true, true, false)), (String ((Ascii
               (false, false, true, false, true, true, true, false)), (String
               ((Ascii (true, false, true, false, false, true, true, false)),
               (String ((Ascii (false, false, true, false, false, true, true,
               false)), (String ((Ascii (true, true, true, true, false,
               false, true, false)), (String ((Ascii (false, true, true,
               false, false, true, true, false)), (String ((Ascii (false,
               true, true, false, false, true, true, false)), (String ((Ascii
               (true, true, false, false, true, true, true, false)), (String
               ((Ascii (true, false, true, false, false, true, true, false)),
               (String ((Ascii (false, false, true, false, true, true, true,
               false)), EmptyString))))))))))))))))))))))))))))))))))
        else let (p, br0) = rbr_get_bits_triple br of_code ml_bits ll_bits in
             let (p0, ll_add) = p in
             let (obits, ml_add) = p0 in
             let offset = Z.add obits (Z.pow (Zpos (XO XH)) of_code) in
             if Z.eqb offset Z0
             then RErr (String ((Ascii (false, true, false, true, true,
                    false, true, false)), (String ((Ascii (true, false, true,
                    false, false, true, true, false)), (String ((Ascii
                    (false, true, false, false, true, true, true, false)),
                    (String ((Ascii (true, true, true, true, false, true,
                    true, false)), (String ((Ascii (true, true, true, true,
                    false, false, true, false)), (String ((Ascii (false,
                    true, true, false, false, true, true, false)), (String
                    ((Ascii (false, true, true, false, false, true, true,
                    false)), (String ((Ascii (true, true, false, false, true,
                    true, true, false)), (String ((Ascii (true, false, true,
                    false, false, true, true, false)), (String ((Ascii
                    (false, false, true, false, true, true, true, false)),
                    EmptyString))))))))))))))))))))
             else let sq = { sq_ll = (Z.add ll_value ll_add); sq_ml =
                    (Z.add ml_value ml_add); sq_of = offset }
                  in
                  let done1 = Z.add done0 (Zpos XH) in
                  rbind
                    (if Z.ltb done1 total
                     then rbind
                            (match s.fs_ll_rle with
                             | Some _ -> ROk (ll, br0)
                             | None -> fse_update_state s.fs_ll ll br0)
                            (fun pat1 ->
                            let (ll0, br1) = pat1 in
                            rbind
                              (match s.fs_ml_rle with
                               | Some _ -> ROk (ml, br1)
                               | None -> fse_update_state s.fs_ml ml br1)
                              (fun pat2 ->
                              let (ml0, br2) = pat2 in
                              rbind
                                (match s.fs_of_rle with
                                 | Some _ -> ROk (of0, br2)
                                 | None -> fse_update_state s.fs_of of0 br2)
                                (fun pat3 ->
                                let (of1, br3) = pat3 in
                                ROk (((ll0, ml0), of1), br3))))
                     else ROk (((ll, ml), of0), br0)) (fun pat1 ->
                    let (p1, br1) = pat1 in
                    let (p2, of1) = p1 in
                    let (ll0, ml0) = p2 in
                    if Z.ltb (rbr_bits_remaining br1) Z0
                    then RErr (String ((Ascii (false, true, true, true,
                           false, false, true, false)), (String ((Ascii
                           (true, true, true, true, false, true, true,
                           false)), (String ((Ascii (false, false, true,
                           false, true, true, true, false)), (String ((Ascii
                           (true, false, true, false, false, false, true,
                           false)), (String ((Ascii (false, true, true, true,
                           false, true, true, false)), (String ((Ascii (true,
                           true, true, true, false, true, true, false)),
                           (String ((Ascii (true, false, true, false, true,
                           true, true, false)), (String ((Ascii (true, true,
                           true, false, false, true, true, false)), (String
                           ((Ascii (false, false, false, true, false, true,
                           true, false)), (String ((Ascii (false, true,
                           false, false, false, false, true, false)), (String
                           ((Ascii (true, false, false, true, true, true,
                           true, false)), (String ((Ascii (false, false,
                           true, false, true, true, true, false)), (String
                           ((Ascii (true, false, true, false, false, true,
                           true, false)), (String ((Ascii (true, true, false,
                           false, true, true, true, false)), (String ((Ascii
                           (false, true, true, false, false, false, true,
                           false)), (String ((Ascii (true, true, true, true,
                           false, true, true, false)), (String ((Ascii
                           (false, true, false, false, true, true, true,
                           false)), (String ((Ascii (false, true, true, true,
                           false, false, true, false)), (String ((Ascii
                           (true, false, true, false, true, true, true,
                           false)), (String ((Ascii (true, false, true, true,
                           false, true, true, false)), (String ((Ascii (true,
                           true, false, false, true, false, true, false)),
                           (String ((Ascii (true, false, true, false, false,
                           true, true, false)), (String ((Ascii (true, false,
                           false, false, true, true, true, false)), (String
                           ((Ascii (true, false, true, false, true, true,
                           true, false)), (String ((Ascii (true, false, true,
                           false, false, true, true, false)), (String ((Ascii
                           (false, true, true, true, false, true, true,
                           false)), (String ((Ascii (true, true, false,
                           false, false, true, true, false)), (String ((Ascii
                           (true, false, true, false, false, true, true,
                           false)), (String ((Ascii (true, true, false,
                           false, true, true, true, false)),
                           EmptyString))))))))))))))))))))))))))))))))))))))))))))))))))))))))))
                    else seq_loop k total s ll0 ml0 of1 br1 done1
                           (sq :: acc_rev))))

(** val decode_sequences :
    z -> z option -> z list -> fse_scratch -> (fse_scratch * sequence list)
    res **)

let decode_sequences num_sequences modes source s =
  rbind (maybe_update_fse_tables modes source s) (fun pat ->
    let (s0, bytes_read) = pat in
    if Z.ltb (zlen source) bytes_read
    then RPanic (String ((Ascii (true, true, false, false, true, true, true,
           false)), (String ((Ascii (false, false, true, true, false, true,
           true, false)), (String ((Ascii (true, false, false, true, false,
           true, true, false)), (String ((Ascii (true, true, false, false,
           false, true, true, false)), (String ((Ascii (true, false, true,
           false, false, true, true, false)), (String ((Ascii (false, false,
           false, false, false, true, false, false)), (String ((Ascii (true,
           false, false, true, false, true, true, false)), (String ((Ascii
           (false, true, true, true, false, true, true, false)), (String
           ((Ascii (false, false, true, false, false, true, true, false)),
           (String ((Ascii (true, false, true, false, false, true, true,
           false)), (String ((Ascii (false, false, false, true, true, true,
           true, false)), (String ((Ascii (false, false, false, false, false,
           true, false, false)), (String ((Ascii (true, true, true, true,
           false, true, true, false)), (String ((Ascii (true, false, true,
           false, true, true, true, false)), (String ((Ascii (false, false,
           true, false, true, true, true, false)), (String ((Ascii (false,
           false, false, false, false, true, false, false)), (String ((Ascii
           (true, true, true, true, false, true, true, false)), (String
           ((Ascii (false, true, true, false, false, true, true, false)),
           (String ((Ascii (false, false, false, false, false, true, false,
           false)), (String ((Ascii (false, true, false, false, true, true,
           true, false)), (String ((Ascii (true, false, false, false, false,
           true, true, false)), (String ((Ascii (false, true, true, true,
           false, true, true, false)), (String ((Ascii (true, true, true,
           false, false, true, true, false)), (String ((Ascii (true, false,
           true, false, false, true, true, false)),
           EmptyString))))))))))))))))))))))))))))))))))))))))))))))))
    else let br = rbr_new (drop_z bytes_read source) in
         (match rbr_skip_padding br with
          | Some br0 ->
            rbind
              (match s0.fs_ll_rle with
               | Some _ -> ROk ((fse_dec_new s0.fs_ll), br0)
               | None -> fse_init_state s0.fs_ll br0) (fun pat0 ->
              let (ll, br1) = pat0 in
              rbind
                (match s0.fs_of_rle with
                 | Some _ -> ROk ((fse_dec_new s0.fs_of), br1)
                 | None -> fse_init_state s0.fs_of br1) (fun pat1 ->
                let (of0, br2) = pat1 in
                rbind
                  (match s0.fs_ml_rle with
                   | Some _ -> ROk ((fse_dec_new s0.fs_ml), br2)
                   | None -> fse_init_state s0.fs_ml br2) (fun pat2 ->
                  let (ml, br3) = pat2 in
                  rbind
                    (seq_loop (Z.to_nat num_sequences) num_sequences s0 ll ml
                      of0 br3 Z0 []) (fun pat3 ->
                    let (acc_rev, br4) = pat3 in
                    if Z.ltb Z0 (rbr_bits_remaining br4)
                    then RErr (String ((Ascii (true, false, true, false,
                           false, false, true, false)), (String ((Ascii
                           (false, false, false, true, true, true, true,
                           false)), (String ((Ascii (false, false, true,
                           false, true, true, true, false)), (String ((Ascii
                           (false, true, false, false, true, true, true,
                           false)), (String ((Ascii (true, false, false,
                           false, false, true, true, false)), (String ((Ascii
                           (false, true, false, false, false, false, true,
                           false)), (String ((Ascii (true, false, false,
                           true, false, true, true, false)), (String ((Ascii
                           (false, false, true, false, true, true, true,
                           false)), (String ((Ascii (true, true, false,
                           false, true, true, true, false)),
                           EmptyString))))))))))))))))))
                    else ROk (s0, (rev acc_rev))))))
          | None ->
            RErr (String ((Ascii (true, false, true, false, false, false,
              true, false)), (String ((Ascii (false, false, false, true,
              true, true, true, false)), (String ((Ascii (false, false, true,
              false, true, true, true, false)), (String ((Ascii (false, true,
              false, false, true, true, true, false)), (String ((Ascii (true,
              false, false, false, false, true, true, false)), (String
              ((Ascii (false, false, false, false, true, false, true,
              false)), (String ((Ascii (true, false, false, false, false,
              true, true, false)), (String ((Ascii (false, false, true,
              false, false, true, true, false)), (String ((Ascii (false,
              false, true, false, false, true, true, false)), (String ((Ascii
              (true, false, false, true, false, true, true, false)), (String
              ((Ascii (false, true, true, true, false, true, true, false)),
              (String ((Ascii (true, true, true, false, false, true, true,
              false)), EmptyString))))))))))))))))))))))))))

type scratch = { sc_huf : huf_table; sc_fse : fse_scratch; sc_buf : dbuf;
                 sc_hist : z list }

(** val exec_loop :
    sequence list -> z list -> dbuf -> z list -> z -> (((dbuf * z list) * z
    list) * z) res **)

let rec exec_loop seqs lits buf hist seq_sum =
  match seqs with
  | [] -> ROk (((buf, hist), lits), seq_sum)
  | sq :: t ->
    rbind
      (if Z.ltb Z0 sq.sq_ll
       then if Z.ltb (zlen lits) sq.sq_ll
            then RErr (String ((Ascii (false, true, true, true, false, false,
                   true, false)), (String ((Ascii (true, true, true, true,
                   false, true, true, false)), (String ((Ascii (false, false,
                   true, false, true, true, true, false)), (String ((Ascii
                   (true, false, true, false, false, false, true, false)),
                   (String ((Ascii (false, true, true, true, false, true,
                   true, false)), (String ((Ascii (true, true, true, true,
                   false, true, true, false)), (String ((Ascii (true, false,
                   true, false, true, true, true, false)), (String ((Ascii
                   (true, true, true, false, false, true, true, false)),
                   (String ((Ascii (false, false, false, true, false, true,
                   true, false)), (String ((Ascii (false, true, false, false,
                   false, false, true, false)), (String ((Ascii (true, false,
                   false, true, true, true, true, false)), (String ((Ascii
                   (false, false, true, false, true, true, true, false)),
                   (String ((Ascii (true, false, true, false, false, true,
                   true, false)), (String ((Ascii (true, true, false, false,
                   true, true, true, false)), (String ((Ascii (false, true,
                   true, false, false, false, true, false)), (String ((Ascii
                   (true, true, true, true, false, true, true, false)),
                   (String ((Ascii (false, true, false, false, true, true,
                   true, false)), (String ((Ascii (true, true, false, false,
                   true, false, true, false)), (String ((Ascii (true, false,
                   true, false, false, true, true, false)), (String ((Ascii
                   (true, false, false, false, true, true, true, false)),
                   (String ((Ascii (true, false, true, false, true, true,
                   true, false)), (String ((Ascii (true, false, true, false,
                   false, true, true, false)), (String ((Ascii (false, true,
                   true, true, false, true, true, false)), (String ((Ascii
                   (true, true, false, false, false, true, true, false)),
                   (String ((Ascii (true, false, true, false, false, true,
                   true, false)),
                   EmptyString))))))))))))))))))))))))))))))))))))))))))))))))))
            else ROk ((db_push buf (take_z sq.sq_ll lits)),
                   (drop_z sq.sq_ll lits))
       else ROk (buf, lits)) (fun pat ->
      let (buf0, lits0) = pat in
      let (actual, hist0) = do_offset_history sq.sq_of sq.sq_ll hist in
      if Z.eqb actual Z0
      then RErr (String ((Ascii (false, true, false, true, true, false, true,
             false)), (String ((Ascii (true, false, true, false, false, true,
             true, false)), (String ((Ascii (false, true, false, false, true,
             true, true, false)), (String ((Ascii (true, true, true, true,
             false, true, true, false)), (String ((Ascii (true, true, true,
             true, false, false, true, false)), (String ((Ascii (false, true,
             true, false, false, true, true, false)), (String ((Ascii (false,
             true, true, false, false, true, true, false)), (String ((Ascii
             (true, true, false, false, true, true, true, false)), (String
             ((Ascii (true, false, true, false, false, true, true, false)),
             (String ((Ascii (false, false, true, false, true, true, true,
             false)), EmptyString))))))))))))))))))))
      else rbind
             (if Z.ltb Z0 sq.sq_ml
              then db_repeat buf0 actual sq.sq_ml
              else ROk buf0) (fun buf1 ->
             let seq_sum0 = Z.add (Z.add seq_sum sq.sq_ml) sq.sq_ll in
             if Z.leb
                  (Z.pow (Zpos (XO XH)) (Zpos (XO (XO (XO (XO (XO XH)))))))
                  seq_sum0
             then RPanic (String ((Ascii (true, false, false, false, false,
                    true, true, false)), (String ((Ascii (false, false, true,
                    false, true, true, true, false)), (String ((Ascii (false,
                    false, true, false, true, true, true, false)), (String
                    ((Ascii (true, false, true, false, false, true, true,
                    false)), (String ((Ascii (true, false, true, true, false,
                    true, true, false)), (String ((Ascii (false, false,
                    false, false, true, true, true, false)), (String ((Ascii
                    (false, false, true, false, true, true, true, false)),
                    (String ((Ascii (false, false, false, false, false, true,
                    false, false)), (String ((Ascii (false, false, true,
                    false, true, true, true, false)), (String ((Ascii (true,
                    true, true, true, false, true, true, false)), (String
                    ((Ascii (false, false, false, false, false, true, false,
                    false)), (String ((Ascii (true, false, false, false,
                    false, true, true, false)), (String ((Ascii (false,
                    false, true, false, false, true, true, false)), (String
                    ((Ascii (false, false, true, false, false, true, true,
                    false)), (String ((Ascii (false, false, false, false,
                    false, true, false, false)), (String ((Ascii (true, true,
                    true, false, true, true, true, false)), (String ((Ascii
                    (true, false, false, true, false, true, true, false)),
                    (String ((Ascii (false, false, true, false, true, true,
                    true, false)), (String ((Ascii (false, false, false,
                    true, false, true, true, false)), (String ((Ascii (false,
                    false, false, false, false, true, false, false)), (String
                    ((Ascii (true, true, true, true, false, true, true,
                    false)), (String ((Ascii (false, true, true, false, true,
                    true, true, false)), (String ((Ascii (true, false, true,
                    false, false, true, true, false)), (String ((Ascii
                    (false, true, false, false, true, true, true, false)),
                    (String ((Ascii (false, true, true, false, false, true,
                    true, false)), (String ((Ascii (false, false, true, true,
                    false, true, true, false)), (String ((Ascii (true, true,
                    true, true, false, true, true, false)), (String ((Ascii
                    (true, true, true, false, true, true, true, false)),
                    EmptyString))))))))))))))))))))))))))))))))))))))))))))))))))))))))
             else exec_loop t lits0 buf1 hist0 seq_sum0))

(** val execute_sequences :
    sequence list -> z list -> dbuf -> z list -> (dbuf * z list) res **)

let execute_sequences seqs lits buf hist =
  let old = buf.db_len in
  rbind (exec_loop seqs lits buf hist Z0) (fun pat ->
    let (p, seq_sum) = pat in
    let (p0, rest) = p in
    let (buf0, hist0) = p0 in
    let buf1 = if Z.ltb Z0 (zlen rest) then db_push buf0 rest else buf0 in
    let seq_sum0 = Z.add seq_sum (zlen rest) in
    if negb
         (Z.eqb
           (Z.modulo seq_sum0
             (Z.pow (Zpos (XO XH)) (Zpos (XO (XO (XO (XO (XO XH))))))))
           (Z.sub buf1.db_len old))
    then RPanic (String ((Ascii (true, false, false, false, false, true,
           true, false)), (String ((Ascii (true, true, false, false, true,
           true, true, false)), (String ((Ascii (true, true, false, false,
           true, true, true, false)), (String ((Ascii (true, false, true,
           false, false, true, true, false)), (String ((Ascii (false, true,
           false, false, true, true, true, false)), (String ((Ascii (false,
           false, true, false, true, true, true, false)), (String ((Ascii
           (false, false, false, false, false, true, false, false)), (String
           ((Ascii (true, true, false, false, true, true, true, false)),
           (String ((Ascii (true, false, true, false, false, true, true,
           false)), (String ((Ascii (true, false, false, false, true, true,
           true, false)), (String ((Ascii (true, true, true, true, true,
           false, true, false)), (String ((Ascii (true, true, false, false,
           true, true, true, false)), (String ((Ascii (true, false, true,
           false, true, true, true, false)), (String ((Ascii (true, false,
           true, true, false, true, true, false)), (String ((Ascii (false,
           false, false, false, false, true, false, false)), (String ((Ascii
           (true, false, true, true, true, true, false, false)), (String
           ((Ascii (true, false, true, true, true, true, false, false)),
           (String ((Ascii (false, false, false, false, false, true, false,
           false)), (String ((Ascii (false, false, true, false, false, true,
           true, false)), (String ((Ascii (true, false, false, true, false,
           true, true, false)), (String ((Ascii (false, true, true, false,
           false, true, true, false)), (String ((Ascii (false, true, true,
           false, false, true, true, false)),
           EmptyString))))))))))))))))))))))))))))))))))))))))))))
    else ROk (buf1, hist0))

(** val decompress_block : z -> scratch -> z list -> scratch res **)

let decompress_block content_size sc raw =
  match lit_header_parse raw with
  | ROk a ->
    let (p, streams) = a in
    let (p0, comp) = p in
    let (p1, regen) = p0 in
    let (used, ty) = p1 in
    let raw1 = drop_z used raw in
    let upper =
      match comp with
      | Some x -> x
      | None -> if Z.eqb ty (Zpos XH) then Zpos XH else regen
    in
    if Z.ltb (zlen raw1) upper
    then RErr (String ((Ascii (true, false, true, true, false, false, true,
           false)), (String ((Ascii (true, false, false, false, false, true,
           true, false)), (String ((Ascii (false, false, true, true, false,
           true, true, false)), (String ((Ascii (false, true, true, false,
           false, true, true, false)), (String ((Ascii (true, true, true,
           true, false, true, true, false)), (String ((Ascii (false, true,
           false, false, true, true, true, false)), (String ((Ascii (true,
           false, true, true, false, true, true, false)), (String ((Ascii
           (true, false, true, false, false, true, true, false)), (String
           ((Ascii (false, false, true, false, false, true, true, false)),
           (String ((Ascii (true, true, false, false, true, false, true,
           false)), (String ((Ascii (true, false, true, false, false, true,
           true, false)), (String ((Ascii (true, true, false, false, false,
           true, true, false)), (String ((Ascii (false, false, true, false,
           true, true, true, false)), (String ((Ascii (true, false, false,
           true, false, true, true, false)), (String ((Ascii (true, true,
           true, true, false, true, true, false)), (String ((Ascii (false,
           true, true, true, false, true, true, false)), (String ((Ascii
           (false, false, false, true, false, false, true, false)), (String
           ((Ascii (true, false, true, false, false, true, true, false)),
           (String ((Ascii (true, false, false, false, false, true, true,
           false)), (String ((Ascii (false, false, true, false, false, true,
           true, false)), (String ((Ascii (true, false, true, false, false,
           true, true, false)), (String ((Ascii (false, true, false, false,
           true, true, true, false)),
           EmptyString))))))))))))))))))))))))))))))))))))))))))))
    else let sec = { ls_type = ty; ls_regen = regen; ls_comp = comp;
           ls_streams = streams }
         in
         rbind (decode_literals sec sc.sc_huf (take_z upper raw1))
           (fun pat ->
           let (p2, used_lit) = pat in
           let (ht, lits) = p2 in
           if negb (Z.eqb regen (zlen lits))
           then RPanic (String ((Ascii (true, false, false, false, false,
                  true, true, false)), (String ((Ascii (true, true, false,
                  false, true, true, true, false)), (String ((Ascii (true,
                  true, false, false, true, true, true, false)), (String
                  ((Ascii (true, false, true, false, false, true, true,
                  false)), (String ((Ascii (false, true, false, false, true,
                  true, true, false)), (String ((Ascii (false, false, true,
                  false, true, true, true, false)), (String ((Ascii (false,
                  false, false, false, false, true, false, false)), (String
                  ((Ascii (false, true, false, false, true, true, true,
                  false)), (String ((Ascii (true, false, true, false, false,
                  true, true, false)), (String ((Ascii (true, true, true,
                  false, false, true, true, false)), (String ((Ascii (true,
                  false, true, false, false, true, true, false)), (String
                  ((Ascii (false, true, true, true, false, true, true,
                  false)), (String ((Ascii (true, false, true, false, false,
                  true, true, false)), (String ((Ascii (false, true, false,
                  false, true, true, true, false)), (String ((Ascii (true,
                  false, false, false, false, true, true, false)), (String
                  ((Ascii (false, false, true, false, true, true, true,
                  false)), (String ((Ascii (true, false, true, false, false,
                  true, true, false)), (String ((Ascii (false, false, true,
                  false, false, true, true, false)), (String ((Ascii (true,
                  true, true, true, true, false, true, false)), (String
                  ((Ascii (true, true, false, false, true, true, true,
                  false)), (String ((Ascii (true, false, false, true, false,
                  true, true, false)), (String ((Ascii (false, true, false,
                  true, true, true, true, false)), (String ((Ascii (true,
                  false, true, false, false, true, true, false)), (String
                  ((Ascii (false, false, false, false, false, true, false,
                  false)), (String ((Ascii (true, false, true, true, true,
                  true, false, false)), (String ((Ascii (true, false, true,
                  true, true, true, false, false)), (String ((Ascii (false,
                  false, false, false, false, true, false, false)), (String
                  ((Ascii (false, false, true, true, false, true, true,
                  false)), (String ((Ascii (true, false, false, true, false,
                  true, true, false)), (String ((Ascii (false, false, true,
                  false, true, true, true, false)), (String ((Ascii (true,
                  false, true, false, false, true, true, false)), (String
                  ((Ascii (false, true, false, false, true, true, true,
                  false)), (String ((Ascii (true, false, false, false, false,
                  true, true, false)), (String ((Ascii (false, false, true,
                  true, false, true, true, false)), (String ((Ascii (true,
                  true, false, false, true, true, true, false)), (String
                  ((Ascii (true, true, true, true, true, false, true,
                  false)), (String ((Ascii (false, true, false, false, false,
                  true, true, false)), (String ((Ascii (true, false, true,
                  false, true, true, true, false)), (String ((Ascii (false,
                  true, true, false, false, true, true, false)), (String
                  ((Ascii (false, true, true, false, false, true, true,
                  false)), (String ((Ascii (true, false, true, false, false,
                  true, true, false)), (String ((Ascii (false, true, false,
                  false, true, true, true, false)), (String ((Ascii (false,
                  true, true, true, false, true, false, false)), (String
                  ((Ascii (false, false, true, true, false, true, true,
                  false)), (String ((Ascii (true, false, true, false, false,
                  true, true, false)), (String ((Ascii (false, true, true,
                  true, false, true, true, false)), (String ((Ascii (false,
                  false, false, true, false, true, false, false)), (String
                  ((Ascii (true, false, false, true, false, true, false,
                  false)),
                  EmptyString))))))))))))))))))))))))))))))))))))))))))))))))))))))))))))))))))))))))))))))))))))))))))))))))
           else if negb (Z.eqb used_lit upper)
                then RPanic (String ((Ascii (true, false, false, false,
                       false, true, true, false)), (String ((Ascii (true,
                       true, false, false, true, true, true, false)), (String
                       ((Ascii (true, true, false, false, true, true, true,
                       false)), (String ((Ascii (true, false, true, false,
                       false, true, true, false)), (String ((Ascii (false,
                       true, false, false, true, true, true, false)), (String
                       ((Ascii (false, false, true, false, true, true, true,
                       false)), (String ((Ascii (false, false, false, false,
                       false, true, false, false)), (String ((Ascii (false,
                       true, false, false, false, true, true, false)),
                       (String ((Ascii (true, false, false, true, true, true,
                       true, false)), (String ((Ascii (false, false, true,
                       false, true, true, true, false)), (String ((Ascii
                       (true, false, true, false, false, true, true, false)),
                       (String ((Ascii (true, true, false, false, true, true,
                       true, false)), (String ((Ascii (true, true, true,
                       true, true, false, true, false)), (String ((Ascii
                       (true, false, true, false, true, true, true, false)),
                       (String ((Ascii (true, true, false, false, true, true,
                       true, false)), (String ((Ascii (true, false, true,
                       false, false, true, true, false)), (String ((Ascii
                       (false, false, true, false, false, true, true,
                       false)), (String ((Ascii (true, true, true, true,
                       true, false, true, false)), (String ((Ascii (true,
                       false, false, true, false, true, true, false)),
                       (String ((Ascii (false, true, true, true, false, true,
                       true, false)), (String ((Ascii (true, true, true,
                       true, true, false, true, false)), (String ((Ascii
                       (false, false, true, true, false, true, true, false)),
                       (String ((Ascii (true, false, false, true, false,
                       true, true, false)), (String ((Ascii (false, false,
                       true, false, true, true, true, false)), (String
                       ((Ascii (true, false, true, false, false, true, true,
                       false)), (String ((Ascii (false, true, false, false,
                       true, true, true, false)), (String ((Ascii (true,
                       false, false, false, false, true, true, false)),
                       (String ((Ascii (false, false, true, true, false,
                       true, true, false)), (String ((Ascii (true, true,
                       false, false, true, true, true, false)), (String
                       ((Ascii (true, true, true, true, true, false, true,
                       false)), (String ((Ascii (true, true, false, false,
                       true, true, true, false)), (String ((Ascii (true,
                       false, true, false, false, true, true, false)),
                       (String ((Ascii (true, true, false, false, false,
                       true, true, false)), (String ((Ascii (false, false,
                       true, false, true, true, true, false)), (String
                       ((Ascii (true, false, false, true, false, true, true,
                       false)), (String ((Ascii (true, true, true, true,
                       false, true, true, false)), (String ((Ascii (false,
                       true, true, true, false, true, true, false)), (String
                       ((Ascii (false, false, false, false, false, true,
                       false, false)), (String ((Ascii (true, false, true,
                       true, true, true, false, false)), (String ((Ascii
                       (true, false, true, true, true, true, false, false)),
                       (String ((Ascii (false, false, false, false, false,
                       true, false, false)), (String ((Ascii (true, false,
                       true, false, true, true, true, false)), (String
                       ((Ascii (false, false, false, false, true, true, true,
                       false)), (String ((Ascii (false, false, false, false,
                       true, true, true, false)), (String ((Ascii (true,
                       false, true, false, false, true, true, false)),
                       (String ((Ascii (false, true, false, false, true,
                       true, true, false)), (String ((Ascii (true, true,
                       true, true, true, false, true, false)), (String
                       ((Ascii (false, false, true, true, false, true, true,
                       false)), (String ((Ascii (true, false, false, true,
                       false, true, true, false)), (String ((Ascii (true,
                       false, true, true, false, true, true, false)), (String
                       ((Ascii (true, false, false, true, false, true, true,
                       false)), (String ((Ascii (false, false, true, false,
                       true, true, true, false)),
                       EmptyString))))))))))))))))))))))))))))))))))))))))))))))))))))))))))))))))))))))))))))))))))))))))))))))))))))))))
                else let raw2 = drop_z upper raw1 in
                     (match sequences_header_parse Z0 None raw2 with
                      | ROk a0 ->
                        let (p3, modes) = a0 in
                        let (used_seq, nseq) = p3 in
                        let raw3 = drop_z used_seq raw2 in
                        if negb
                             (Z.eqb
                               (Z.add (Z.add (Z.add used used_lit) used_seq)
                                 (zlen raw3)) content_size)
                        then RPanic (String ((Ascii (true, false, false,
                               false, false, true, true, false)), (String
                               ((Ascii (true, true, false, false, true, true,
                               true, false)), (String ((Ascii (true, true,
                               false, false, true, true, true, false)),
                               (String ((Ascii (true, false, true, false,
                               false, true, true, false)), (String ((Ascii
                               (false, true, false, false, true, true, true,
                               false)), (String ((Ascii (false, false, true,
                               false, true, true, true, false)), (String
                               ((Ascii (false, false, false, false, false,
                               true, false, false)), (String ((Ascii (true,
                               true, false, false, true, true, true, false)),
                               (String ((Ascii (true, false, true, false,
                               false, true, true, false)), (String ((Ascii
                               (true, true, false, false, false, true, true,
                               false)), (String ((Ascii (false, false, true,
                               false, true, true, true, false)), (String
                               ((Ascii (true, false, false, true, false,
                               true, true, false)), (String ((Ascii (true,
                               true, true, true, false, true, true, false)),
                               (String ((Ascii (false, true, true, true,
                               false, true, true, false)), (String ((Ascii
                               (false, false, false, false, false, true,
                               false, false)), (String ((Ascii (true, true,
                               false, false, true, true, true, false)),
                               (String ((Ascii (true, false, false, true,
                               false, true, true, false)), (String ((Ascii
                               (false, true, false, true, true, true, true,
                               false)), (String ((Ascii (true, false, true,
                               false, false, true, true, false)), (String
                               ((Ascii (true, true, false, false, true, true,
                               true, false)),
                               EmptyString))))))))))))))))))))))))))))))))))))))))
                        else if negb (Z.eqb nseq Z0)
                             then rbind
                                    (decode_sequences nseq modes raw3
                                      sc.sc_fse) (fun pat0 ->
                                    let (fs, seqs) = pat0 in
                                    rbind
                                      (execute_sequences seqs lits sc.sc_buf
                                        sc.sc_hist) (fun pat1 ->
                                      let (buf, hist) = pat1 in
                                      ROk { sc_huf = ht; sc_fse = fs;
                                      sc_buf = buf; sc_hist = hist }))
                             else if negb (Z.eqb (zlen raw3) Z0)
                                  then RErr (String ((Ascii (true, false,
                                         true, false, false, false, true,
                                         false)), (String ((Ascii (false,
                                         false, false, true, true, true,
                                         true, false)), (String ((Ascii
                                         (false, false, true, false, true,
                                         true, true, false)), (String ((Ascii
                                         (false, true, false, false, true,
                                         true, true, false)), (String ((Ascii
                                         (true, false, false, false, false,
                                         true, true, false)), (String ((Ascii
                                         (false, true, false, false, false,
                                         false, true, false)), (String
                                         ((Ascii (true, false, false, true,
                                         false, true, true, false)), (String
                                         ((Ascii (false, false, true, false,
                                         true, true, true, false)), (String
                                         ((Ascii (true, true, false, false,
                                         true, true, true, false)),
                                         EmptyString))))))))))))))))))
                                  else ROk { sc_huf = ht; sc_fse = sc.sc_fse;
                                         sc_buf = (db_push sc.sc_buf lits);
                                         sc_hist = sc.sc_hist }
                      | RErr e -> RErr e
                      | RPanic e -> RPanic e))
  | RErr e -> RErr e
  | RPanic e -> RPanic e

(** val read_exact : z -> z list -> (z list * z list) option **)

let read_exact n0 src =
  if Z.ltb (zlen src) n0
  then None
  else Some ((take_z n0 src), (drop_z n0 src))

(** val decode_block_content :
    z -> z -> z -> scratch -> z list -> ((scratch * z) * z list) res **)

let decode_block_content ty decompressed_size content_size sc src =
  if Z.eqb ty (Zpos XH)
  then (match read_exact (Zpos XH) src with
        | Some p ->
          let (b, rest) = p in
          let buf =
            db_append_raw sc.sc_buf
              (repeat_z (nth_z b Z0) (Z.to_nat decompressed_size))
          in
          ROk (({ sc_huf = sc.sc_huf; sc_fse = sc.sc_fse; sc_buf = buf;
          sc_hist = sc.sc_hist }, (Zpos XH)), rest)
        | None ->
          RErr (String ((Ascii (false, true, false, false, true, false, true,
            false)), (String ((Ascii (true, false, true, false, false, true,
            true, false)), (String ((Ascii (true, false, false, false, false,
            true, true, false)), (String ((Ascii (false, false, true, false,
            false, true, true, false)), (String ((Ascii (true, false, true,
            false, false, false, true, false)), (String ((Ascii (false, true,
            false, false, true, true, true, false)), (String ((Ascii (false,
            true, false, false, true, true, true, false)), (String ((Ascii
            (true, true, true, true, false, true, true, false)), (String
            ((Ascii (false, true, false, false, true, true, true, false)),
            EmptyString)))))))))))))))))))
  else if Z.eqb ty Z0
       then (match read_exact decompressed_size src with
             | Some p ->
               let (d, rest) = p in
               ROk (({ sc_huf = sc.sc_huf; sc_fse = sc.sc_fse; sc_buf =
               (db_append_raw sc.sc_buf d); sc_hist = sc.sc_hist },
               decompressed_size), rest)
             | None ->
               RErr (String ((Ascii (false, true, false, false, true, false,
                 true, false)), (String ((Ascii (true, false, true, false,
                 false, true, true, false)), (String ((Ascii (true, false,
                 false, false, false, true, true, false)), (String ((Ascii
                 (false, false, true, false, false, true, true, false)),
                 (String ((Ascii (true, false, true, false, false, false,
                 true, false)), (String ((Ascii (false, true, false, false,
                 true, true, true, false)), (String ((Ascii (false, true,
                 false, false, true, true, true, false)), (String ((Ascii
                 (true, true, true, true, false, true, true, false)), (String
                 ((Ascii (false, true, false, false, true, true, true,
                 false)), EmptyString)))))))))))))))))))
       else if Z.eqb ty (Zpos (XO XH))
            then (match read_exact content_size src with
                  | Some p ->
                    let (raw, rest) = p in
                    rbind (decompress_block content_size sc raw) (fun sc0 ->
                      ROk ((sc0, content_size), rest))
                  | None ->
                    RErr (String ((Ascii (false, true, false, false, true,
                      false, true, false)), (String ((Ascii (true, false,
                      true, false, false, true, true, false)), (String
                      ((Ascii (true, false, false, false, false, true, true,
                      false)), (String ((Ascii (false, false, true, false,
                      false, true, true, false)), (String ((Ascii (true,
                      false, true, false, false, false, true, false)),
                      (String ((Ascii (false, true, false, false, true, true,
                      true, false)), (String ((Ascii (false, true, false,
                      false, true, true, true, false)), (String ((Ascii
                      (true, true, true, true, false, true, true, false)),
                      (String ((Ascii (false, true, false, false, true, true,
                      true, false)), EmptyString)))))))))))))))))))
            else RPanic (String ((Ascii (false, true, false, false, true,
                   true, true, false)), (String ((Ascii (true, false, true,
                   false, false, true, true, false)), (String ((Ascii (true,
                   true, false, false, true, true, true, false)), (String
                   ((Ascii (true, false, true, false, false, true, true,
                   false)), (String ((Ascii (false, true, false, false, true,
                   true, true, false)), (String ((Ascii (false, true, true,
                   false, true, true, true, false)), (String ((Ascii (true,
                   false, true, false, false, true, true, false)), (String
                   ((Ascii (false, false, true, false, false, true, true,
                   false)), (String ((Ascii (false, false, false, false,
                   false, true, false, false)), (String ((Ascii (false, true,
                   false, false, false, true, true, false)), (String ((Ascii
                   (false, false, true, true, false, true, true, false)),
                   (String ((Ascii (true, true, true, true, false, true,
                   true, false)), (String ((Ascii (true, true, false, false,
                   false, true, true, false)), (String ((Ascii (true, true,
                   false, true, false, true, true, false)), (String ((Ascii
                   (false, false, false, false, false, true, false, false)),
                   (String ((Ascii (false, false, true, false, true, true,
                   true, false)), (String ((Ascii (true, false, false, true,
                   true, true, true, false)), (String ((Ascii (false, false,
                   false, false, true, true, true, false)), (String ((Ascii
                   (true, false, true, false, false, true, true, false)),
                   EmptyString))))))))))))))))))))))))))))))))))))))

type dictionary = { d_id : z; d_fse : fse_scratch; d_huf : huf_table;
                    d_content : z list; d_hist : z list }

(** val decode_dict : z list -> dictionary res **)

let decode_dict raw =
  if Z.ltb (zlen raw) (Zpos (XO (XO (XO XH))))
  then RErr (String ((Ascii (false, true, true, true, false, false, true,
         false)), (String ((Ascii (true, true, true, true, false, true, true,
         false)), (String ((Ascii (false, false, true, false, true, true,
         true, false)), (String ((Ascii (true, false, true, false, false,
         false, true, false)), (String ((Ascii (false, true, true, true,
         false, true, true, false)), (String ((Ascii (true, true, true, true,
         false, true, true, false)), (String ((Ascii (true, false, true,
         false, true, true, true, false)), (String ((Ascii (true, true, true,
         false, false, true, true, false)), (String ((Ascii (false, false,
         false, true, false, true, true, false)), (String ((Ascii (false,
         true, false, false, false, false, true, false)), (String ((Ascii
         (true, false, false, true, true, true, true, false)), (String
         ((Ascii (false, false, true, false, true, true, true, false)),
         (String ((Ascii (true, false, true, false, false, true, true,
         false)), (String ((Ascii (true, true, false, false, true, true,
         true, false)), EmptyString))))))))))))))))))))))))))))
  else if negb
            (Z.eqb (le_val (take_z (Zpos (XO (XO XH))) raw)) (Zpos (XI (XI
              (XI (XO (XI (XI (XO (XO (XO (XO (XI (XO (XO (XI (XO (XI (XO (XO
              (XO (XO (XI (XI (XO (XO (XO (XO (XI (XI (XO (XI (XI
              XH)))))))))))))))))))))))))))))))))
       then RErr (String ((Ascii (false, true, false, false, false, false,
              true, false)), (String ((Ascii (true, false, false, false,
              false, true, true, false)), (String ((Ascii (false, false,
              true, false, false, true, true, false)), (String ((Ascii (true,
              false, true, true, false, false, true, false)), (String ((Ascii
              (true, false, false, false, false, true, true, false)), (String
              ((Ascii (true, true, true, false, false, true, true, false)),
              (String ((Ascii (true, false, false, true, false, true, true,
              false)), (String ((Ascii (true, true, false, false, false,
              true, true, false)), (String ((Ascii (false, true, true, true,
              false, false, true, false)), (String ((Ascii (true, false,
              true, false, true, true, true, false)), (String ((Ascii (true,
              false, true, true, false, true, true, false)),
              EmptyString))))))))))))))))))))))
       else let id =
              le_val
                (take_z (Zpos (XO (XO XH))) (drop_z (Zpos (XO (XO XH))) raw))
            in
            let t0 = drop_z (Zpos (XO (XO (XO XH)))) raw in
            rbind (huf_build_decoder huf_new t0) (fun pat ->
              let (huf, huf_size) = pat in
              if Z.ltb (zlen t0) huf_size
              then RErr (String ((Ascii (false, true, true, true, false,
                     false, true, false)), (String ((Ascii (true, true, true,
                     true, false, true, true, false)), (String ((Ascii
                     (false, false, true, false, true, true, true, false)),
                     (String ((Ascii (true, false, true, false, false, false,
                     true, false)), (String ((Ascii (false, true, true, true,
                     false, true, true, false)), (String ((Ascii (true, true,
                     true, true, false, true, true, false)), (String ((Ascii
                     (true, false, true, false, true, true, true, false)),
                     (String ((Ascii (true, true, true, false, false, true,
                     true, false)), (String ((Ascii (false, false, false,
                     true, false, true, true, false)), (String ((Ascii
                     (false, true, false, false, false, false, true, false)),
                     (String ((Ascii (true, false, false, true, true, true,
                     true, false)), (String ((Ascii (false, false, true,
                     false, true, true, true, false)), (String ((Ascii (true,
                     false, true, false, false, true, true, false)), (String
                     ((Ascii (true, true, false, false, true, true, true,
                     false)), EmptyString))))))))))))))))))))))))))))
              else let t1 = drop_z huf_size t0 in
                   rbind
                     (fse_build_decoder (fse_new mAX_OFFSET_CODE) t1
                       oF_MAX_LOG) (fun pat0 ->
                     let (of0, of_size) = pat0 in
                     if Z.ltb (zlen t1) of_size
                     then RErr (String ((Ascii (false, true, true, true,
                            false, false, true, false)), (String ((Ascii
                            (true, true, true, true, false, true, true,
                            false)), (String ((Ascii (false, false, true,
                            false, true, true, true, false)), (String ((Ascii
                            (true, false, true, false, false, false, true,
                            false)), (String ((Ascii (false, true, true,
                            true, false, true, true, false)), (String ((Ascii
                            (true, true, true, true, false, true, true,
                            false)), (String ((Ascii (true, false, true,
                            false, true, true, true, false)), (String ((Ascii
                            (true, true, true, false, false, true, true,
                            false)), (String ((Ascii (false, false, false,
                            true, false, true, true, false)), (String ((Ascii
                            (false, true, false, false, false, false, true,
                            false)), (String ((Ascii (true, false, false,
                            true, true, true, true, false)), (String ((Ascii
                            (false, false, true, false, true, true, true,
                            false)), (String ((Ascii (true, false, true,
                            false, false, true, true, false)), (String
                            ((Ascii (true, true, false, false, true, true,
                            true, false)),
                            EmptyString))))))))))))))))))))))))))))
                     else let t2 = drop_z of_size t1 in
                          rbind
                            (fse_build_decoder
                              (fse_new mAX_MATCH_LENGTH_CODE) t2 mL_MAX_LOG)
                            (fun pat1 ->
                            let (ml, ml_size) = pat1 in
                            if Z.ltb (zlen t2) ml_size
                            then RErr (String ((Ascii (false, true, true,
                                   true, false, false, true, false)), (String
                                   ((Ascii (true, true, true, true, false,
                                   true, true, false)), (String ((Ascii
                                   (false, false, true, false, true, true,
                                   true, false)), (String ((Ascii (true,
                                   false, true, false, false, false, true,
                                   false)), (String ((Ascii (false, true,
                                   true, true, false, true, true, false)),
                                   (String ((Ascii (true, true, true, true,
                                   false, true, true, false)), (String
                                   ((Ascii (true, false, true, false, true,
                                   true, true, false)), (String ((Ascii
                                   (true, true, true, false, false, true,
                                   true, false)), (String ((Ascii (false,
                                   false, false, true, false, true, true,
                                   false)), (String ((Ascii (false, true,
                                   false, false, false, false, true, false)),
                                   (String ((Ascii (true, false, false, true,
                                   true, true, true, false)), (String ((Ascii
                                   (false, false, true, false, true, true,
                                   true, false)), (String ((Ascii (true,
                                   false, true, false, false, true, true,
                                   false)), (String ((Ascii (true, true,
                                   false, false, true, true, true, false)),
                                   EmptyString))))))))))))))))))))))))))))
                            else let t3 = drop_z ml_size t2 in
                                 rbind
                                   (fse_build_decoder
                                     (fse_new mAX_LITERAL_LENGTH_CODE) t3
                                     lL_MAX_LOG) (fun pat2 ->
                                   let (ll, ll_size) = pat2 in
                                   if Z.ltb (zlen t3) ll_size
                                   then RErr (String ((Ascii (false, true,
                                          true, true, false, false, true,
                                          false)), (String ((Ascii (true,
                                          true, true, true, false, true,
                                          true, false)), (String ((Ascii
                                          (false, false, true, false, true,
                                          true, true, false)), (String
                                          ((Ascii (true, false, true, false,
                                          false, false, true, false)),
                                          (String ((Ascii (false, true, true,
                                          true, false, true, true, false)),
                                          (String ((Ascii (true, true, true,
                                          true, false, true, true, false)),
                                          (String ((Ascii (true, false, true,
                                          false, true, true, true, false)),
                                          (String ((Ascii (true, true, true,
                                          false, false, true, true, false)),
                                          (String ((Ascii (false, false,
                                          false, true, false, true, true,
                                          false)), (String ((Ascii (false,
                                          true, false, false, false, false,
                                          true, false)), (String ((Ascii
                                          (true, false, false, true, true,
                                          true, true, false)), (String
                                          ((Ascii (false, false, true, false,
                                          true, true, true, false)), (String
                                          ((Ascii (true, false, true, false,
                                          false, true, true, false)), (String
                                          ((Ascii (true, true, false, false,
                                          true, true, true, false)),
                                          EmptyString))))))))))))))))))))))))))))
                                   else let t4 = drop_z ll_size t3 in
                                        if Z.ltb (zlen t4) (Zpos (XO (XO (XI
                                             XH))))
                                        then RErr (String ((Ascii (false,
                                               true, true, true, false,
                                               false, true, false)), (String
                                               ((Ascii (true, true, true,
                                               true, false, true, true,
                                               false)), (String ((Ascii
                                               (false, false, true, false,
                                               true, true, true, false)),
                                               (String ((Ascii (true, false,
                                               true, false, false, false,
                                               true, false)), (String ((Ascii
                                               (false, true, true, true,
                                               false, true, true, false)),
                                               (String ((Ascii (true, true,
                                               true, true, false, true, true,
                                               false)), (String ((Ascii
                                               (true, false, true, false,
                                               true, true, true, false)),
                                               (String ((Ascii (true, true,
                                               true, false, false, true,
                                               true, false)), (String ((Ascii
                                               (false, false, false, true,
                                               false, true, true, false)),
                                               (String ((Ascii (false, true,
                                               false, false, false, false,
                                               true, false)), (String ((Ascii
                                               (true, false, false, true,
                                               true, true, true, false)),
                                               (String ((Ascii (false, false,
                                               true, false, true, true, true,
                                               false)), (String ((Ascii
                                               (true, false, true, false,
                                               false, true, true, false)),
                                               (String ((Ascii (true, true,
                                               false, false, true, true,
                                               true, false)),
                                               EmptyString))))))))))))))))))))))))))))
                                        else ROk { d_id = id; d_fse =
                                               { fs_of = of0; fs_of_rle =
                                               None; fs_ll = ll; fs_ll_rle =
                                               None; fs_ml = ml; fs_ml_rle =
                                               None }; d_huf = huf;
                                               d_content =
                                               (drop_z (Zpos (XO (XO (XI
                                                 XH)))) t4); d_hist =
                                               ((le_val
                                                  (take_z (Zpos (XO (XO XH)))
                                                    t4)) :: ((le_val
                                                               (take_z (Zpos
                                                                 (XO (XO
                                                                 XH)))
                                                                 (drop_z
                                                                   (Zpos (XO
                                                                   (XO XH)))
                                                                   t4))) :: (
                                               (le_val
                                                 (take_z (Zpos (XO (XO XH)))
                                                   (drop_z (Zpos (XO (XO (XO
                                                     XH)))) t4))) :: []))) }))))

type fstate = { fr_header : frame_header; fr_scratch : scratch;
                fr_finished : bool; fr_blocks : z; fr_bytes_read : z;
                fr_checksum : z option; fr_using_dict : z option }

type fdec = { fd_state : fstate option; fd_dicts : dictionary list;
              fd_max_window : z }

(** val fdec_new : fdec **)

let fdec_new =
  { fd_state = None; fd_dicts = []; fd_max_window = dEFAULT_MAX_WINDOW_SIZE }

(** val fdec_set_max_window : fdec -> z -> fdec **)

let fdec_set_max_window d m =
  { fd_state = d.fd_state; fd_dicts = d.fd_dicts; fd_max_window =
    (snd (set_max_window_size m)) }

(** val scratch_new : z -> scratch **)

let scratch_new window =
  { sc_huf = huf_new; sc_fse = fse_scratch_new; sc_buf = (db_new window);
    sc_hist = ((Zpos XH) :: ((Zpos (XO (XO XH))) :: ((Zpos (XO (XO (XO
    XH)))) :: []))) }

(** val scratch_reset : scratch -> z -> scratch **)

let scratch_reset s window =
  { sc_huf = (huf_reset s.sc_huf); sc_fse = (fse_scratch_reset s.sc_fse);
    sc_buf = (db_reset s.sc_buf window); sc_hist = ((Zpos XH) :: ((Zpos (XO
    (XO XH))) :: ((Zpos (XO (XO (XO XH)))) :: []))) }

(** val scratch_init_from_dict : scratch -> dictionary -> scratch **)

let scratch_init_from_dict s d =
  { sc_huf = (huf_reinit_from s.sc_huf d.d_huf); sc_fse =
    (fse_scratch_reinit_from s.sc_fse d.d_fse); sc_buf = { db_rev =
    s.sc_buf.db_rev; db_len = s.sc_buf.db_len; db_dict = d.d_content;
    db_window = s.sc_buf.db_window; db_total_out = s.sc_buf.db_total_out;
    db_hashed_rev = s.sc_buf.db_hashed_rev }; sc_hist = d.d_hist }

type event =
| EvHeader
| EvWindowOk of z
| EvReserve of z

(** val frame_front :
    z list -> z -> ((((frame_header * z) * z) * z list) res, z * z) sum **)

let frame_front src max_window =
  match read_frame_header src with
  | FhOk (h, n0) ->
    Inl
      (rbind (fh_window_size h) (fun w ->
        rbind (check_window_size w max_window) (fun _ -> ROk (((h, n0), w),
          (drop_z n0 src)))))
  | FhSkip (m, len) -> Inr (m, len)
  | FhErr e -> Inl (RErr e)
  | FhPanic e -> Inl (RPanic e)

(** val fdec_reset : fdec -> z list -> ((fdec * z list) * event list) res **)

let fdec_reset d src =
  match frame_front src d.fd_max_window with
  | Inl r ->
    (match r with
     | ROk a ->
       let (p, rest) = a in
       let (p0, w) = p in
       let (h, n0) = p0 in
       (match d.fd_state with
        | Some s ->
          let sc = scratch_reset s.fr_scratch w in
          let evs = EvHeader :: ((EvWindowOk w) :: ((EvReserve w) :: [])) in
          let st = { fr_header = h; fr_scratch = sc; fr_finished = false;
            fr_blocks = Z0; fr_bytes_read = n0; fr_checksum = None;
            fr_using_dict = None }
          in
          (match h.fh_dict_id with
           | Some id ->
             (match find (fun dd -> Z.eqb dd.d_id id) d.fd_dicts with
              | Some dd ->
                ROk (({ fd_state = (Some { fr_header = h; fr_scratch =
                  (scratch_init_from_dict sc dd); fr_finished = false;
                  fr_blocks = Z0; fr_bytes_read = n0; fr_checksum = None;
                  fr_using_dict = (Some id) }); fd_dicts = d.fd_dicts;
                  fd_max_window = d.fd_max_window }, rest), evs)
              | None ->
                RErr (String ((Ascii (false, false, true, false, false,
                  false, true, false)), (String ((Ascii (true, false, false,
                  true, false, true, true, false)), (String ((Ascii (true,
                  true, false, false, false, true, true, false)), (String
                  ((Ascii (false, false, true, false, true, true, true,
                  false)), (String ((Ascii (false, true, true, true, false,
                  false, true, false)), (String ((Ascii (true, true, true,
                  true, false, true, true, false)), (String ((Ascii (false,
                  false, true, false, true, true, true, false)), (String
                  ((Ascii (false, false, false, false, true, false, true,
                  false)), (String ((Ascii (false, true, false, false, true,
                  true, true, false)), (String ((Ascii (true, true, true,
                  true, false, true, true, false)), (String ((Ascii (false,
                  true, true, false, true, true, true, false)), (String
                  ((Ascii (true, false, false, true, false, true, true,
                  false)), (String ((Ascii (false, false, true, false, false,
                  true, true, false)), (String ((Ascii (true, false, true,
                  false, false, true, true, false)), (String ((Ascii (false,
                  false, true, false, false, true, true, false)),
                  EmptyString)))))))))))))))))))))))))))))))
           | None ->
             ROk (({ fd_state = (Some st); fd_dicts = d.fd_dicts;
               fd_max_window = d.fd_max_window }, rest), evs))
        | None ->
          let sc = scratch_new w in
          let evs = EvHeader :: ((EvWindowOk w) :: []) in
          let st = { fr_header = h; fr_scratch = sc; fr_finished = false;
            fr_blocks = Z0; fr_bytes_read = n0; fr_checksum = None;
            fr_using_dict = None }
          in
          (match h.fh_dict_id with
           | Some id ->
             (match find (fun dd -> Z.eqb dd.d_id id) d.fd_dicts with
              | Some dd ->
                ROk (({ fd_state = (Some { fr_header = h; fr_scratch =
                  (scratch_init_from_dict sc dd); fr_finished = false;
                  fr_blocks = Z0; fr_bytes_read = n0; fr_checksum = None;
                  fr_using_dict = (Some id) }); fd_dicts = d.fd_dicts;
                  fd_max_window = d.fd_max_window }, rest), evs)
              | None ->
                RErr (String ((Ascii (false, false, true, false, false,
                  false, true, false)), (String ((Ascii (true, false, false,
                  true, false, true, true, false)), (String ((Ascii (true,
                  true, false, false, false, true, true, false)), (String
                  ((Ascii (false, false, true, false, true, true, true,
                  false)), (String ((Ascii (false, true, true, true, false,
                  false, true, false)), (String ((Ascii (true, true, true,
                  true, false, true, true, false)), (String ((Ascii (false,
                  false, true, false, true, true, true, false)), (String
                  ((Ascii (false, false, false, false, true, false, true,
                  false)), (String ((Ascii (false, true, false, false, true,
                  true, true, false)), (String ((Ascii (true, true, true,
                  true, false, true, true, false)), (String ((Ascii (false,
                  true, true, false, true, true, true, false)), (String
                  ((Ascii (true, false, false, true, false, true, true,
                  false)), (String ((Ascii (false, false, true, false, false,
                  true, true, false)), (String ((Ascii (true, false, true,
                  false, false, true, true, false)), (String ((Ascii (false,
                  false, true, false, false, true, true, false)),
                  EmptyString)))))))))))))))))))))))))))))))
           | None ->
             ROk (({ fd_state = (Some st); fd_dicts = d.fd_dicts;
               fd_max_window = d.fd_max_window }, rest), evs)))
     | RErr e -> RErr e
     | RPanic e -> RPanic e)
  | Inr _ ->
    RErr (String ((Ascii (true, true, false, false, true, false, true,
      false)), (String ((Ascii (true, true, false, true, false, true, true,
      false)), (String ((Ascii (true, false, false, true, false, true, true,
      false)), (String ((Ascii (false, false, false, false, true, true, true,
      false)), (String ((Ascii (false, true, true, false, false, false, true,
      false)), (String ((Ascii (false, true, false, false, true, true, true,
      false)), (String ((Ascii (true, false, false, false, false, true, true,
      false)), (String ((Ascii (true, false, true, true, false, true, true,
      false)), (String ((Ascii (true, false, true, false, false, true, true,
      false)), EmptyString))))))))))))))))))

(** val fdec_add_dict : fdec -> dictionary -> fdec **)

let fdec_add_dict d dd =
  { fd_state = d.fd_state; fd_dicts =
    (dd :: (filter (fun x -> negb (Z.eqb x.d_id dd.d_id)) d.fd_dicts));
    fd_max_window = d.fd_max_window }

(** val fdec_force_dict : fdec -> z -> fdec res **)

let fdec_force_dict d id =
  match d.fd_state with
  | Some s ->
    (match find (fun dd -> Z.eqb dd.d_id id) d.fd_dicts with
     | Some dd ->
       ROk { fd_state = (Some { fr_header = s.fr_header; fr_scratch =
         (scratch_init_from_dict s.fr_scratch dd); fr_finished =
         s.fr_finished; fr_blocks = s.fr_blocks; fr_bytes_read =
         s.fr_bytes_read; fr_checksum = s.fr_checksum; fr_using_dict = (Some
         id) }); fd_dicts = d.fd_dicts; fd_max_window = d.fd_max_window }
     | None ->
       RErr (String ((Ascii (false, false, true, false, false, false, true,
         false)), (String ((Ascii (true, false, false, true, false, true,
         true, false)), (String ((Ascii (true, true, false, false, false,
         true, true, false)), (String ((Ascii (false, false, true, false,
         true, true, true, false)), (String ((Ascii (false, true, true, true,
         false, false, true, false)), (String ((Ascii (true, true, true,
         true, false, true, true, false)), (String ((Ascii (false, false,
         true, false, true, true, true, false)), (String ((Ascii (false,
         false, false, false, true, false, true, false)), (String ((Ascii
         (false, true, false, false, true, true, true, false)), (String
         ((Ascii (true, true, true, true, false, true, true, false)), (String
         ((Ascii (false, true, true, false, true, true, true, false)),
         (String ((Ascii (true, false, false, true, false, true, true,
         false)), (String ((Ascii (false, false, true, false, false, true,
         true, false)), (String ((Ascii (true, false, true, false, false,
         true, true, false)), (String ((Ascii (false, false, true, false,
         false, true, true, false)), EmptyString)))))))))))))))))))))))))))))))
  | None ->
    RErr (String ((Ascii (false, true, true, true, false, false, true,
      false)), (String ((Ascii (true, true, true, true, false, true, true,
      false)), (String ((Ascii (false, false, true, false, true, true, true,
      false)), (String ((Ascii (true, false, false, true, true, false, true,
      false)), (String ((Ascii (true, false, true, false, false, true, true,
      false)), (String ((Ascii (false, false, true, false, true, true, true,
      false)), (String ((Ascii (true, false, false, true, false, false, true,
      false)), (String ((Ascii (false, true, true, true, false, true, true,
      false)), (String ((Ascii (true, false, false, true, false, true, true,
      false)), (String ((Ascii (false, false, true, false, true, true, true,
      false)), (String ((Ascii (true, false, false, true, false, true, true,
      false)), (String ((Ascii (true, false, false, false, false, true, true,
      false)), (String ((Ascii (false, false, true, true, false, true, true,
      false)), (String ((Ascii (true, false, false, true, false, true, true,
      false)), (String ((Ascii (false, true, false, true, true, true, true,
      false)), (String ((Ascii (true, false, true, false, false, true, true,
      false)), (String ((Ascii (false, false, true, false, false, true, true,
      false)), EmptyString))))))))))))))))))))))))))))))))))

(** val checksum_flag : fstate -> bool **)

let checksum_flag s =
  content_checksum_flag s.fr_header.fh_desc

(** val st_is_finished : fstate -> bool **)

let st_is_finished s =
  if checksum_flag s
  then (&&) s.fr_finished (is_some s.fr_checksum)
  else s.fr_finished

(** val fdec_is_finished : fdec -> bool **)

let fdec_is_finished d =
  match d.fd_state with
  | Some s -> st_is_finished s
  | None -> true

type strategy =
| SAll
| SUptoBlocks of z
| SUptoBytes of z

(** val set_scratch : fstate -> scratch -> z -> z -> fstate **)

let set_scratch s sc bytes blocks =
  { fr_header = s.fr_header; fr_scratch = sc; fr_finished = s.fr_finished;
    fr_blocks = (Z.add s.fr_blocks blocks); fr_bytes_read =
    (Z.add s.fr_bytes_read bytes); fr_checksum = s.fr_checksum;
    fr_using_dict = s.fr_using_dict }

(** val finish : fstate -> z -> z option -> fstate **)

let finish s bytes ck =
  { fr_header = s.fr_header; fr_scratch = s.fr_scratch; fr_finished = true;
    fr_blocks = s.fr_blocks; fr_bytes_read = (Z.add s.fr_bytes_read bytes);
    fr_checksum = ck; fr_using_dict = s.fr_using_dict }

(** val read_block_header_src :
    z list -> ((((bool * z) * z) * z) * z list) res **)

let read_block_header_src src =
  match read_exact (Zpos (XI XH)) src with
  | Some p ->
    let (hb, rest) = p in
    rbind
      (read_block_header (nth_z hb Z0) (nth_z hb (Zpos XH))
        (nth_z hb (Zpos (XO XH)))) (fun pat ->
      let (p0, csize) = pat in
      let (p1, dsize) = p0 in
      let (last, ty) = p1 in ROk ((((last, ty), dsize), csize), rest))
  | None ->
    RErr (String ((Ascii (false, true, false, false, true, false, true,
      false)), (String ((Ascii (true, false, true, false, false, true, true,
      false)), (String ((Ascii (true, false, false, false, false, true, true,
      false)), (String ((Ascii (false, false, true, false, false, true, true,
      false)), (String ((Ascii (true, false, true, false, false, false, true,
      false)), (String ((Ascii (false, true, false, false, true, true, true,
      false)), (String ((Ascii (false, true, false, false, true, true, true,
      false)), (String ((Ascii (true, true, true, true, false, true, true,
      false)), (String ((Ascii (false, true, false, false, true, true, true,
      false)), EmptyString))))))))))))))))))

(** val decode_blocks_loop :
    nat -> fstate -> z list -> strategy -> z -> z -> (fstate * z list) res **)

let rec decode_blocks_loop fuel s src strat len_before blocks_before =
  match fuel with
  | O ->
    RPanic (String ((Ascii (false, true, true, false, false, true, true,
      false)), (String ((Ascii (true, false, true, false, true, true, true,
      false)), (String ((Ascii (true, false, true, false, false, true, true,
      false)), (String ((Ascii (false, false, true, true, false, true, true,
      false)), EmptyString))))))))
  | S f ->
    rbind (read_block_header_src src) (fun pat ->
      let (p, src0) = pat in
      let (p0, csize) = p in
      let (p1, dsize) = p0 in
      let (last, ty) = p1 in
      let s0 = set_scratch s s.fr_scratch (Zpos (XI XH)) Z0 in
      rbind (decode_block_content ty dsize csize s0.fr_scratch src0)
        (fun pat0 ->
        let (p2, src1) = pat0 in
        let (sc, nbytes) = p2 in
        let s1 = set_scratch s0 sc nbytes (Zpos XH) in
        if last
        then if checksum_flag s1
             then (match read_exact (Zpos (XO (XO XH))) src1 with
                   | Some p3 ->
                     let (ck, src2) = p3 in
                     ROk ((finish s1 (Zpos (XO (XO XH))) (Some (le_val ck))),
                     src2)
                   | None ->
                     RErr (String ((Ascii (false, true, true, false, false,
                       false, true, false)), (String ((Ascii (true, false,
                       false, false, false, true, true, false)), (String
                       ((Ascii (true, false, false, true, false, true, true,
                       false)), (String ((Ascii (false, false, true, true,
                       false, true, true, false)), (String ((Ascii (true,
                       false, true, false, false, true, true, false)),
                       (String ((Ascii (false, false, true, false, false,
                       true, true, false)), (String ((Ascii (false, false,
                       true, false, true, false, true, false)), (String
                       ((Ascii (true, true, true, true, false, true, true,
                       false)), (String ((Ascii (false, true, false, false,
                       true, false, true, false)), (String ((Ascii (true,
                       false, true, false, false, true, true, false)),
                       (String ((Ascii (true, false, false, false, false,
                       true, true, false)), (String ((Ascii (false, false,
                       true, false, false, true, true, false)), (String
                       ((Ascii (true, true, false, false, false, false, true,
                       false)), (String ((Ascii (false, false, false, true,
                       false, true, true, false)), (String ((Ascii (true,
                       false, true, false, false, true, true, false)),
                       (String ((Ascii (true, true, false, false, false,
                       true, true, false)), (String ((Ascii (true, true,
                       false, true, false, true, true, false)), (String
                       ((Ascii (true, true, false, false, true, true, true,
                       false)), (String ((Ascii (true, false, true, false,
                       true, true, true, false)), (String ((Ascii (true,
                       false, true, true, false, true, true, false)),
                       EmptyString)))))))))))))))))))))))))))))))))))))))))
             else ROk ((finish s1 Z0 s1.fr_checksum), src1)
        else let stop =
               match strat with
               | SAll -> false
               | SUptoBlocks n0 -> Z.leb n0 (Z.sub s1.fr_blocks blocks_before)
               | SUptoBytes n0 ->
                 Z.leb n0 (Z.sub s1.fr_scratch.sc_buf.db_len len_before)
             in
             if stop
             then ROk (s1, src1)
             else decode_blocks_loop f s1 src1 strat len_before blocks_before))

(** val fdec_with_state : fdec -> fstate -> fdec **)

let fdec_with_state d s =
  { fd_state = (Some s); fd_dicts = d.fd_dicts; fd_max_window =
    d.fd_max_window }

(** val fdec_decode_blocks :
    fdec -> z list -> strategy -> ((fdec * z list) * bool) res **)

let fdec_decode_blocks d src strat =
  match d.fd_state with
  | Some s ->
    rbind
      (decode_blocks_loop (S (S (length src))) s src strat
        s.fr_scratch.sc_buf.db_len s.fr_blocks) (fun pat ->
      let (s', rest) = pat in
      ROk (((fdec_with_state d s'), rest), s'.fr_finished))
  | None ->
    RErr (String ((Ascii (false, true, true, true, false, false, true,
      false)), (String ((Ascii (true, true, true, true, false, true, true,
      false)), (String ((Ascii (false, false, true, false, true, true, true,
      false)), (String ((Ascii (true, false, false, true, true, false, true,
      false)), (String ((Ascii (true, false, true, false, false, true, true,
      false)), (String ((Ascii (false, false, true, false, true, true, true,
      false)), (String ((Ascii (true, false, false, true, false, false, true,
      false)), (String ((Ascii (false, true, true, true, false, true, true,
      false)), (String ((Ascii (true, false, false, true, false, true, true,
      false)), (String ((Ascii (false, false, true, false, true, true, true,
      false)), (String ((Ascii (true, false, false, true, false, true, true,
      false)), (String ((Ascii (true, false, false, false, false, true, true,
      false)), (String ((Ascii (false, false, true, true, false, true, true,
      false)), (String ((Ascii (true, false, false, true, false, true, true,
      false)), (String ((Ascii (false, true, false, true, true, true, true,
      false)), (String ((Ascii (true, false, true, false, false, true, true,
      false)), (String ((Ascii (false, false, true, false, false, true, true,
      false)), EmptyString))))))))))))))))))))))))))))))))))

(** val db_can_drain_to_window : dbuf -> z option **)

let db_can_drain_to_window b =
  if Z.ltb b.db_window b.db_len
  then Some (Z.sub b.db_len b.db_window)
  else None

(** val db_take_front : dbuf -> z -> z list * dbuf **)

let db_take_front b n0 =
  let keep = Z.sub b.db_len n0 in
  let out = rev (drop_z keep b.db_rev) in
  (out, { db_rev = (take_z keep b.db_rev); db_len = keep; db_dict =
  b.db_dict; db_window = b.db_window; db_total_out = b.db_total_out;
  db_hashed_rev = (rev_append out b.db_hashed_rev) })

type sink_resp =
| SAccept of z
| SZero
| SFail

(** val write_all_bytes :
    ('a1 -> z -> sink_resp * 'a1) -> nat -> 'a1 -> z -> z -> (z * bool) * 'a1 **)

let rec write_all_bytes sstep fuel st buflen written =
  match fuel with
  | O -> ((written, true), st)
  | S f ->
    if Z.ltb written buflen
    then let (s, st') = sstep st (Z.sub buflen written) in
         (match s with
          | SAccept n0 ->
            write_all_bytes sstep f st' buflen
              (Z.add written
                (Z.min (Z.max n0 (Zpos XH)) (Z.sub buflen written)))
          | SZero -> ((written, true), st')
          | SFail -> ((written, false), st'))
    else ((written, true), st)

(** val db_drain_to_sink :
    ('a1 -> z -> sink_resp * 'a1) -> dbuf -> z -> z -> 'a1 -> ((z
    list * dbuf) * bool) * 'a1 **)

let db_drain_to_sink sstep b amount split st =
  if Z.eqb amount Z0
  then ((([], b), true), st)
  else let s1 =
         if Z.eqb b.db_len Z0
         then Z0
         else Z.min (Z.max split (Zpos XH)) b.db_len
       in
       let n1 = Z.min s1 amount in
       let n2 = Z.min (Z.sub b.db_len s1) (Z.sub amount n1) in
       if Z.eqb n1 Z0
       then ((([], b), true), st)
       else let (p, st0) = write_all_bytes sstep (S (Z.to_nat n1)) st n1 Z0 in
            let (w1, ok1) = p in
            if negb ok1
            then (((db_take_front b w1), false), st0)
            else if (&&) (Z.eqb w1 n1) (negb (Z.eqb n2 Z0))
                 then let (p0, st1) =
                        write_all_bytes sstep (S (Z.to_nat n2)) st0 n2 Z0
                      in
                      let (w2, ok2) = p0 in
                      (((db_take_front b (Z.add w1 w2)), ok2), st1)
                 else (((db_take_front b w1), true), st0)

type budget_sink = (z * z) * z

(** val budget_step : budget_sink -> z -> sink_resp * budget_sink **)

let budget_step st offered =
  let (p, mode) = st in
  let (chunk, budget) = p in
  if Z.leb budget Z0
  then ((if Z.eqb mode Z0 then SZero else SFail), st)
  else let w = Z.min (Z.min (Z.max chunk (Zpos XH)) budget) offered in
       ((SAccept w), ((chunk, (Z.sub budget w)), mode))

(** val db_drain_amount : dbuf -> z -> z list * dbuf **)

let db_drain_amount b amount =
  db_take_front b (Z.min amount b.db_len)

(** val db_drain_all : dbuf -> z list * dbuf **)

let db_drain_all b =
  db_take_front b b.db_len

(** val db_read : dbuf -> z -> z list * dbuf **)

let db_read b target_len =
  let max_amount =
    match db_can_drain_to_window b with
    | Some x -> x
    | None -> Z0
  in
  db_drain_amount b (Z.min max_amount target_len)

(** val db_read_all : dbuf -> z -> z list * dbuf **)

let db_read_all b target_len =
  db_drain_amount b (Z.min b.db_len target_len)

(** val st_set_buf : fstate -> dbuf -> fstate **)

let st_set_buf s b =
  { fr_header = s.fr_header; fr_scratch = { sc_huf = s.fr_scratch.sc_huf;
    sc_fse = s.fr_scratch.sc_fse; sc_buf = b; sc_hist =
    s.fr_scratch.sc_hist }; fr_finished = s.fr_finished; fr_blocks =
    s.fr_blocks; fr_bytes_read = s.fr_bytes_read; fr_checksum =
    s.fr_checksum; fr_using_dict = s.fr_using_dict }

(** val st_buf : fstate -> dbuf **)

let st_buf s =
  s.fr_scratch.sc_buf

(** val fdec_collect : fdec -> z list option * fdec **)

let fdec_collect d =
  match d.fd_state with
  | Some s ->
    if st_is_finished s
    then let (out, b) = db_drain_all (st_buf s) in
         ((Some out), (fdec_with_state d (st_set_buf s b)))
    else (match db_can_drain_to_window (st_buf s) with
          | Some n0 ->
            let (out, b) = db_drain_amount (st_buf s) n0 in
            ((Some out), (fdec_with_state d (st_set_buf s b)))
          | None -> (None, d))
  | None -> (None, d)

(** val fdec_can_collect : fdec -> z **)

let fdec_can_collect d =
  match d.fd_state with
  | Some s ->
    if st_is_finished s
    then (st_buf s).db_len
    else (match db_can_drain_to_window (st_buf s) with
          | Some n0 -> n0
          | None -> Z0)
  | None -> Z0

(** val fdec_collect_to_writer :
    ('a1 -> z -> sink_resp * 'a1) -> fdec -> z -> 'a1 -> ((z
    list * fdec) * bool) * 'a1 **)

let fdec_collect_to_writer sstep d split st =
  match d.fd_state with
  | Some s ->
    let amount =
      if st_is_finished s
      then (st_buf s).db_len
      else (match db_can_drain_to_window (st_buf s) with
            | Some n0 -> n0
            | None -> Z0)
    in
    let (p, st0) = db_drain_to_sink sstep (st_buf s) amount split st in
    let (p0, ok) = p in
    let (out, b) = p0 in
    (((out, (fdec_with_state d (st_set_buf s b))), ok), st0)
  | None -> ((([], d), true), st)

(** val fdec_read : fdec -> z -> z list * fdec **)

let fdec_read d target_len =
  match d.fd_state with
  | Some s ->
    let (out, b) =
      if s.fr_finished
      then db_read_all (st_buf s) target_len
      else db_read (st_buf s) target_len
    in
    (out, (fdec_with_state d (st_set_buf s b)))
  | None -> ([], d)

(** val fdec_hashed : fdec -> z list **)

let fdec_hashed d =
  match d.fd_state with
  | Some s -> rev (st_buf s).db_hashed_rev
  | None -> []

(** val dft_loop : nat -> fstate -> z list -> (fstate * z list) res **)

let rec dft_loop fuel s src =
  match fuel with
  | O ->
    RPanic (String ((Ascii (false, true, true, false, false, true, true,
      false)), (String ((Ascii (true, false, true, false, true, true, true,
      false)), (String ((Ascii (true, false, true, false, false, true, true,
      false)), (String ((Ascii (false, false, true, true, false, true, true,
      false)), EmptyString))))))))
  | S f ->
    if Z.ltb (zlen src) (Zpos (XI XH))
    then ROk (s, src)
    else rbind (read_block_header_src src) (fun pat ->
           let (p, src1) = pat in
           let (p0, csize) = p in
           let (p1, dsize) = p0 in
           let (last, ty) = p1 in
           if Z.ltb (zlen src1) csize
           then ROk (s, src)
           else let s0 = set_scratch s s.fr_scratch (Zpos (XI XH)) Z0 in
                rbind
                  (decode_block_content ty dsize csize s0.fr_scratch src1)
                  (fun pat0 ->
                  let (p2, src2) = pat0 in
                  let (sc, nbytes) = p2 in
                  let s1 = set_scratch s0 sc nbytes (Zpos XH) in
                  if last
                  then if checksum_flag s1
                       then if Z.leb (Zpos (XO (XO XH))) (zlen src2)
                            then ROk
                                   ((finish s1 (Zpos (XO (XO XH))) (Some
                                      (le_val
                                        (take_z (Zpos (XO (XO XH))) src2)))),
                                   (drop_z (Zpos (XO (XO XH))) src2))
                            else ROk ((finish s1 Z0 s1.fr_checksum), src2)
                       else ROk ((finish s1 Z0 s1.fr_checksum), src2)
                  else dft_loop f s1 src2))

(** val fdec_decode_from_to :
    fdec -> z list -> z -> ((fdec * z) * z list) res **)

let fdec_decode_from_to d source target_len =
  let start = match d.fd_state with
              | Some s -> s.fr_bytes_read
              | None -> Z0 in
  rbind
    (if (||) (negb (fdec_is_finished d)) (negb (is_some d.fd_state))
     then rbind
            (match d.fd_state with
             | Some _ -> ROk (d, source)
             | None ->
               rbind (fdec_reset d source) (fun pat ->
                 let (p, _) = pat in let (d0, rest) = p in ROk (d0, rest)))
            (fun pat ->
            let (d0, src) = pat in
            (match d0.fd_state with
             | Some s ->
               if (&&) ((&&) (checksum_flag s) s.fr_finished)
                    (negb (is_some s.fr_checksum))
               then if Z.leb (Zpos (XO (XO XH))) (zlen src)
                    then ROk
                           ((fdec_with_state d0
                              (finish s (Zpos (XO (XO XH))) (Some
                                (le_val (take_z (Zpos (XO (XO XH))) src))))),
                           (Some ((Zpos (XO (XO XH))), Z0)))
                    else ROk (d0, (Some ((Zpos (XO (XO XH))), Z0)))
               else rbind (dft_loop (S (S (length src))) s src) (fun pat0 ->
                      let (s', _) = pat0 in
                      ROk ((fdec_with_state d0 s'), None))
             | None ->
               RPanic (String ((Ascii (false, true, false, false, false,
                 false, true, false)), (String ((Ascii (true, false, true,
                 false, true, true, true, false)), (String ((Ascii (true,
                 true, true, false, false, true, true, false)), (String
                 ((Ascii (false, false, false, false, false, true, false,
                 false)), (String ((Ascii (true, false, false, true, false,
                 true, true, false)), (String ((Ascii (false, true, true,
                 true, false, true, true, false)), (String ((Ascii (false,
                 false, false, false, false, true, false, false)), (String
                 ((Ascii (false, false, true, true, false, true, true,
                 false)), (String ((Ascii (true, false, false, true, false,
                 true, true, false)), (String ((Ascii (false, true, false,
                 false, false, true, true, false)), (String ((Ascii (false,
                 true, false, false, true, true, true, false)), (String
                 ((Ascii (true, false, false, false, false, true, true,
                 false)), (String ((Ascii (false, true, false, false, true,
                 true, true, false)), (String ((Ascii (true, false, false,
                 true, true, true, true, false)),
                 EmptyString))))))))))))))))))))))))))))))
     else ROk (d, None)) (fun pat ->
    let (d1, early) = pat in
    (match early with
     | Some p -> let (r, _) = p in ROk ((d1, r), [])
     | None ->
       let (out, d2) = fdec_read d1 target_len in
       (match d2.fd_state with
        | Some s -> ROk ((d2, (Z.sub s.fr_bytes_read start)), out)
        | None ->
          RPanic (String ((Ascii (false, true, false, false, false, false,
            true, false)), (String ((Ascii (true, false, true, false, true,
            true, true, false)), (String ((Ascii (true, true, true, false,
            false, true, true, false)), (String ((Ascii (false, false, false,
            false, false, true, false, false)), (String ((Ascii (true, false,
            false, true, false, true, true, false)), (String ((Ascii (false,
            true, true, true, false, true, true, false)), (String ((Ascii
            (false, false, false, false, false, true, false, false)), (String
            ((Ascii (false, false, true, true, false, true, true, false)),
            (String ((Ascii (true, false, false, true, false, true, true,
            false)), (String ((Ascii (false, true, false, false, false, true,
            true, false)), (String ((Ascii (false, true, false, false, true,
            true, true, false)), (String ((Ascii (true, false, false, false,
            false, true, true, false)), (String ((Ascii (false, true, false,
            false, true, true, true, false)), (String ((Ascii (true, false,
            false, true, true, true, true, false)),
            EmptyString)))))))))))))))))))))))))))))))

(** val decode_all_inner :
    nat -> fdec -> z list -> z -> z list -> (((fdec * z list) * z) * z list)
    res **)

let rec decode_all_inner fuel d input room written_rev =
  match fuel with
  | O ->
    RPanic (String ((Ascii (false, true, true, false, false, true, true,
      false)), (String ((Ascii (true, false, true, false, true, true, true,
      false)), (String ((Ascii (true, false, true, false, false, true, true,
      false)), (String ((Ascii (false, false, true, true, false, true, true,
      false)), EmptyString))))))))
  | S f ->
    rbind
      (fdec_decode_blocks d input (SUptoBytes
        (Z.mul (Zpos (XO (XO (XO (XO (XO (XO (XO (XO (XO (XO XH)))))))))))
          (Zpos (XO (XO (XO (XO (XO (XO (XO (XO (XO (XO XH))))))))))))))
      (fun pat ->
      let (p, _) = pat in
      let (d0, input0) = p in
      let (out, d1) = fdec_read d0 room in
      let room0 = Z.sub room (zlen out) in
      let written_rev0 = rev_append out written_rev in
      if negb (Z.eqb (fdec_can_collect d1) Z0)
      then RErr (String ((Ascii (false, false, true, false, true, false,
             true, false)), (String ((Ascii (true, false, false, false,
             false, true, true, false)), (String ((Ascii (false, true, false,
             false, true, true, true, false)), (String ((Ascii (true, true,
             true, false, false, true, true, false)), (String ((Ascii (true,
             false, true, false, false, true, true, false)), (String ((Ascii
             (false, false, true, false, true, true, true, false)), (String
             ((Ascii (false, false, true, false, true, false, true, false)),
             (String ((Ascii (true, true, true, true, false, true, true,
             false)), (String ((Ascii (true, true, true, true, false, true,
             true, false)), (String ((Ascii (true, true, false, false, true,
             false, true, false)), (String ((Ascii (true, false, true, true,
             false, true, true, false)), (String ((Ascii (true, false, false,
             false, false, true, true, false)), (String ((Ascii (false,
             false, true, true, false, true, true, false)), (String ((Ascii
             (false, false, true, true, false, true, true, false)),
             EmptyString))))))))))))))))))))))))))))
      else if fdec_is_finished d1
           then ROk (((d1, input0), room0), written_rev0)
           else decode_all_inner f d1 input0 room0 written_rev0)

(** val decode_all_outer :
    nat -> fdec -> z list -> z -> z list -> (fdec * z list) res **)

let rec decode_all_outer fuel d input room written_rev =
  match fuel with
  | O ->
    RPanic (String ((Ascii (false, true, true, false, false, true, true,
      false)), (String ((Ascii (true, false, true, false, true, true, true,
      false)), (String ((Ascii (true, false, true, false, false, true, true,
      false)), (String ((Ascii (false, false, true, true, false, true, true,
      false)), EmptyString))))))))
  | S f ->
    (match input with
     | [] -> ROk (d, (rev written_rev))
     | _ :: _ ->
       (match frame_front input d.fd_max_window with
        | Inl _ ->
          rbind (fdec_reset d input) (fun pat ->
            let (p, _) = pat in
            let (d0, input0) = p in
            rbind
              (decode_all_inner (S (S (length input0))) d0 input0 room
                written_rev) (fun pat0 ->
              let (p0, written_rev0) = pat0 in
              let (p1, room0) = p0 in
              let (d1, input1) = p1 in
              decode_all_outer f d1 input1 room0 written_rev0))
        | Inr p ->
          let (_, len) = p in
          let rest = drop_z (Zpos (XO (XO (XO XH)))) input in
          if Z.ltb (zlen rest) len
          then RErr (String ((Ascii (false, true, true, false, false, false,
                 true, false)), (String ((Ascii (true, false, false, false,
                 false, true, true, false)), (String ((Ascii (true, false,
                 false, true, false, true, true, false)), (String ((Ascii
                 (false, false, true, true, false, true, true, false)),
                 (String ((Ascii (true, false, true, false, false, true,
                 true, false)), (String ((Ascii (false, false, true, false,
                 false, true, true, false)), (String ((Ascii (false, false,
                 true, false, true, false, true, false)), (String ((Ascii
                 (true, true, true, true, false, true, true, false)), (String
                 ((Ascii (true, true, false, false, true, false, true,
                 false)), (String ((Ascii (true, true, false, true, false,
                 true, true, false)), (String ((Ascii (true, false, false,
                 true, false, true, true, false)), (String ((Ascii (false,
                 false, false, false, true, true, true, false)), (String
                 ((Ascii (false, true, true, false, false, false, true,
                 false)), (String ((Ascii (false, true, false, false, true,
                 true, true, false)), (String ((Ascii (true, false, false,
                 false, false, true, true, false)), (String ((Ascii (true,
                 false, true, true, false, true, true, false)), (String
                 ((Ascii (true, false, true, false, false, true, true,
                 false)), EmptyString))))))))))))))))))))))))))))))))))
          else decode_all_outer f d (drop_z len rest) room written_rev))

(** val fdec_decode_all : fdec -> z list -> z -> (fdec * z list) res **)

let fdec_decode_all d input cap =
  decode_all_outer (S (S (length input))) d input cap []

(** val stream_fill : nat -> fdec -> z list -> z -> (fdec * z list) res **)

let rec stream_fill fuel d src want =
  match fuel with
  | O ->
    RPanic (String ((Ascii (false, true, true, false, false, true, true,
      false)), (String ((Ascii (true, false, true, false, true, true, true,
      false)), (String ((Ascii (true, false, true, false, false, true, true,
      false)), (String ((Ascii (false, false, true, true, false, true, true,
      false)), EmptyString))))))))
  | S f ->
    if (&&) (Z.ltb (fdec_can_collect d) want) (negb (fdec_is_finished d))
    then rbind
           (fdec_decode_blocks d src (SUptoBytes
             (Z.sub want (fdec_can_collect d)))) (fun pat ->
           let (p, _) = pat in
           let (d0, src0) = p in stream_fill f d0 src0 want)
    else ROk (d, src)

(** val stream_read :
    fdec -> z list -> z -> ((fdec * z list) * z list) res **)

let stream_read d src buf_len =
  if (&&) (fdec_is_finished d) (Z.eqb (fdec_can_collect d) Z0)
  then ROk ((d, src), [])
  else rbind (stream_fill (S (S (length src))) d src buf_len) (fun pat ->
         let (d0, src0) = pat in
         let (out, d1) = fdec_read d0 buf_len in ROk ((d1, src0), out))
