
val negb : bool -> bool

type nat =
| O
| S of nat

type ('a, 'b) sum =
| Inl of 'a
| Inr of 'b

val snd : ('a1 * 'a2) -> 'a2

val length : 'a1 list -> nat

val app : 'a1 list -> 'a1 list -> 'a1 list

type comparison =
| Eq
| Lt
| Gt

val compOpp : comparison -> comparison

val add : nat -> nat -> nat

val mul : nat -> nat -> nat

val sub : nat -> nat -> nat

module Nat :
 sig
  val eqb : nat -> nat -> bool

  val leb : nat -> nat -> bool

  val ltb : nat -> nat -> bool
 end

type positive =
| XI of positive
| XO of positive
| XH

type n =
| N0
| Npos of positive

type z =
| Z0
| Zpos of positive
| Zneg of positive

module Pos :
 sig
  val succ : positive -> positive

  val add : positive -> positive -> positive

  val add_carry : positive -> positive -> positive

  val pred_double : positive -> positive

  val pred_N : positive -> n

  val mul : positive -> positive -> positive

  val iter : ('a1 -> 'a1) -> 'a1 -> positive -> 'a1

  val size : positive -> positive

  val compare_cont : comparison -> positive -> positive -> comparison

  val compare : positive -> positive -> comparison

  val eqb : positive -> positive -> bool

  val coq_Nsucc_double : n -> n

  val coq_Ndouble : n -> n

  val coq_lor : positive -> positive -> positive

  val coq_land : positive -> positive -> n

  val ldiff : positive -> positive -> n

  val iter_op : ('a1 -> 'a1 -> 'a1) -> positive -> 'a1 -> 'a1

  val to_nat : positive -> nat

  val of_succ_nat : nat -> positive
 end

module N :
 sig
  val succ_pos : n -> positive

  val coq_lor : n -> n -> n

  val coq_land : n -> n -> n

  val ldiff : n -> n -> n
 end

val nth : nat -> 'a1 list -> 'a1 -> 'a1

val rev : 'a1 list -> 'a1 list

val rev_append : 'a1 list -> 'a1 list -> 'a1 list

val map : ('a1 -> 'a2) -> 'a1 list -> 'a2 list

val flat_map : ('a1 -> 'a2 list) -> 'a1 list -> 'a2 list

val filter : ('a1 -> bool) -> 'a1 list -> 'a1 list

val find : ('a1 -> bool) -> 'a1 list -> 'a1 option

val firstn : nat -> 'a1 list -> 'a1 list

val skipn : nat -> 'a1 list -> 'a1 list

module Z :
 sig
  val double : z -> z

  val succ_double : z -> z

  val pred_double : z -> z

  val pos_sub : positive -> positive -> z

  val add : z -> z -> z

  val opp : z -> z

  val sub : z -> z -> z

  val mul : z -> z -> z

  val pow_pos : z -> positive -> z

  val pow : z -> z -> z

  val compare : z -> z -> comparison

  val leb : z -> z -> bool

  val ltb : z -> z -> bool

  val geb : z -> z -> bool

  val gtb : z -> z -> bool

  val eqb : z -> z -> bool

  val max : z -> z -> z

  val min : z -> z -> z

  val to_nat : z -> nat

  val of_nat : nat -> z

  val of_N : n -> z

  val pos_div_eucl : positive -> z -> z * z

  val div_eucl : z -> z -> z * z

  val div : z -> z -> z

  val modulo : z -> z -> z

  val odd : z -> bool

  val log2 : z -> z

  val coq_lor : z -> z -> z

  val coq_land : z -> z -> z
 end

type ascii =
| Ascii of bool * bool * bool * bool * bool * bool * bool * bool

type string =
| EmptyString
| String of ascii * string

type 'a res =
| ROk of 'a
| RErr of string
| RPanic of string

val is_some : 'a1 option -> bool

val rbind : 'a1 res -> ('a1 -> 'a2 res) -> 'a2 res

val znth : z list -> z -> z

val upd_nat : z list -> nat -> z -> z list

val zupd : z list -> z -> z -> z list

val le_val : z list -> z

type bit = bool

val b2z : bit -> z

val byte_bits_lsb : nat -> z -> bit list

val bits_of_bytes_lsb : z list -> bit list

val bits_val_lsb : bit list -> z

val bits_val_msb_acc : z -> bit list -> z

val bits_val_msb : bit list -> z

type fbr = { f_past : bit list; f_rest : bit list }

val fbr_new : z list -> fbr

val fbr_bits_read : fbr -> z

val fbr_bits_left : fbr -> z

val fbr_get_bits : fbr -> z -> (z * fbr) res

val fbr_return_bits : fbr -> z -> fbr res

val byte_bits_msb : z -> bit list

val bits_of_bytes_rev : z list -> bit list

type rbr = { r_rest : bit list; r_left : z; r_extra : z }

val rbr_new : z list -> rbr

val rbr_bits_remaining : rbr -> z

val rbr_get_bits : rbr -> z -> z * rbr

val rbr_get_bits_triple : rbr -> z -> z -> z -> ((z * z) * z) * rbr

val skip_padding : nat -> rbr -> z -> rbr option

val rbr_skip_padding : rbr -> rbr option

val highest_bit_set : z -> z

type fse_entry = { e_base : z; e_bits : z; e_sym : z }

val entry0 : fse_entry

type fse_table = { t_max_symbol : z; t_decode : fse_entry list;
                   t_acc_log : z; t_probs : z list; t_counter : z list }

val fse_new : z -> fse_table

val fse_reset : fse_table -> fse_table

val fse_reinit_from : fse_table -> fse_table -> fse_table

val aCC_LOG_OFFSET : z

val zeros : nat -> z list

val skip_zero_runs : nat -> fbr -> z list -> (fbr * z list) res

val read_probs_loop :
  nat -> fbr -> z -> z -> z list -> ((fbr * z) * z list) res

val read_probabilities : z -> z list -> z -> ((z * z list) * z) res

val next_position : z -> z -> z

val calc_baseline_and_numbits : z -> z -> z -> z * z

val upd : 'a1 list -> nat -> 'a1 -> 'a1 list

val nth_e : fse_entry list -> z -> fse_entry

val place_negative :
  z list -> z -> z -> z -> fse_entry list -> (z * fse_entry list) res

val skip_taken : nat -> z -> z -> z -> z res

val spread_one :
  nat -> z -> z -> z -> z -> fse_entry list -> (z * fse_entry list) res

val spread :
  z list -> z -> z -> z -> z -> fse_entry list -> fse_entry list res

val nth_z : z list -> z -> z

val assign :
  nat -> z -> z -> z -> z list -> z list -> fse_entry list -> (z
  list * fse_entry list) res

val entries0 : nat -> fse_entry list

val build_decoding_table : z -> z -> z list -> (fse_entry list * z list) res

val fse_build_decoder : fse_table -> z list -> z -> (fse_table * z) res

val fse_build_from_probabilities : fse_table -> z -> z list -> fse_table res

val fse_dec_new : fse_table -> fse_entry

val fse_init_state : fse_table -> rbr -> (fse_entry * rbr) res

val fse_update_state : fse_table -> fse_entry -> rbr -> (fse_entry * rbr) res

val mAX_MAX_NUM_BITS : z

type huf_entry = { h_sym : z; h_bits : z }

val hentry0 : huf_entry

type huf_table = { ht_decode : huf_entry list; ht_weights : z list;
                   ht_max_bits : z; ht_bits : z list; ht_bit_ranks : 
                   z list; ht_rank_indexes : z list; ht_fse : fse_table }

val huf_new : huf_table

val huf_reset : huf_table -> huf_table

val huf_reinit_from : huf_table -> huf_table -> huf_table

val fse_weights_loop :
  nat -> fse_table -> fse_entry -> fse_entry -> rbr -> z list -> z -> z list
  res

val direct_weights : nat -> z -> z list -> z list

val read_weights : huf_table -> z list -> ((z list * fse_table) * z) res

val weight_sum : z list -> z -> z res

val is_pow2 : z -> bool

val count_ranks : z list -> z list -> z list res

val rank_idx_loop : nat -> z -> z -> z list -> z list -> z list

val fill_range : nat -> z -> huf_entry -> huf_entry list -> huf_entry list res

val assign_codes :
  z list -> z -> z -> z list -> huf_entry list -> (z list * huf_entry list)
  res

val hentries0 : nat -> huf_entry list

val build_table_from_weights :
  z list -> ((((huf_entry list * z) * z list) * z list) * z list) res

val huf_build_decoder : huf_table -> z list -> (huf_table * z) res

val nth_h : huf_entry list -> z -> huf_entry

val huf_init_state : huf_table -> rbr -> z * rbr

val huf_decode_symbol : huf_table -> z -> z res

val huf_next_state : huf_table -> z -> rbr -> (z * rbr) res

val huf_stream_loop :
  nat -> huf_table -> z -> rbr -> z list -> (z list * rbr) res

val huf_decode_stream : huf_table -> z list -> z list -> bool -> z list res

val mAGIC_NUM : z

val mIN_WINDOW_SIZE : z

val mAX_WINDOW_SIZE : z

val mAX_BLOCK_SIZE : z

val dEFAULT_MAX_WINDOW_SIZE : z

val lL_MAX_LOG : z

val mL_MAX_LOG : z

val oF_MAX_LOG : z

val lL_DEFAULT_ACC_LOG : z

val mL_DEFAULT_ACC_LOG : z

val oF_DEFAULT_ACC_LOG : z

val lITERALS_LENGTH_DEFAULT_DISTRIBUTION : z list

val mATCH_LENGTH_DEFAULT_DISTRIBUTION : z list

val oFFSET_DEFAULT_DISTRIBUTION : z list

val mAX_LITERAL_LENGTH_CODE : z

val mAX_MATCH_LENGTH_CODE : z

val mAX_OFFSET_CODE : z

val lookup_ll_code : z -> (z * z) res

val lookup_ml_code : z -> (z * z) res

val do_offset_history : z -> z -> z list -> z * z list

val frame_content_size_flag : z -> z

val single_segment_flag : z -> bool

val content_checksum_flag : z -> bool

val dict_id_flag : z -> z

val frame_content_size_bytes : z -> z res

val dictionary_id_bytes : z -> z res

val window_size : z -> z -> z -> z res

val is_last : z -> bool

val block_type : z -> z res

val block_content_size_unchecked : z -> z -> z -> z

val block_content_size : z -> z -> z -> z res

val literals_section_type : z -> z res

val header_bytes_needed : z -> z res

val sequences_header_parse :
  z -> z option -> z list -> ((z * z) * z option) res

val check_window_size : z -> z -> unit res

val set_max_window_size : z -> unit * z

val read_block_header : z -> z -> z -> (((bool * z) * z) * z) res

type frame_header = { fh_desc : z; fh_wd : z; fh_dict_id : z option;
                      fh_fcs : z }

type fh_result =
| FhOk of frame_header * z
| FhSkip of z * z
| FhErr of string
| FhPanic of string

val take : nat -> z list -> (z list * z list) option

val read_frame_header : z list -> fh_result

val fh_window_size : frame_header -> z res

val lit_header_parse : z list -> ((((z * z) * z) * z option) * z option) res

type dbuf = { db_rev : z list; db_len : z; db_dict : z list; db_window : 
              z; db_total_out : z; db_hashed_rev : z list }

val db_new : z -> dbuf

val db_reset : dbuf -> z -> dbuf

val db_append_raw : dbuf -> z list -> dbuf

val db_add_total : dbuf -> z -> dbuf

val db_push : dbuf -> z list -> dbuf

val lz_copy : nat -> nat -> z list -> z list

val db_set_rev : dbuf -> z list -> z -> dbuf

val db_repeat : dbuf -> z -> z -> dbuf res

type lit_section = { ls_type : z; ls_regen : z; ls_comp : z option;
                     ls_streams : z option }

val take_z : z -> z list -> z list

val drop_z : z -> z list -> z list

val zlen : z list -> z

val repeat_z : z -> nat -> z list

val decode_literals :
  lit_section -> huf_table -> z list -> ((huf_table * z list) * z) res

type fse_scratch = { fs_of : fse_table; fs_of_rle : z option;
                     fs_ll : fse_table; fs_ll_rle : z option;
                     fs_ml : fse_table; fs_ml_rle : z option }

val fse_scratch_new : fse_scratch

val fse_scratch_reset : fse_scratch -> fse_scratch

val fse_scratch_reinit_from : fse_scratch -> fse_scratch -> fse_scratch

val update_one_table :
  z -> z list -> fse_table -> z option -> z -> z -> z -> z list -> string ->
  ((fse_table * z option) * z) res

val maybe_update_fse_tables :
  z option -> z list -> fse_scratch -> (fse_scratch * z) res

type sequence = { sq_ll : z; sq_ml : z; sq_of : z }

val code_of : z option -> fse_entry -> z

val seq_loop :
  nat -> z -> fse_scratch -> fse_entry -> fse_entry -> fse_entry -> rbr -> z
  -> sequence list -> (sequence list * rbr) res

val decode_sequences :
  z -> z option -> z list -> fse_scratch -> (fse_scratch * sequence list) res

type scratch = { sc_huf : huf_table; sc_fse : fse_scratch; sc_buf : dbuf;
                 sc_hist : z list }

val exec_loop :
  sequence list -> z list -> dbuf -> z list -> z -> (((dbuf * z list) * z
  list) * z) res

val execute_sequences :
  sequence list -> z list -> dbuf -> z list -> (dbuf * z list) res

val decompress_block : z -> scratch -> z list -> scratch res

val read_exact : z -> z list -> (z list * z list) option

val decode_block_content :
  z -> z -> z -> scratch -> z list -> ((scratch * z) * z list) res

type dictionary = { d_id : z; d_fse : fse_scratch; d_huf : huf_table;
                    d_content : z list; d_hist : z list }

val decode_dict : z list -> dictionary res

type fstate = { fr_header : frame_header; fr_scratch : scratch;
                fr_finished : bool; fr_blocks : z; fr_bytes_read : z;
                fr_checksum : z option; fr_using_dict : z option }

type fdec = { fd_state : fstate option; fd_dicts : dictionary list;
              fd_max_window : z }

val fdec_new : fdec

val fdec_set_max_window : fdec -> z -> fdec

val scratch_new : z -> scratch

val scratch_reset : scratch -> z -> scratch

val scratch_init_from_dict : scratch -> dictionary -> scratch

type event =
| EvHeader
| EvWindowOk of z
| EvReserve of z

val frame_front :
  z list -> z -> ((((frame_header * z) * z) * z list) res, z * z) sum

val fdec_reset : fdec -> z list -> ((fdec * z list) * event list) res

val fdec_add_dict : fdec -> dictionary -> fdec

val fdec_force_dict : fdec -> z -> fdec res

val checksum_flag : fstate -> bool

val st_is_finished : fstate -> bool

val fdec_is_finished : fdec -> bool

type strategy =
| SAll
| SUptoBlocks of z
| SUptoBytes of z

val set_scratch : fstate -> scratch -> z -> z -> fstate

val finish : fstate -> z -> z option -> fstate

val read_block_header_src : z list -> ((((bool * z) * z) * z) * z list) res

val decode_blocks_loop :
  nat -> fstate -> z list -> strategy -> z -> z -> (fstate * z list) res

val fdec_with_state : fdec -> fstate -> fdec

val fdec_decode_blocks :
  fdec -> z list -> strategy -> ((fdec * z list) * bool) res

val db_can_drain_to_window : dbuf -> z option

val db_take_front : dbuf -> z -> z list * dbuf

type sink_resp =
| SAccept of z
| SZero
| SFail

val write_all_bytes :
  ('a1 -> z -> sink_resp * 'a1) -> nat -> 'a1 -> z -> z -> (z * bool) * 'a1

val db_drain_to_sink :
  ('a1 -> z -> sink_resp * 'a1) -> dbuf -> z -> z -> 'a1 -> ((z
  list * dbuf) * bool) * 'a1

type budget_sink = (z * z) * z

val budget_step : budget_sink -> z -> sink_resp * budget_sink

val db_drain_amount : dbuf -> z -> z list * dbuf

val db_drain_all : dbuf -> z list * dbuf

val db_read : dbuf -> z -> z list * dbuf

val db_read_all : dbuf -> z -> z list * dbuf

val st_set_buf : fstate -> dbuf -> fstate

val st_buf : fstate -> dbuf

val fdec_collect : fdec -> z list option * fdec

val fdec_can_collect : fdec -> z

val fdec_collect_to_writer :
  ('a1 -> z -> sink_resp * 'a1) -> fdec -> z -> 'a1 -> ((z
  list * fdec) * bool) * 'a1

val fdec_read : fdec -> z -> z list * fdec

val fdec_hashed : fdec -> z list

val dft_loop : nat -> fstate -> z list -> (fstate * z list) res

val fdec_decode_from_to : fdec -> z list -> z -> ((fdec * z) * z list) res

val decode_all_inner :
  nat -> fdec -> z list -> z -> z list -> (((fdec * z list) * z) * z list) res

val decode_all_outer :
  nat -> fdec -> z list -> z -> z list -> (fdec * z list) res

val fdec_decode_all : fdec -> z list -> z -> (fdec * z list) res

val stream_fill : nat -> fdec -> z list -> z -> (fdec * z list) res

val stream_read : fdec -> z list -> z -> ((fdec * z list) * z list) res
