(* Hand-written driver around the extracted model (parsing and printing only).
   One line in = one line out.  Sub-commands mirror the Rust harness `zh`. *)
module M = Model

let rec pos_of_int n = if n = 1 then M.XH else if n land 1 = 0 then M.XO (pos_of_int (n lsr 1)) else M.XI (pos_of_int (n lsr 1))
let z_of_int n = if n = 0 then M.Z0 else if n > 0 then M.Zpos (pos_of_int n) else M.Zneg (pos_of_int (-n))
let rec int_of_pos = function M.XH -> 1 | M.XO p -> 2 * int_of_pos p | M.XI p -> 2 * int_of_pos p + 1
let int_of_z = function M.Z0 -> 0 | M.Zpos p -> int_of_pos p | M.Zneg p -> - (int_of_pos p)

(* decimal strings of arbitrary size (u64 limits do not fit OCaml's int) *)
let z_of_string s =
  let neg = String.length s > 0 && s.[0] = '-' in
  let acc = ref M.Z0 in
  String.iteri (fun i c -> if not (neg && i = 0) then
    acc := M.Z.add (M.Z.mul !acc (z_of_int 10)) (z_of_int (Char.code c - 48))) s;
  if neg then M.Z.opp !acc else !acc
let rec z_to_string z =
  match z with
  | M.Z0 -> "0"
  | M.Zneg p -> "-" ^ z_to_string (M.Zpos p)
  | _ ->
    let ten = z_of_int 10 in
    let rec go z acc = if z = M.Z0 then acc else go (M.Z.div z ten) (string_of_int (int_of_z (M.Z.modulo z ten)) ^ acc) in
    go z ""

let unhex s =
  if s = "-" then [] else
  List.init (String.length s / 2) (fun i -> z_of_int (int_of_string ("0x" ^ String.sub s (2 * i) 2)))
let hex l =
  if l = [] then "-" else begin
    let b = Buffer.create (2 * List.length l) in
    List.iter (fun z -> Buffer.add_string b (Printf.sprintf "%02x" (int_of_z z))) l;
    Buffer.contents b end

let split_on c s = String.split_on_char c s
let starts s p = String.length s >= String.length p && String.sub s 0 (String.length p) = p
let after s n = String.sub s n (String.length s - n)

(* ---- driver programs over the frame decoder ---- *)
let run_prog line =
  let out = Buffer.create 256 in
  let emit s = if Buffer.length out > 0 then Buffer.add_char out ' '; Buffer.add_string out s in
  let dec = ref M.fdec_new in
  let src = ref [] in
  let toks = List.filter (fun s -> s <> "") (split_on ' ' line) in
  let fin b = if b then "1" else "0" in
  List.iter (fun tok ->
    if starts tok "src=" then begin src := unhex (after tok 4); emit "|" end
    else if starts tok "frag=" then ()   (* fragmentation of the source reader is invisible through read_exact *)
    else if starts tok "dict=" then begin
      match M.decode_dict (unhex (after tok 5)) with
      | M.ROk d -> dec := M.fdec_add_dict !dec d; emit ("dict:ok:" ^ z_to_string d.M.d_id)
      | M.RErr _ -> emit "dict:err"
      | M.RPanic _ -> emit "dict:panic" end
    else if starts tok "maxwin=" then dec := M.fdec_set_max_window !dec (z_of_string (after tok 7))
    else if tok = "new" then dec := M.fdec_new
    else if tok = "I" then begin
      match M.fdec_reset !dec !src with
      | M.ROk ((d, rest), _) -> dec := d; src := rest; emit "I:ok"
      | M.RErr _ -> emit "I:err"
      | M.RPanic _ -> emit "I:panic" end
    else if starts tok "force=" then begin
      match M.fdec_force_dict !dec (z_of_string (after tok 6)) with
      | M.ROk d -> dec := d; emit "force:ok"
      | M.RErr _ -> emit "force:err"
      | M.RPanic _ -> emit "force:panic" end
    else if starts tok "B" && not (starts tok "B?") then begin
      let strat = match tok.[1] with
        | 'a' -> M.SAll
        | 'b' -> M.SUptoBlocks (z_of_string (after tok 2))
        | _ -> M.SUptoBytes (z_of_string (after tok 2)) in
      match M.fdec_decode_blocks !dec !src strat with
      | M.ROk ((d, rest), f) -> dec := d; src := rest; emit ("B:ok:" ^ fin f)
      | M.RErr _ -> emit "B:err"
      | M.RPanic _ -> emit "B:panic" end
    else if tok = "C" then begin
      let (o, d) = M.fdec_collect !dec in
      dec := d;
      match o with Some l -> emit ("C:" ^ hex l) | None -> emit "C:none" end
    else if starts tok "R" then begin
      let (o, d) = M.fdec_read !dec (z_of_string (after tok 1)) in
      dec := d; emit ("R:" ^ hex o) end
    else if starts tok "W" then begin
      (* W<chunk>,<budget>,<mode> : collect_to_writer into a budget sink *)
      match split_on ',' (after tok 1) with
      | [c; b; m] ->
        let st = ((z_of_string c, z_of_string b), z_of_string m) in
        let (((o, d), ok), _) = M.fdec_collect_to_writer M.budget_step !dec (z_of_int 1) st in
        dec := d; emit ("W:" ^ hex o ^ ":" ^ fin ok)
      | _ -> emit "W:bad" end
    else if starts tok "F" then begin
      match split_on ',' (after tok 1) with
      | [c; t] ->
        let chunk = int_of_string c in
        let avail = List.filteri (fun i _ -> i < chunk) !src in
        (match M.fdec_decode_from_to !dec avail (z_of_string t) with
         | M.ROk ((d, read), o) ->
           dec := d;
           let r = int_of_z read in
           src := List.filteri (fun i _ -> i >= r) !src;
           emit ("F:" ^ string_of_int r ^ ":" ^ hex o)
         | M.RErr _ -> emit "F:err"
         | M.RPanic _ -> emit "F:panic")
      | _ -> emit "F:bad" end
    else if tok = "SI" then begin
      match M.fdec_reset !dec !src with
      | M.ROk ((d, rest), _) -> dec := d; src := rest; emit "I:ok"
      | M.RErr _ -> dec := M.fdec_new; emit "I:err"
      | M.RPanic _ -> dec := M.fdec_new; emit "I:panic" end
    else if tok = "SX" then ()
    else if starts tok "S" then begin
      match M.stream_read !dec !src (z_of_string (after tok 1)) with
      | M.ROk ((d, rest), o) -> dec := d; src := rest; emit ("S:" ^ hex o)
      | M.RErr _ -> emit "S:err"
      | M.RPanic _ -> emit "S:panic" end
    else if starts tok "A" then begin
      match M.fdec_decode_all !dec !src (z_of_string (after tok 1)) with
      | M.ROk (d, o) -> dec := d; src := []; emit ("A:" ^ hex o)
      | M.RErr _ -> emit "A:err"
      | M.RPanic _ -> emit "A:panic" end
    else if starts tok "B?" then begin
      if not (M.fdec_is_finished !dec) then begin
        let strat = match tok.[2] with
          | 'a' -> M.SAll
          | 'b' -> M.SUptoBlocks (z_of_string (after tok 3))
          | _ -> M.SUptoBytes (z_of_string (after tok 3)) in
        match M.fdec_decode_blocks !dec !src strat with
        | M.ROk ((d, rest), f) -> dec := d; src := rest; emit ("B:ok:" ^ fin f)
        | M.RErr _ -> emit "B:err"
        | M.RPanic _ -> emit "B:panic" end end
    else if starts tok "Z" then begin
      (* Z<mode>,<n> : drive the frame to completion in one of five styles; one token with everything delivered *)
      let mode = tok.[1] in
      let n = int_of_string (after tok 3) in
      let zn = z_of_int n in
      let acc = Buffer.create 1024 in
      let status = ref "ok" in
      let iters = ref 0 in
      let can () = int_of_z (M.fdec_can_collect !dec) in
      let add l = List.iter (fun z -> Buffer.add_char acc (Char.chr (int_of_z z))) l in
      (match mode with
       | 'r' | 'c' | 'w' ->
         while !status = "ok" && not (M.fdec_is_finished !dec && can () = 0) && !iters < 1000000 do
           incr iters;
           if not (M.fdec_is_finished !dec) then begin
             let strat = if mode = 'c' then M.SUptoBlocks (z_of_int 1) else M.SUptoBytes zn in
             match M.fdec_decode_blocks !dec !src strat with
             | M.ROk ((d, rest), _) -> dec := d; src := rest
             | M.RErr _ -> status := "err"
             | M.RPanic _ -> status := "panic" end;
           if !status = "ok" then begin
             match mode with
             | 'r' -> let (o, d) = M.fdec_read !dec zn in dec := d; add o
             | 'c' -> let (o, d) = M.fdec_collect !dec in dec := d; (match o with Some l -> add l | None -> ())
             | _ ->
               let st = ((zn, z_of_int max_int), M.Z0) in
               let (((o, d), _), _) = M.fdec_collect_to_writer M.budget_step !dec (z_of_int 1) st in
               dec := d; add o end
         done
       | 's' ->
         let fin_ = ref false in
         while !status = "ok" && not !fin_ && !iters < 1000000 do
           incr iters;
           match M.stream_read !dec !src zn with
           | M.ROk ((d, rest), o) -> dec := d; src := rest; add o; if o = [] then fin_ := true
           | M.RErr _ -> status := "err"
           | M.RPanic _ -> status := "panic"
         done
       | _ ->
         (* decode_from_to with chunks of n source bytes; the chunk grows while a call makes no progress *)
         let c = ref (max n 1) in
         let stop = ref false in
         while !status = "ok" && not !stop && !iters < 1000000 do
           incr iters;
           let remaining = List.length !src in
           let chunk = min !c remaining in
           let avail = List.filteri (fun i _ -> i < chunk) !src in
           let fresh = (match !dec.M.fd_state with None -> true | Some _ -> false) in
           match M.fdec_decode_from_to !dec avail zn with
           | M.ROk ((d, read), o) ->
             dec := d;
             let r = int_of_z read in
             src := List.filteri (fun i _ -> i >= r) !src;
             add o;
             if r = 0 && o = [] then begin
               if M.fdec_is_finished !dec && can () = 0 then stop := true
               else if chunk >= remaining then (if not (M.fdec_is_finished !dec) then status := "stuck"; stop := true)
               else c := !c * 2 end
           | M.RErr _ -> if fresh && chunk < remaining then c := !c * 2 else status := "err"
           | M.RPanic _ -> status := "panic"
         done);
      if !iters >= 1000000 then status := "loop";
      emit ("Z:" ^ (let b = Buffer.contents acc in if b = "" then "-" else String.concat "" (List.map (fun ch -> Printf.sprintf "%02x" (Char.code ch)) (List.init (String.length b) (String.get b)))) ^ ":" ^ !status) end
    else if tok = "Q" then begin
      let d = !dec in
      let (br, blocks, ck, cs) = match d.M.fd_state with
        | None -> (M.Z0, M.Z0, None, M.Z0)
        | Some s -> (s.M.fr_bytes_read, s.M.fr_blocks, s.M.fr_checksum, s.M.fr_header.M.fh_fcs) in
      emit (Printf.sprintf "Q:%s:%s:%s:%s:%s:%s:%d" (z_to_string br) (fin (M.fdec_is_finished d))
              (z_to_string (M.fdec_can_collect d))
              (match ck with Some c -> z_to_string c | None -> "-1") (z_to_string cs) (z_to_string blocks)
              (List.length !src)) end
    else if tok = "K" then emit ("K:" ^ hex (M.fdec_hashed !dec))
    else emit ("?" ^ tok)) toks;
  Buffer.contents out

(* ---- table dumps ---- *)
let fse_line line =
  match split_on ' ' line with
  | [maxsym; maxlog; h] ->
    (match M.fse_build_decoder (M.fse_new (z_of_string maxsym)) (unhex h) (z_of_string maxlog) with
     | M.ROk (t, used) ->
       let b = Buffer.create 256 in
       Buffer.add_string b (Printf.sprintf "ok %s %s" (z_to_string used) (z_to_string t.M.t_acc_log));
       List.iter (fun e -> Buffer.add_string b (Printf.sprintf " %s,%s,%s" (z_to_string e.M.e_sym) (z_to_string e.M.e_bits) (z_to_string e.M.e_base))) t.M.t_decode;
       Buffer.contents b
     | M.RErr _ -> "err"
     | M.RPanic _ -> "panic")
  | _ -> "bad"

let huf_line line =
  match M.huf_build_decoder M.huf_new (unhex (String.trim line)) with
  | M.ROk (t, used) ->
    let b = Buffer.create 256 in
    Buffer.add_string b (Printf.sprintf "ok %s %s" (z_to_string used) (z_to_string t.M.ht_max_bits));
    List.iter (fun e -> Buffer.add_string b (Printf.sprintf " %s,%s" (z_to_string e.M.h_sym) (z_to_string e.M.h_bits))) t.M.ht_decode;
    Buffer.contents b
  | M.RErr _ -> "err"
  | M.RPanic _ -> "panic"


(* ---- built-in match finder ---- *)
let rec nat_of_int n = if n <= 0 then M.O else M.S (nat_of_int (n - 1))
let rec int_of_nat = function M.O -> 0 | M.S k -> 1 + int_of_nat k
let matcher_line line =
  match List.filter (fun x -> x <> "") (split_on ' ' line) with
  | slice :: slices :: ops ->
    let d = ref (M.mgd_new (nat_of_int (int_of_string slice)) (nat_of_int (int_of_string slices))) in
    let out = Buffer.create 256 in
    Buffer.add_string out ("w:" ^ z_to_string (M.mgd_window_size !d));
    let stop = ref false in
    List.iter (fun op -> if not !stop then begin
      let c = if op.[0] = 'C' then 'c' else op.[0] in
      let emit s = Buffer.add_char out ' '; Buffer.add_string out s in
      let panic () = emit (String.make 1 c ^ ":panic"); stop := true in
      if c = 'c' then (match M.commit_space !d (unhex (after op 1)) with
        | M.ROk d' -> d := d'; emit "c:ok" | _ -> panic ())
      else if c = 'm' then (match M.mgd_start !d with
        | M.ROk (sq, d') -> d := d';
          let f = function
            | M.MLit l -> "L" ^ hex l
            | M.MTriple (l, o, n) -> Printf.sprintf "T%s,%d,%d" (hex l) (int_of_nat o) (int_of_nat n) in
          emit ("m:" ^ (if sq = [] then "-" else String.concat ";" (List.map f sq)))
        | _ -> panic ())
      else if c = 'k' then (match M.mgd_skip !d with M.ROk d' -> d := d'; emit "k:ok" | _ -> panic ())
      else if c = 'g' then (match (!d).M.md_gen.M.mg_win with e0 :: _ -> emit ("g:" ^ hex e0.M.we_data) | [] -> panic ())
      else begin d := M.mgd_reset !d; emit "r:ok" end end) ops;
    Buffer.contents out
  | _ -> "bad"

(* ---- frame-level compressor model: frame <level 0|1> <slice> <window> <ck-hex|-> <bodies ';'|-> <data-hex> [script ','] ---- *)
let frame_line line =
  match List.filter (fun x -> x <> "") (split_on ' ' line) with
  | lv :: slice :: wsize :: ck :: bodies :: data :: rest ->
    let level = if lv = "0" then M.LUncompressed else M.LFastest in
    let ckv = if ck = "-" then None else Some (unhex ck) in
    let bl = if bodies = "-" then [] else List.map unhex (split_on ';' bodies) in
    let script = match rest with [] -> [] | s :: _ -> List.map (fun x -> nat_of_int (int_of_string x)) (split_on ',' s) in
    (match M.compress_frame_oracle level (nat_of_int (int_of_string slice)) (z_of_string wsize) ckv bl (unhex data) script with
     | M.ROk out -> "ok " ^ hex out
     | M.RErr _ -> "err"
     | M.RPanic _ -> "panic")
  | _ -> "bad"

(* ---- the crate's own I/O layer: io rx|take|wa ... (same lines as harness18) ---- *)
let rec repeat_n x n = if n <= 0 then [] else x :: repeat_n x (n - 1)
let io_line line =
  match List.filter (fun x -> x <> "") (split_on ' ' line) with
  | ["rx"; need; chunk; data] ->
    let need = int_of_string need and chunk = int_of_string chunk and d = unhex data in
    let script = if chunk = 0 then [] else repeat_n (M.RChunk (nat_of_int (chunk - 1))) (need + 2) in
    let r = { M.sr_data = d; M.sr_script = script } in
    let ((got, err), r') = M.io_read_exact (nat_of_int (2 * need + 8)) r (nat_of_int need) [] in
    let pad = repeat_n (z_of_int 0xEE) (need - List.length got) in
    Printf.sprintf "%s %s consumed=%d" (match err with None -> "ok" | Some _ -> "err") (hex (got @ pad))
      (List.length d - List.length r'.M.sr_data)
  | ["take"; limit; chunk; bufsize; data] ->
    let chunk = int_of_string chunk and bufsize = max 1 (int_of_string bufsize) and d = unhex data in
    let script = if chunk = 0 then [] else repeat_n (M.RChunk (nat_of_int (chunk - 1))) (List.length d + 4) in
    let t = ref { M.tk_inner = { M.sr_data = d; M.sr_script = script }; M.tk_limit = z_of_string limit } in
    let out = ref [] and calls = ref 0 and go = ref true in
    while !go do
      (match M.io_take_read !t (nat_of_int bufsize) with
       | (M.Inl [], t') -> t := t'; go := false
       | (M.Inl bytes, t') -> t := t'; out := !out @ bytes; incr calls
       | (M.Inr _, t') -> t := t'; go := false)
    done;
    Printf.sprintf "ok %s limit=%s consumed=%d calls=%d" (hex !out) (z_to_string (!t).M.tk_limit)
      (List.length d - List.length (!t).M.tk_inner.M.sr_data) !calls
  | ["wa"; room; data] ->
    let room = int_of_string room and d = unhex data in
    let script = if room = 0 then [M.WZero] else [M.WChunk (nat_of_int (room - 1)); M.WZero] in
    let (err, w') = M.io_write_all (nat_of_int (List.length d + 8)) { M.sw_out = []; M.sw_script = script } d in
    let written = w'.M.sw_out in
    Printf.sprintf "%s %s left=%d" (match err with None -> "ok" | Some _ -> "err")
      (hex (written @ repeat_n (z_of_int 0xEE) (room - List.length written))) (room - List.length written)
  | _ -> "bad"

(* ---- reversed bit reader: both the 64-bit container machine and the abstract reader; same line format as zh bits ---- *)
let bits_line which line =
  match List.filter (fun x -> x <> "") (split_on ' ' line) with
  | src :: ops ->
    let parse op =
      if op.[0] = 'g' then M.Inl (z_of_string (after op 1))
      else (match List.map z_of_string (split_on ',' (after op 1)) with
            | [a; b; c] -> M.Inr ((a, b), c) | _ -> failwith "bad op") in
    let ops = List.map parse ops in
    let show l = String.concat " " (List.map (fun (vs, c) -> String.concat "," (List.map z_to_string vs) ^ ":" ^ z_to_string c) l) in
    if which = 0 then
      (match M.brr_run (M.brr_new (unhex src)) ops with M.ROk l -> show l | _ -> "panic")
    else show (M.rbr_run (M.rbr_new (unhex src)) ops)
  | _ -> "bad"

(* ---- sequences section: decode with the model, encode again with the model of the compressor's stream ---- *)
let seqenc_line line =
  match List.filter (fun x -> x <> "") (split_on ' ' line) with
  | [nseq; modes; src] ->
    (match M.decode_reencode (z_of_string nseq) (z_of_string modes) (unhex src) with
     | M.ROk ((seqs, orig), again) -> Printf.sprintf "ok %d %s %s" (List.length seqs) (hex orig) (hex again)
     | M.RErr _ -> "err"
     | M.RPanic _ -> "panic")
  | _ -> "bad"

(* seqsection <nseq> <src-hex> : decode a section (mode byte 0xA8), write it again from the decoded distributions and
   sequences; prints whether the side conditions of the section theorem hold and the rewritten bytes *)
let seqsection_line line =
  match List.filter (fun x -> x <> "") (split_on ' ' line) with
  | [nseq; src] ->
    (match M.decode_rewrite_section (z_of_string nseq) (unhex src) with
     | M.ROk (h, again) -> Printf.sprintf "ok %s %s" (if h then "1" else "0") (hex again)
     | M.RErr _ -> "err"
     | M.RPanic _ -> "panic")
  | _ -> "bad"

(* rawblock <body-hex> : a compressed block body with raw literals, taken apart by the decoder model and written again *)
let rawblock_line line =
  match M.rewrite_raw_block (unhex (String.trim line)) with
  | M.ROk (h, again) -> Printf.sprintf "ok %s %s" (if h then "1" else "0") (hex again)
  | M.RErr _ -> "err"
  | M.RPanic _ -> "panic"

(* fsenorm <max_log> <avoid 0|1> <c0,c1,...> : the normaliser model *)
let fsenorm_line line =
  match List.filter (fun x -> x <> "") (split_on ' ' line) with
  | [ml; av; cs] ->
    (match M.norm_counts (List.map z_of_string (split_on ',' cs)) (z_of_string ml) (av <> "0") with
     | M.ROk (al, probs) -> Printf.sprintf "ok %s %s" (z_to_string al) (String.concat "," (List.map z_to_string probs))
     | M.RErr _ -> "err"
     | M.RPanic _ -> "panic")
  | _ -> "bad"

(* blocks <body-hex> ... : the compressed blocks of one frame in order; each is taken apart by the decoder model
   (carrying the Huffman table along) and written again by the encoder models; per block: side conditions, identical *)
let blocks_line line =
  let bodies = List.map unhex (List.filter (fun x -> x <> "") (split_on ' ' line)) in
  match M.rewrite_blocks M.huf_new bodies with
  | M.ROk rs -> "ok " ^ String.concat " " (List.map (fun (h, e) -> (if h then "1" else "0") ^ (if e then "1" else "0")) rs)
  | M.RErr _ -> "err"
  | M.RPanic _ -> "panic"

(* fastblock <window> <data-hex> <body-hex> : match finder model on the data, compress_block's split, the block model;
   distributions taken from the real body *)
let fastblock_line line =
  match List.filter (fun x -> x <> "") (split_on ' ' line) with
  | [w; data; body] ->
    (match M.fastest_first_block (nat_of_int (int_of_string w)) (unhex data) (unhex body) with
     | M.ROk (h, again) -> Printf.sprintf "ok %s %s" (if h then "1" else "0") (hex again)
     | M.RErr _ -> "err"
     | M.RPanic _ -> "panic")
  | _ -> "bad"

(* ---- Huffman literal stream: hufstream <c,n c,n ...|-> <data-hex> ; hufdec <encoded-hex> ---- *)
let hufstream_line line =
  match List.filter (fun x -> x <> "") (split_on ' ' line) with
  | data :: codes ->
    let cs = List.map (fun c -> match split_on ',' c with [a; b] -> (z_of_string a, nat_of_int (int_of_string b)) | _ -> failwith "bad") codes in
    "ok " ^ hex (M.huf_stream_model cs (unhex data))
  | _ -> "bad"
let hufdec_line line =
  match M.huf_describe_and_decode (unhex (String.trim line)) with
  | M.ROk (used, out) -> Printf.sprintf "ok %s %s" (z_to_string used) (hex out)
  | M.RErr _ -> "err"
  | M.RPanic _ -> "panic"

(* fsedesc <acc_log> <p0,p1,..> : the table description the model writes, whether the distribution is normalised,
   and what the model's reader makes of the description followed by one byte *)
let fsedesc_line line =
  match List.filter (fun x -> x <> "") (split_on ' ' line) with
  | [al; ps] ->
    let al = z_of_string al in
    let probs = List.map z_of_string (split_on ',' ps) in
    let okb = if M.dist_okb al probs then "1" else "0" in
    (match M.desc_bytes al probs with
     | None -> Printf.sprintf "none %s" okb
     | Some d ->
       let back = match M.read_probabilities (z_of_string "255") (d @ [z_of_string "1"]) (z_of_string "9") with
         | M.ROk ((a, pr), used) -> Printf.sprintf "%s %s %s" (z_to_string a) (String.concat "," (List.map z_to_string pr)) (z_to_string used)
         | M.RErr _ -> "err" | M.RPanic _ -> "panic" in
       Printf.sprintf "ok %s %s %s" (hex d) okb back)
  | _ -> "bad"

(* hufweights <hex real description+stream> <hex weights> : the model reads the description, writes the two-state stream
   again and decodes the whole: prints used, the model's stream, the weights read back *)
let hufweights_line line =
  match List.filter (fun x -> x <> "") (split_on ' ' line) with
  | [real; data] ->
    (match M.weights_rewrite (unhex real) (unhex data) with
     | M.ROk ((used, stream), ws) -> Printf.sprintf "ok %s %s %s" (z_to_string used) (hex stream) (hex ws)
     | M.RErr _ -> "err" | M.RPanic _ -> "panic")
  | _ -> "bad"

(* hufcounts <c0,c1,...> : the model of build_from_counts: weights by rank, then the canonical codes *)
let hufcounts_line line =
  let counts = List.map z_of_string (split_on ',' (String.trim line)) in
  match M.weights_from_counts counts, M.build_from_counts counts with
  | M.ROk ws, M.ROk codes ->
    Printf.sprintf "ok %s | %s" (String.concat "," (List.map z_to_string ws))
      (String.concat " " (List.map (fun (c, n) -> z_to_string c ^ "," ^ z_to_string n) codes))
  | M.RPanic _, _ | _, M.RPanic _ -> "panic"
  | _ -> "err"

(* litchain <R|W|body-hex> ... : the blocks of one frame written at level Fastest, in order (R: RLE block, W: block stored
   raw); per compressed block: does the model of the literals part write the literals section of the real block, and the
   literals type *)
let litchain_line line =
  let items = List.map (fun x -> if x = "R" then M.BRle else if x = "W" then M.BRaw else M.BComp (unhex x))
      (List.filter (fun x -> x <> "") (split_on ' ' line)) in
  match M.lit_chain M.huf_new None items with
  | M.ROk rs -> "ok " ^ String.concat " " (List.map (fun ((same, ty), hdr) -> (if same then "1" else "0") ^ z_to_string ty ^ (if same then "" else ":" ^ hex hdr)) rs)
  | M.RErr _ -> "err"
  | M.RPanic _ -> "panic"

let () =
  let cmd = if Array.length Sys.argv > 1 then Sys.argv.(1) else "" in
  let f = match cmd with
    | "prog" -> run_prog
    | "fse" -> fse_line
    | "huf" -> huf_line
    | "matcher" -> matcher_line
    | "frame" -> frame_line
    | "io" -> io_line
    | "seqenc" -> seqenc_line
    | "seqsection" -> seqsection_line
    | "rawblock" -> rawblock_line
    | "blocks" -> blocks_line
    | "fsenorm" -> fsenorm_line
    | "fastblock" -> fastblock_line
    | "hufstream" -> hufstream_line
    | "hufdec" -> hufdec_line
    | "fsedesc" -> fsedesc_line
    | "hufweights" -> hufweights_line
    | "hufcounts" -> hufcounts_line
    | "litchain" -> litchain_line
    | "bits64" -> bits_line 0
    | "bitsabs" -> bits_line 1
    | _ -> prerr_endline "usage: driver <prog|fse|huf> < cases"; exit 2 in
  (try
    while true do
      let line = input_line stdin in
      let line = String.trim line in
      if line <> "" && line.[0] <> '#' then begin
        let r = try f line with Stack_overflow -> "stackoverflow" in
        print_string r; print_newline () end
    done
  with End_of_file -> ())
