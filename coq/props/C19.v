(** Property C19 -- command-line compress then decompress restores the file.
    The end-to-end statement about files is decided by running the built binary (the property's observation point);
    what is a theorem here is the decision logic the tool adds on top of the library, modelled in coq/model/Cli.v and
    tied to the binary by an exhaustive run over all 256 values of the level option and its absence. The library round
    trip underneath is C02 (level Uncompressed: unconditional theorem). *)
Require Import Zrs.lib.RsPrelude Zrs.model.FrameEnc Zrs.model.Cli Zrs.proofs.C19_Cli.
Require Import Ascii.
Open Scope Z_scope.

Theorem C19_level_absent_is_implemented : cli_map_level None = CliLevel LFastest.
Proof. exact level_absent_is_implemented. Qed.

Theorem C19_level_mapping : forall l, cli_map_level (Some l) =
  if l =? 0 then CliLevel LUncompressed else if l =? 1 then CliLevel LFastest else CliRefuse.
Proof. exact level_spec. Qed.

Theorem C19_every_option_maps_or_is_refused : forall opt, (exists l, cli_map_level opt = CliLevel l) \/ cli_map_level opt = CliRefuse.
Proof. exact level_total. Qed.

Theorem C19_refusal_creates_no_output : forall opt ex,
  In EvFail (cli_compress_events opt ex) -> ~ In EvCreateOutput (cli_compress_events opt ex).
Proof. exact refusal_creates_nothing. Qed.

Theorem C19_default_names_roundtrip : forall name, name <> [] -> file_stem (add_extension name zst_ext) = name.
Proof. exact default_names_roundtrip. Qed.

Print Assumptions C19_level_absent_is_implemented.
Print Assumptions C19_level_mapping.
Print Assumptions C19_every_option_maps_or_is_refused.
Print Assumptions C19_refusal_creates_no_output.
Print Assumptions C19_default_names_roundtrip.
