(** Property C17 -- the built-in match finder reports only true, in-window matches that tile the block.
    Model: coq/model/Matcher.v (SuffixStore, MatchGenerator, the pooling driver; every panicking slice expression of
    the Rust code is an explicit panic value).  Histories are lists of [OpBlock data skip] (commit_space followed by
    start_matching or skip_matching) and [OpReset], on a driver created with any slice size and slice count.
    [apply_seqs H seqs = Some (H ++ data)] says: starting from the retained bytes [H], appending each sequence's literals
    and then copying [len] bytes from distance [off] with the DECODER's copy function ([lz_copy], model/BlockDec.v)
    yields exactly [H ++ data] -- i.e. literal runs and matches tile the block, and every match equals the bytes at its
    distance for its whole length ([C17_copied_bytes_equal_bytes_at_distance] spells that out) -- and [apply_seq]
    refuses any distance larger than the bytes before the match.  Nothing depends on the hash function. *)
Require Import Zrs.lib.RsPrelude Zrs.model.BlockDec Zrs.model.Matcher Zrs.proofs.C17_Matcher Zrs.proofs.C17_Shape Zrs.model.MatcherChunks Zrs.proofs.C17_Chunks.
Open Scope nat_scope.

Theorem C17_all_histories : forall slice_size slices ops,
  Forall (op_fits (slices * slice_size)) ops -> mrun_good (mgd_new slice_size slices) ops.
Proof.
  intros s n ops H. destruct (mgd_new_inv s n) as (HI & Hm & _). apply mrun_spec; [exact HI|]. rewrite Hm. exact H.
Qed.

Theorem C17_every_step : forall d op, DInv d -> op_fits (max_window d) op ->
  exists d' out, mstep d op = ROk (d', out) /\ DInv d' /\ step_good d op d' out.
Proof. exact mstep_spec. Qed.

(** unfolded for one matched block: no panic, the retained data is a suffix of the old retained data plus the block,
    it fits the advertised window, the sequences rebuild the block, distances and lengths are in range *)
Theorem C17_block : forall d data, DInv d -> length data <= max_window d ->
  exists d' seqs dropped H,
    mstep d (OpBlock data false) = ROk (d', Some seqs) /\
    retained d = dropped ++ H /\ retained d' = H ++ data /\ length H + length data <= max_window d /\
    apply_seqs H seqs = Some (H ++ data) /\
    Forall (seq_bounds (max_window d)) seqs /\ Z.of_nat (max_window d) = mgd_window_size d.
Proof.
  intros d data HI Hf. destruct (mstep_spec d (OpBlock data false) HI Hf) as (d' & out & E & _ & _ & dr & H & R1 & R2 & R3 & seqs & -> & A & B).
  exists d', seqs, dr, H. repeat split; assumption.
Qed.

Theorem C17_copied_bytes_equal_bytes_at_distance : forall n off r i, 1 <= off -> i < n ->
  nth i (lz_copy n off r) 0%Z = nth (i + off) (lz_copy n off r) 0%Z.
Proof. exact lz_copy_pointwise. Qed.

Theorem C17_invariant_preserved_by_matching : forall st e0 older,
  MInv st -> mg_win st = e0 :: older -> mg_last st = mg_sidx st ->
  exists seqs st', start_matching st = ROk (seqs, st') /\ MInv st' /\ same_frame st st' /\
    apply_seqs (older_fwd older ++ firstn (mg_last st) (we_data e0)) seqs = Some (older_fwd older ++ we_data e0) /\
    Forall (seq_bounds (mg_wsize st)) seqs /\
    mg_sidx st' = length (we_data e0) /\ mg_last st' = length (we_data e0).
Proof. exact start_matching_spec. Qed.

(** non-vacuity: a concrete history with eviction in which matches into an older block are reported *)
Example C17_non_vacuous :
  let b1 := [1; 2; 3; 4; 5; 6; 7; 8]%Z in
  match mstep (mgd_new 8 2) (OpBlock b1 false) with
  | ROk (d1, _) =>
      match mstep d1 (OpBlock [9; 1; 2; 3; 4; 5; 6; 9]%Z false) with
      | ROk (_, Some seqs) => seqs = [MTriple [9%Z] 9 6; MLit [9%Z]]
      | _ => False
      end
  | _ => False
  end.
Proof. vm_compute. reflexivity. Qed.

(** the shape of one block's report: matches (each with the literals before it), then at most one trailing literal run
    -- the block encoder relies on it when it gathers all literals into one buffer *)
Theorem C17_block_report_shape : forall d data d' seqs,
  mstep d (OpBlock data false) = ROk (d', Some seqs) ->
  exists ts tail, seqs = ts ++ tail /\ Forall is_triple ts /\ (tail = [] \/ exists l, tail = [MLit l]).
Proof. exact mstep_block_shape. Qed.


(** the source's [common_prefix_len] compares 8-byte chunks first ([mismatch_chunks::<8>], model/MatcherChunks.v) and
    then single bytes; for every chunk length and all slices that is the byte-wise common-prefix length the matcher
    model (and every theorem above) uses *)
Theorem C17_chunked_compare_is_the_common_prefix_length : forall N xs ys, 0 < N ->
  mismatch_chunks N xs ys = common_prefix xs ys.
Proof. exact mismatch_chunks_is_common_prefix. Qed.

Theorem C17_common_prefix_len_of_the_source : forall a b, common_prefix_len a b = common_prefix a b.
Proof. exact common_prefix_len_is_common_prefix. Qed.

(** the fuel of [equal_chunks] (the slice length) never cuts the count short, and the counted chunks lie inside the slice *)
Theorem C17_chunk_count_not_cut_by_fuel : forall N fuel xs ys, 0 < N -> length xs <= fuel ->
  equal_chunks N fuel xs ys = equal_chunks N (S fuel) xs ys /\ equal_chunks N fuel xs ys * N <= length xs.
Proof. intros N fuel xs ys HN Hl. split; [apply fuel_enough; assumption|apply equal_chunks_le; exact HN]. Qed.

Print Assumptions C17_block_report_shape.
Print Assumptions C17_chunked_compare_is_the_common_prefix_length.
Print Assumptions C17_common_prefix_len_of_the_source.
Print Assumptions C17_chunk_count_not_cut_by_fuel.
Print Assumptions C17_all_histories.
Print Assumptions C17_every_step.
Print Assumptions C17_block.
Print Assumptions C17_copied_bytes_equal_bytes_at_distance.
Print Assumptions C17_invariant_preserved_by_matching.
