(** Property C11 -- frames declaring a window above the configured limit are rejected up front.
    Window arithmetic, the limit comparison and the clamp are the definitions GENERATED from the source (frame.rs,
    frame_decoder.rs); the surrounding initialisation is the hand model FrameDec.fdec_reset. *)
Require Import Zrs.lib.RsPrelude Zrs.gen.Generated Zrs.model.Headers Zrs.model.BlockDec Zrs.model.FrameDec.
Require Import Zrs.proofs.C14_Headers Zrs.proofs.C05_Block Zrs.proofs.C11_Reset.
Open Scope Z_scope.

Theorem C11_rejects_above_limit : forall d src h n w,
  read_frame_header src = FhOk h n -> fh_window_size h = ROk w -> fd_max_window d < w ->
  fdec_reset d src = RErr "WindowSizeTooBig".
Proof. exact reset_rejects_large_window. Qed.

Theorem C11_accepts_up_to_limit : forall d src h n w,
  read_frame_header src = FhOk h n -> fh_window_size h = ROk w -> w <= fd_max_window d -> fh_dict_id h = None ->
  exists d' evs, fdec_reset d src = ROk (d', drop_z n src, evs) /\
    (evs = [EvHeader; EvWindowOk w] \/ evs = [EvHeader; EvWindowOk w; EvReserve w]).
Proof. exact reset_accepts_window. Qed.

Theorem C11_illegal_window_refused : forall d src h n e,
  read_frame_header src = FhOk h n -> fh_window_size h = RErr e -> fdec_reset d src = RErr e.
Proof. exact reset_rejects_illegal_window. Qed.

(** first frame and every later frame: same verdict *)
Theorem C11_same_on_reuse : forall d1 d2 src,
  fd_max_window d1 = fd_max_window d2 -> fd_dicts d1 = fd_dicts d2 ->
  is_ok (fdec_reset d1 src) = is_ok (fdec_reset d2 src).
Proof. exact reset_verdict_independent_of_history. Qed.

Theorem C11_limit_clamped : forall d m, fd_max_window (fdec_set_max_window d m) = Z.min m MAX_WINDOW_SIZE.
Proof. exact max_window_clamped. Qed.
Theorem C11_default_limit : fd_max_window fdec_new = 128 * 1024 * 1024.
Proof. exact default_max_window. Qed.

(** every window descriptor is legal and means the RFC formula; a single-segment frame's window is its content size *)
Theorem C11_window_of_descriptor : forall wd d fcs, 0 <= wd < 256 ->
  window_size wd d fcs = if single_segment_flag d then ROk fcs else ROk (spec_window wd).
Proof. exact window_size_spec. Qed.

(** whatever was accepted has a window within the limit *)
Theorem C11_accepted_window_within_limit : forall d src d' rest evs,
  bytes_ok src = true -> Forall dict_ok (fd_dicts d) -> fdec_reset d src = ROk (d', rest, evs) ->
  exists s, fd_state d' = Some s /\ fh_window_size (fr_header s) = ROk (db_window (st_buf s)) /\
            db_window (st_buf s) <= fd_max_window d.
Proof. exact accepted_window_within_limit. Qed.

Print Assumptions C11_rejects_above_limit.
Print Assumptions C11_accepts_up_to_limit.
Print Assumptions C11_illegal_window_refused.
Print Assumptions C11_same_on_reuse.
Print Assumptions C11_limit_clamped.
Print Assumptions C11_default_limit.
Print Assumptions C11_window_of_descriptor.
Print Assumptions C11_accepted_window_within_limit.
