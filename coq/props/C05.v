(** Property C05 -- decoder memory is bounded by the window limit plus one block, for any input.
    Model: coq/model/{BlockDec,FrameDec}.v (the extracted model is compared with the implementation on every run).
    The statements are about ANY byte string as input; [st_ok] is the invariant "buffer length field = buffer length,
    offset history is three non-negative numbers", established by every successful reset ([C05_reset_establishes]). *)
Require Import Zrs.lib.RsPrelude Zrs.gen.Generated Zrs.model.Headers Zrs.model.BlockDec Zrs.model.FrameDec.
Require Import Zrs.proofs.C06_Drain Zrs.proofs.C05_Block Zrs.proofs.C06_Frame Zrs.proofs.C11_Reset.
Open Scope Z_scope.

(** one block -- of any type, with any content -- adds at most 128 KiB to the buffer or is rejected *)
Theorem C05_block_growth_le_128K : forall ty dsize csize sc src sc' n rest,
  scratch_ok sc -> 0 <= dsize <= MAX_BLOCK_SIZE -> 0 <= csize ->
  decode_block_content ty dsize csize sc src = ROk (sc', n, rest) ->
  scratch_ok sc' /\ db_same_meta (sc_buf sc) (sc_buf sc') /\
  0 <= db_len (sc_buf sc') - db_len (sc_buf sc) <= MAX_BLOCK_SIZE /\
  0 <= n /\ exists c, src = c ++ rest /\ Z.of_nat (length c) = n.
Proof. exact decode_block_content_inv. Qed.

(** ... in particular a compressed block whose literals or sequences would regenerate more is refused (F1) *)
Theorem C05_compressed_block_growth : forall content_size sc raw sc',
  scratch_ok sc -> decompress_block content_size sc raw = ROk sc' ->
  scratch_ok sc' /\ db_same_meta (sc_buf sc) (sc_buf sc') /\
  0 <= db_len (sc_buf sc') - db_len (sc_buf sc) <= MAX_BLOCK_SIZE.
Proof. exact decompress_block_inv. Qed.

(** the sizes a block header can announce are at most 128 KiB *)
Theorem C05_header_sizes : forall b0 b1 b2 last ty dsize csize,
  0 <= b0 < 256 -> 0 <= b1 < 256 -> 0 <= b2 < 256 ->
  read_block_header b0 b1 b2 = ROk (last, ty, dsize, csize) ->
  0 <= dsize <= MAX_BLOCK_SIZE /\ 0 <= csize <= MAX_BLOCK_SIZE /\ 0 <= ty <= 2.
Proof. exact read_block_header_sizes. Qed.

(** decode_blocks with a byte or block budget: the buffer holds at most what it held, plus the budget, plus one block *)
Theorem C05_decode_blocks_bound : forall d src strat d' rest fin s,
  fd_state d = Some s -> st_ok s -> bytes_ok src = true ->
  fdec_decode_blocks d src strat = ROk (d', rest, fin) ->
  exists s', fd_state d' = Some s' /\ st_ok s' /\ fd_dicts d' = fd_dicts d /\ fd_max_window d' = fd_max_window d /\
    db_same_meta (st_buf s) (st_buf s') /\ fr_header s' = fr_header s /\
    fr_bytes_read s' - fr_bytes_read s = Z.of_nat (length src) - Z.of_nat (length rest) /\
    (strat <> SAll -> db_len (st_buf s') <= db_len (st_buf s) + budget strat + MAX_BLOCK_SIZE) /\
    db_len (st_buf s) <= db_len (st_buf s').
Proof. exact decode_blocks_spec. Qed.

(** draining while the frame is unfinished retains only the window *)
Theorem C05_read_retains_window_only : forall b n, db_wf b -> 0 <= n ->
  let '(out, b') := db_read b n in Z.min (db_window b) (db_len b) <= db_len b'.
Proof. exact db_read_retains. Qed.

(** every successful initialisation establishes the invariant, with an empty buffer and a window within the limit *)
Theorem C05_reset_establishes : forall d src d' rest evs,
  bytes_ok src = true -> Forall dict_ok (fd_dicts d) ->
  fdec_reset d src = ROk (d', rest, evs) ->
  exists s hd, fd_state d' = Some s /\ st_ok s /\ src = hd ++ rest /\ fr_bytes_read s = Z.of_nat (length hd) /\
    db_rev (st_buf s) = [] /\ db_hashed_rev (st_buf s) = [] /\ 0 <= db_window (st_buf s) /\
    fr_finished s = false /\ fr_blocks s = 0 /\ fr_checksum s = None /\
    fd_dicts d' = fd_dicts d /\ fd_max_window d' = fd_max_window d /\
    fh_window_size (fr_header s) = ROk (db_window (st_buf s)) /\ db_window (st_buf s) <= fd_max_window d.
Proof. exact fdec_reset_spec. Qed.

Theorem C05_max_block_size : MAX_BLOCK_SIZE = 131072.
Proof. exact max_block_size_val. Qed.

Print Assumptions C05_block_growth_le_128K.
Print Assumptions C05_compressed_block_growth.
Print Assumptions C05_header_sizes.
Print Assumptions C05_decode_blocks_bound.
Print Assumptions C05_read_retains_window_only.
Print Assumptions C05_reset_establishes.
Print Assumptions C05_max_block_size.
