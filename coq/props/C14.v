(** Property C14 -- sequence codes, repeat-offset rules and section headers match the specification.
    This file holds statements only; every proof is [exact <lemma>].  Definitions named below without a prefix
    come from [Zrs.gen.Generated], i.e. they are what tools/rs2v.py reads out of /repo *on this run*. *)
Require Import Zrs.lib.RsPrelude Zrs.gen.RefTables Zrs.gen.Generated.
Require Import Zrs.proofs.C14_Tables Zrs.proofs.C14_Headers.
Open Scope Z_scope.

(** decoder code tables = libzstd's LL_base/LL_bits, ML_base/ML_bits, for every code *)
Theorem C14_ll_table_eq_ref : forall c, 0 <= c <= 35 ->
  lookup_ll_code c = ROk (znth ref_LL_base c, znth ref_LL_bits c).
Proof. exact ll_table_eq_ref. Qed.
Theorem C14_ml_table_eq_ref : forall c, 0 <= c <= 52 ->
  lookup_ml_code c = ROk (znth ref_ML_base c, znth ref_ML_bits c).
Proof. exact ml_table_eq_ref. Qed.

(** encoder and decoder mappings are mutual inverses over the whole value range *)
Theorem C14_ll_roundtrip : forall v, 0 <= v <= 131071 ->
  exists c a n b, encode_literal_length v = ROk (c, a, n) /\ lookup_ll_code c = ROk (b, n) /\
                  0 <= c <= 35 /\ 0 <= a < 2 ^ n /\ b + a = v /\ encode_literal_length_safe v = true.
Proof. exact ll_roundtrip. Qed.
Theorem C14_ll_roundtrip_conv : forall c b n a, 0 <= c <= 35 -> lookup_ll_code c = ROk (b, n) -> 0 <= a < 2 ^ n ->
  encode_literal_length (b + a) = ROk (c, a, n).
Proof. exact ll_roundtrip_conv. Qed.
Theorem C14_ml_roundtrip : forall v, 3 <= v <= 131074 ->
  exists c a n b, encode_match_len v = ROk (c, a, n) /\ lookup_ml_code c = ROk (b, n) /\
                  0 <= c <= 52 /\ 0 <= a < 2 ^ n /\ b + a = v /\ encode_match_len_safe v = true.
Proof. exact ml_roundtrip. Qed.
Theorem C14_ml_roundtrip_conv : forall c b n a, 0 <= c <= 52 -> lookup_ml_code c = ROk (b, n) -> 0 <= a < 2 ^ n ->
  encode_match_len (b + a) = ROk (c, a, n).
Proof. exact ml_roundtrip_conv. Qed.

(** offsets: value = 2^code + extra, code = number of extra bits, for every offset value of the u32 range *)
Theorem C14_of_roundtrip : forall v, 1 <= v < 2 ^ 32 ->
  let '(c, a, n) := encode_offset v in
  c = n /\ 0 <= c <= 31 /\ 0 <= a < 2 ^ c /\ 2 ^ c + a = v /\ encode_offset_safe v = true.
Proof. exact encode_offset_spec. Qed.
Theorem C14_of_roundtrip_conv : forall c a, 0 <= c <= 31 -> 0 <= a < 2 ^ c -> encode_offset (2 ^ c + a) = (c, a, c).
Proof. exact encode_offset_conv. Qed.

(** repeat-offset history: the RFC's table, for every offset value, both literal-length cases, every history *)
Theorem C14_offset_history_spec : forall ov ll h1 h2 h3, 1 <= ov -> 0 <= ll -> 1 <= h1 ->
  do_offset_history ov ll [h1; h2; h3] = spec_offset_history ov ll h1 h2 h3.
Proof. exact offset_history_spec. Qed.
Theorem C14_offset_history_no_overflow : forall ov ll h1 h2 h3,
  1 <= ov < 2 ^ 32 -> 0 <= ll -> 0 <= h1 < 2 ^ 32 -> do_offset_history_safe ov ll [h1; h2; h3] = true.
Proof. exact offset_history_safe. Qed.

(** sequence counts: every count the compressor can write is read back (this is the statement finding F3 broke) *)
Theorem C14_seqnum_roundtrip : forall n, 1 <= n <= 98047 ->
  exists bytes, encode_seqnum n [] = ROk (tt, bytes) /\ bytes_ok bytes = true /\
    sequences_header_parse 0 None (bytes ++ [228]) = ROk (Z.of_nat (length bytes) + 1, n, Some 228) /\
    encode_seqnum_safe n [] = true.
Proof. exact seqnum_roundtrip. Qed.
(** ... and every byte pattern means what the RFC says *)
Theorem C14_seq_header_parse_spec : forall src, bytes_ok src = true ->
  sequences_header_parse 0 None src =
  match spec_seq_header src with Some r => ROk r | None => RErr "NotEnoughBytes"%string end.
Proof. exact seq_header_parse_spec. Qed.

(** block headers: all 2^24 byte patterns (symbolically), serialisation round trip, refusals *)
Theorem C14_block_size_field : forall b0 b1 b2, 0 <= b0 < 256 -> 0 <= b1 < 256 -> 0 <= b2 < 256 ->
  block_content_size_unchecked b0 b1 b2 = (b0 + 256 * b1 + 65536 * b2) / 8.
Proof. exact block_size_field. Qed.
Theorem C14_block_type_field : forall b0, 0 <= b0 < 256 -> block_type b0 = ROk ((b0 / 2) mod 4).
Proof. exact block_type_field. Qed.
Theorem C14_block_too_large_refused : forall b0 b1 b2, 0 <= b0 < 256 -> 0 <= b1 < 256 -> 0 <= b2 < 256 ->
  (b0 + 256 * b1 + 65536 * b2) / 8 > 131072 -> block_content_size b0 b1 b2 = RErr "BlockSizeTooLarge"%string.
Proof. exact block_too_large_refused. Qed.
Theorem C14_block_size_accepted : forall b0 b1 b2, 0 <= b0 < 256 -> 0 <= b1 < 256 -> 0 <= b2 < 256 ->
  (b0 + 256 * b1 + 65536 * b2) / 8 <= 131072 ->
  block_content_size b0 b1 b2 = ROk ((b0 + 256 * b1 + 65536 * b2) / 8).
Proof. exact block_size_accepted. Qed.
Theorem C14_block_header_roundtrip : forall ty size last, 0 <= ty <= 2 -> 0 <= size < 2 ^ 21 ->
  exists b0 b1 b2, block_header_serialize ty size last [] = ROk (tt, [b0; b1; b2]) /\
    0 <= b0 < 256 /\ 0 <= b1 < 256 /\ 0 <= b2 < 256 /\
    is_last b0 = last /\ block_type b0 = ROk ty /\ block_content_size_unchecked b0 b1 b2 = size.
Proof. exact block_header_roundtrip. Qed.

(** window descriptor: all 256 bytes mean the RFC formula and are all inside the legal range *)
Theorem C14_window_size_spec : forall wd d fcs, 0 <= wd < 256 ->
  window_size wd d fcs = if single_segment_flag d then ROk fcs else ROk (spec_window wd).
Proof. exact window_size_spec. Qed.
Theorem C14_window_bounds : forall wd, 0 <= wd < 256 -> 1024 <= spec_window wd <= 2 ^ 41 + 7 * 2 ^ 38.
Proof. exact window_bounds. Qed.

Print Assumptions C14_ll_table_eq_ref.
Print Assumptions C14_ml_table_eq_ref.
Print Assumptions C14_ll_roundtrip.
Print Assumptions C14_ll_roundtrip_conv.
Print Assumptions C14_ml_roundtrip.
Print Assumptions C14_ml_roundtrip_conv.
Print Assumptions C14_of_roundtrip.
Print Assumptions C14_of_roundtrip_conv.
Print Assumptions C14_offset_history_spec.
Print Assumptions C14_offset_history_no_overflow.
Print Assumptions C14_seqnum_roundtrip.
Print Assumptions C14_seq_header_parse_spec.
Print Assumptions C14_block_size_field.
Print Assumptions C14_block_type_field.
Print Assumptions C14_block_too_large_refused.
Print Assumptions C14_block_size_accepted.
Print Assumptions C14_block_header_roundtrip.
Print Assumptions C14_window_size_spec.
Print Assumptions C14_window_bounds.
