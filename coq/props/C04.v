(** Property C04 -- the unsafe output window behaves as a byte queue and never leaves its allocation.
    Statements only; proofs are [exact <lemma>].  Model: coq/model/RingBuffer.v (hand model of ringbuffer.rs, tied
    to the code by the correspondence run: states, contents and the arguments of every copy_bytes_overshooting call).
    All statements are for EVERY chunk size k >= 1 (the code uses 16 with SSE2/NEON, 8 otherwise), every state
    satisfying the documented invariants, every operand. *)
From Coq Require Import String Arith Bool Lia ZArith List.
Import ListNotations.
Require Import Zrs.model.RingBuffer.
Require Import Zrs.proofs.C04_Basics Zrs.proofs.C04_Within Zrs.proofs.C04_Append Zrs.proofs.C04_Ops Zrs.proofs.C04_Run.

(** the documented invariants hold initially *)
Theorem C04_inv_init : Inv new_rb /\ abs new_rb = [].
Proof. exact (conj new_inv new_abs). Qed.

(** one operation: either it completes, keeps the invariants and acts on the represented bytes exactly like the
    byte-queue specification [qstep]; or the Rust code panics and the operation was outside its documented
    precondition.  In particular it never faults (no out-of-bounds access, no read of a never-written cell, no
    overlapping copy_nonoverlapping), including the deliberate over-copy. *)
Theorem C04_step : forall k s o, 1 <= k -> Inv s -> op_contract o ->
  (exists s', step k s o = Done s' /\ Inv s' /\ qstep (abs s) o (abs s')) \/
  (exists e, step k s o = Panic e /\ ~ op_pre s o).
Proof. exact step_ok. Qed.

Theorem C04_step_no_fault : forall k s o, 1 <= k -> Inv s -> op_contract o -> forall e, step k s o <> Fault e.
Proof. exact step_no_fault. Qed.

(** every reachable state, by induction over arbitrary operation sequences from any state satisfying the invariants *)
Theorem C04_run : forall k ops, 1 <= k -> Forall op_contract ops -> forall s, Inv s ->
  (forall e, run k s ops <> Fault e) /\
  (forall s', run k s ops = Done s' -> Inv s' /\ qrun (abs s) ops (abs s')).
Proof. exact run_ok. Qed.

(** the unsafe function itself, under exactly its two documented requirements *)
Theorem C04_unchecked_copy : forall k s start n,
  Inv s -> 0 < cap s -> start + n <= len s -> n <= free s -> 1 <= k ->
  exists s', extend_from_within_unchecked k s start n = Done s' /\ Inv s' /\
             cap s' = cap s /\ head s' = head s /\ len s' = len s + n /\
             abs s' = abs s ++ firstn n (skipn start (abs s)).
Proof. exact within_refines. Qed.

(** the overshoot never leaves the regions it is told it owns *)
Theorem C04_overshoot_bounded : forall k sl dl n, 1 <= k -> n <= sl -> n <= dl ->
  n <= touched k sl dl n <= Nat.min sl dl.
Proof. exact touched_bounds. Qed.

(** reserve: contents preserved, room guaranteed *)
Theorem C04_reserve : forall s amount, Inv s ->
  exists s', reserve s amount = Done s' /\ Inv s' /\ abs s' = abs s /\ len s' = len s /\
             amount <= free s' /\ (0 < amount -> 0 < cap s') /\ cap s <= cap s'.
Proof. exact reserve_ok. Qed.

(** one slot always stays free *)
Theorem C04_one_slot_free : forall s, Inv s -> 0 < cap s -> len s + free s = cap s - 1.
Proof. exact len_free. Qed.

Print Assumptions C04_inv_init.
Print Assumptions C04_step.
Print Assumptions C04_step_no_fault.
Print Assumptions C04_run.
Print Assumptions C04_unchecked_copy.
Print Assumptions C04_overshoot_bounded.
Print Assumptions C04_reserve.
Print Assumptions C04_one_slot_free.

(** non-vacuity: a wrapped state with source and destination both straddling the end satisfies the hypotheses,
    and the unit-test traces of the crate (capacity 17 / 33) are instances of [run]. *)
Definition ex_ops : list op :=
  [OReserve 15; OExtend (map Z.of_nat (seq 0 10)); ODrop 8; OExtend (map Z.of_nat (seq 10 8)); OWithin 1 4].
Example C04_wrapped_instance :
  match run 16 new_rb ex_ops with
  | Done s => tail s < head s /\ abs s = [8; 9; 10; 11; 12; 13; 14; 15; 16; 17; 9; 10; 11; 12]%Z
  | _ => False
  end.
Proof. vm_compute. split; [lia|reflexivity]. Qed.
