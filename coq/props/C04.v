(** Property C04 -- placeholder until the proofs land (statements only in this file). *)
From Coq Require Import Lia.
Require Import Zrs.model.RingBuffer.
Theorem C04_new_inv : Inv new_rb.
Proof. unfold Inv, new_rb, live; cbn. repeat split; intros; try lia. Qed.
Print Assumptions C04_new_inv.
