(** Property C15 -- compressor output is structurally valid and never larger than raw framing.
    All statements are for EVERY block-level encoder ([cblock], [cskip], [cfallback], [creset] universally
    quantified): whatever compress_block returns, the frame-level code keeps these promises. *)
Require Import Zrs.lib.RsPrelude Zrs.gen.Generated Zrs.model.FrameEnc.
Require Import Zrs.proofs.C15_Frame Zrs.proofs.C02_Roundtrip.
Open Scope Z_scope.

(** the frame is never larger than the input plus 6 header bytes, 3 bytes per block (one block per started
    [slice] bytes, plus the empty final block when the length is a multiple) and the checksum *)
Theorem C15_frame_size_bound : forall (cstate : Type) cblock cskip cfallback creset lv slice wsize hash32 (cs : cstate) data script out cs' r',
  (1 <= slice)%nat -> (forall h x, hash32 = Some h -> length (h x) = 4%nat) ->
  compress_frame cstate cblock cskip cfallback creset lv slice wsize hash32 cs {| rd_data := data; rd_script := script |} = ROk (out, cs', r') ->
  (length out <= 6 + length data + 3 * (length data / slice + 1) + (if is_some hash32 then 4 else 0))%nat.
Proof. exact frame_size_bound. Qed.

(** one emitted block is at most 3 bytes larger than the data it stands for: the compressed form is used only when
    it is strictly smaller and at most 128 KiB *)
Theorem C15_block_never_larger_than_raw : forall (cstate : Type) cblock cskip cfallback lv (cs : cstate) last blk b cs',
  blk <> [] -> enc_block cstate cblock cskip cfallback lv cs last blk = ROk (b, cs') -> (length b <= 3 + length blk)%nat.
Proof. intros cstate cblock cskip cfallback. exact (enc_block_size cstate cblock cskip cfallback (fun c => c)). Qed.

(** the input is cut into blocks of exactly [slice] bytes and a final shorter (possibly empty) one: the blocks
    concatenate to the input, none exceeds [slice], there are len/slice + 1 of them *)
Theorem C15_blocks_tile_the_input : forall fuel slice data, (1 <= slice)%nat -> (length data < fuel)%nat ->
  concat (map fst (blocks_of fuel slice data)) = data /\
  length (blocks_of fuel slice data) = (length data / slice + 1)%nat /\
  Forall (fun b => (length (fst b) <= slice)%nat) (blocks_of fuel slice data).
Proof. exact blocks_of_total. Qed.

(** exactly one block carries the last-block flag, and it is the final one; all others are non-empty *)
Theorem C15_exactly_one_last_block : forall fuel slice data, (1 <= slice)%nat -> (length data < fuel)%nat ->
  exists pre blk, blocks_of fuel slice data = pre ++ [(blk, true)] /\ Forall (fun b => snd b = false /\ fst b <> []) pre.
Proof. exact blocks_of_shape. Qed.

(** the header the compressor writes is read by the decoder as: no dictionary, no content size, the checksum flag as
    configured, the window descriptor byte unchanged; the window it announces covers the requested size *)
Theorem C15_header_read_back : forall (ck : bool) (wd : Z) (rest : list Z),
  Zrs.model.Headers.read_frame_header (le_bytes 4 MAGIC_NUM ++ [(if ck then 4 else 0)] ++ [wd] ++ rest)
  = Zrs.model.Headers.FhOk {| Zrs.model.Headers.fh_desc := if ck then 4 else 0; Zrs.model.Headers.fh_wd := wd;
                              Zrs.model.Headers.fh_dict_id := None; Zrs.model.Headers.fh_fcs := 0 |} 6.
Proof. exact fh_read. Qed.

Theorem C15_window_descriptor_in_range : forall wsize, 1 <= wsize <= 2 ^ 27 ->
  exists e, 1 <= e <= 17 /\ window_descriptor wsize = e * 8.
Proof. exact window_descriptor_range. Qed.

Print Assumptions C15_frame_size_bound.
Print Assumptions C15_block_never_larger_than_raw.
Print Assumptions C15_blocks_tile_the_input.
Print Assumptions C15_exactly_one_last_block.
Print Assumptions C15_header_read_back.
Print Assumptions C15_window_descriptor_in_range.
