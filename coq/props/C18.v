(** Property C18 -- behaviour is the same with and without the std I/O layer and the hash feature.
    The crate's own I/O layer (io_nostd.rs) is modelled in coq/model/IoNoStd.v with scripted inner readers and
    writers (short reads, interruptions, failures); the theorems state the contract documented for std::io, which is
    what the std build uses.  The hash feature is a parameter of the frame-level compressor model. *)
Require Import Zrs.lib.RsPrelude Zrs.gen.Generated Zrs.model.IoNoStd Zrs.model.FrameEnc.
Require Import Zrs.proofs.C18_Io Zrs.proofs.C15_Frame.
Open Scope nat_scope.

(** io_read_exact: on success exactly the next [need] bytes were delivered and consumed; UnexpectedEof exactly when the
    source ends early (all of it was consumed); other errors only if the inner reader failed; Interrupted is never
    reported; what is in the buffer is always a prefix of the source *)
Theorem C18_read_exact_contract : forall fuel r need got got' err r',
  need + length (sr_script r) < fuel ->
  io_read_exact fuel r need got = ((got', err), r') ->
  exists k, got' = got ++ firstn k (sr_data r) /\ sr_data r' = skipn k (sr_data r) /\ k <= need /\
    match err with
    | None => k = need /\ need <= length (sr_data r)
    | Some EUnexpectedEof => k = length (sr_data r) /\ length (sr_data r) < need
    | Some EOther => In RFail (sr_script r)
    | Some _ => False
    end.
Proof. exact read_exact_spec. Qed.

Theorem C18_read_exact_succeeds : forall fuel r need got, need + length (sr_script r) < fuel -> ~ In RFail (sr_script r) ->
  need <= length (sr_data r) ->
  exists r', io_read_exact fuel r need got = ((got ++ firstn need (sr_data r), None), r') /\ sr_data r' = skipn need (sr_data r).
Proof. exact read_exact_succeeds. Qed.

(** Take: a call never delivers more than the remaining limit or the buffer, the limit decreases by exactly what was
    delivered and never goes below zero, errors change nothing *)
Theorem C18_take_contract : forall t space, (0 <= tk_limit t)%Z ->
  match io_take_read t space with
  | (inl bytes, t') => exists k, k <= space /\ (Z.of_nat k <= tk_limit t)%Z /\ bytes = firstn k (sr_data (tk_inner t)) /\
                                 sr_data (tk_inner t') = skipn k (sr_data (tk_inner t)) /\
                                 (tk_limit t' = tk_limit t - Z.of_nat (length bytes))%Z /\ (0 <= tk_limit t')%Z /\
                                 (bytes = [] -> space = 0 \/ tk_limit t = 0%Z \/ sr_data (tk_inner t) = [])
  | (inr e, t') => tk_limit t' = tk_limit t /\ sr_data (tk_inner t') = sr_data (tk_inner t)
  end.
Proof. exact take_read_spec. Qed.

Theorem C18_take_read_to_end : forall fuel t out out' err t', (0 <= tk_limit t)%Z ->
  io_take_read_to_end fuel t out = ((out', err), t') ->
  exists k, out' = out ++ firstn k (sr_data (tk_inner t)) /\ (Z.of_nat k <= tk_limit t)%Z /\
            sr_data (tk_inner t') = skipn k (sr_data (tk_inner t)) /\
            (err = None -> Z.of_nat k = Z.min (tk_limit t) (Z.of_nat (length (sr_data (tk_inner t)))))%Z.
Proof. exact take_read_to_end_spec. Qed.

(** io_write_all: on success the whole buffer was written, in order; WriteZero only if the writer accepted nothing;
    Interrupted is never reported; what was written is always a prefix of the buffer *)
Theorem C18_write_all_contract : forall fuel w buf err w', length buf + length (sw_script w) < fuel ->
  io_write_all fuel w buf = (err, w') ->
  exists k, sw_out w' = sw_out w ++ firstn k buf /\
    match err with
    | None => k = length buf
    | Some EWriteZero => In WZero (sw_script w)
    | Some EOther => In WFail (sw_script w)
    | Some _ => False
    end.
Proof. exact write_all_spec. Qed.

(** the hash feature: same input and compressor state, the frame with the feature is the frame without it with
    descriptor bit 2 set and the four checksum bytes appended -- blocks and final compressor state are identical *)
Theorem C18_hash_feature_only_adds_flag_and_trailer : forall (cstate : Type) cblock cskip cfallback creset lv slice wsize h (cs : cstate) data script out1 c1 r1 out0 c0 r0,
  (1 <= slice)%nat ->
  compress_frame cstate cblock cskip cfallback creset lv slice wsize (Some h) cs {| rd_data := data; rd_script := script |} = ROk (out1, c1, r1) ->
  compress_frame cstate cblock cskip cfallback creset lv slice wsize None cs {| rd_data := data; rd_script := script |} = ROk (out0, c0, r0) ->
  exists bs, out0 = frame_header_bytes (Z.max wsize MAX_BLOCK_SIZE) false ++ bs /\
             out1 = frame_header_bytes (Z.max wsize MAX_BLOCK_SIZE) true ++ bs ++ h data /\ c0 = c1.
Proof. exact hash_feature_only_adds_flag_and_trailer. Qed.

Print Assumptions C18_read_exact_contract.
Print Assumptions C18_read_exact_succeeds.
Print Assumptions C18_take_contract.
Print Assumptions C18_take_read_to_end.
Print Assumptions C18_write_all_contract.
Print Assumptions C18_hash_feature_only_adds_flag_and_trailer.
