(** Property C01 -- placeholder statement set; the component theorems land in later commits. *)
Require Import Zrs.lib.RsPrelude Zrs.model.BlockDec.
Theorem C01_split_at_spec : forall n l a b, split_at n l = Some (a, b) -> l = a ++ b /\ length a = n.
Proof.
  induction n as [|n IH]; intros l a b H; cbn in H.
  - inversion H. subst. split; reflexivity.
  - destruct l as [|x t]; [discriminate|]. destruct (split_at n t) as [[a' b']|] eqn:E; [|discriminate].
    inversion H. subst. destruct (IH t a' b E) as [-> L]. split; [reflexivity|cbn; lia].
Qed.
Print Assumptions C01_split_at_spec.
