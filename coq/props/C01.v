(** Property C01 -- the decoder reproduces the original data for every valid frame.
    The specification side is the WRITER of the format; the theorems say the decoder inverts it, layer by layer:
    - sequence execution (with or without a dictionary) is the reference LZ77 semantics of RFC 8878 3.1.1.4/5 --
      literal run, repeat-offset rules, byte-wise copy from [off] back -- and every sequence read from a bit stream
      meets the hypothesis of that theorem;
    - the chunked copy of the implementation equals the byte-wise copy; every copied byte equals the byte [off] back;
    - the repeat-offset rules are the RFC's table (C14); raw and RLE blocks regenerate their content;
    - a compressed block written from any literals in any layout the literals decoder reads back (all of them: C13) and
      any coded sequences under any combination of the four table modes (C12) decodes to exactly those literals and
      sequences ([C01_compressed_block_any_layout_any_modes], [C01_decoder_inverts_the_block_writer]);
    - a whole frame is decoded block by block ([C01_frame_is_decoded_block_by_block]);
    - the window buffer underneath is a byte queue for every operation sequence (C04).
    That the frames other compressors emit are frames of this writer is not a theorem: on every run the executable
    decoder model and the implementation decode libzstd's and hand-built frames and are compared with the original. *)
Require Import Zrs.lib.RsPrelude Zrs.gen.Generated Zrs.model.BitIO Zrs.model.FseDec Zrs.model.HufDec Zrs.model.BlockDec.
Require Import Zrs.proofs.C06_Drain Zrs.proofs.C05_Block Zrs.proofs.C09_Lz Zrs.proofs.C01_Exec Zrs.proofs.C14_Headers
  Zrs.proofs.C17_Matcher Zrs.proofs.C02_Roundtrip.
Require Import Zrs.model.Headers Zrs.model.SeqSection Zrs.model.BlockEnc Zrs.model.LitEnc Zrs.proofs.C12_SeqStream Zrs.proofs.C02_BlockGen Zrs.proofs.C02_HufSide.
Require Import Zrs.model.BitStream Zrs.model.SeqEnc Zrs.proofs.C12_SeqStreamR Zrs.proofs.C12_Modes Zrs.proofs.C02_Block Zrs.proofs.C01_BlockModes.
Require Import Zrs.model.FrameDec Zrs.model.FrameEnc Zrs.proofs.C01_Frame.
Open Scope Z_scope.

Theorem C01_sequence_execution_is_the_reference : forall seqs lits buf hist buf' hist',
  db_wf buf -> hist_ok hist -> Forall seq_pos seqs ->
  execute_sequences seqs lits buf hist = ROk (buf', hist') ->
  exists out rest, ref_exec seqs lits (db_rev buf ++ rev (db_dict buf)) hist = Some (out, hist', rest) /\
                   db_rev buf' ++ rev (db_dict buf) = rev_append rest out.
Proof. exact execute_sequences_is_reference. Qed.

Theorem C01_decoded_sequences_meet_the_hypothesis : forall n modes src s s' seqs,
  decode_sequences n modes src s = ROk (s', seqs) -> Forall seq_pos seqs.
Proof. exact decode_sequences_pos. Qed.

Theorem C01_chunked_copy_is_bytewise : forall n off r, (1 <= off)%nat -> (off <= length r)%nat ->
  lz_copy_fast n off r = lz_copy n off r.
Proof. exact lz_copy_fast_eq. Qed.

Theorem C01_copied_bytes_equal_bytes_at_distance : forall n off r i, (1 <= off)%nat -> (i < n)%nat ->
  nth i (lz_copy n off r) 0 = nth (i + off) (lz_copy n off r) 0.
Proof. exact lz_copy_pointwise. Qed.

Theorem C01_repeat_offset_rules_are_the_rfc_table : forall ov ll h1 h2 h3, 1 <= ov -> 0 <= ll -> 1 <= h1 ->
  do_offset_history ov ll [h1; h2; h3] = spec_offset_history ov ll h1 h2 h3.
Proof. exact offset_history_spec. Qed.

Theorem C01_raw_block_regenerates_its_bytes : forall sc d rest,
  decode_block_content 0 (Z.of_nat (length d)) (Z.of_nat (length d)) sc (d ++ rest) = ROk (sc_push_raw sc d, Z.of_nat (length d), rest).
Proof. exact raw_content. Qed.

Theorem C01_rle_block_regenerates_a_run : forall sc (b : Z) n rest,
  decode_block_content 1 (Z.of_nat n) 1 sc ([b] ++ rest) = ROk (sc_push_raw sc (repeat_z b n), 1, rest).
Proof. exact rle_content. Qed.

Example C01_reference_non_vacuous :
  ref_exec [{| sq_ll := 2; sq_ml := 4; sq_of := 5 |}] [7; 8; 9] [] [1; 4; 8] = Some ([8; 7; 8; 7; 8; 7], [2; 1; 4], [9]).
Proof. vm_compute. reflexivity. Qed.

(** *** the decoder inverts the format's block writer

    A compressed block written from ANY literals and ANY list of sequences -- a literals section in any encoding the
    literals decoder reads back (raw, RLE, Huffman-coded with or without a table description: the hypotheses [Hhdr],
    [Hlits] below; for Huffman coding they hold for every decoder table by C13/C02), followed by the sequences section
    with FSE-described tables for any three normalised distributions that cover the codes used ([section_hyps_b]) --
    decodes to exactly those literals and sequences, which are then executed (and execution is the reference LZ77
    semantics by the first theorem of this file).  The table modes predefined / RLE / repeat and the one-stream literal
    layout are outside this writer; they are covered by execution against libzstd and the specification oracle. *)
Theorem C01_decoder_inverts_the_block_writer :
  forall (hdr payload : list Z) (ty regen : Z) (comp streams : option Z) (sc : scratch) (ht' : huf_table) (lits : list Z),
  (forall rest, lit_header_parse (hdr ++ rest) = ROk (zlen hdr, ty, regen, comp, streams)) ->
  match comp with Some x => x | None => if ty =? 1 then 1 else regen end = zlen payload ->
  regen = zlen lits /\ regen <= MAX_BLOCK_SIZE ->
  decode_literals {| ls_type := ty; ls_regen := regen; ls_comp := comp; ls_streams := streams |} (sc_huf sc) payload
    = ROk (ht', lits, zlen payload) ->
  forall dl do dm seqs sp,
  seq_part dl do dm seqs = ROk sp -> Z.of_nat (length seqs) <= 98047 ->
  (seqs <> [] -> section_hyps_b dl do dm seqs = true) ->
  t_max_symbol (fs_ll (sc_fse sc)) = MAX_LITERAL_LENGTH_CODE -> t_max_symbol (fs_of (sc_fse sc)) = MAX_OFFSET_CODE ->
  t_max_symbol (fs_ml (sc_fse sc)) = MAX_MATCH_LENGTH_CODE ->
  decompress_block (zlen (hdr ++ payload ++ sp)) sc (hdr ++ payload ++ sp) =
    match seqs with
    | [] => ROk {| sc_huf := ht'; sc_fse := sc_fse sc; sc_buf := db_push (sc_buf sc) lits; sc_hist := sc_hist sc |}
    | _ =>
        match build_table MAX_LITERAL_LENGTH_CODE dl, build_table MAX_MATCH_LENGTH_CODE dm, build_table MAX_OFFSET_CODE do with
        | ROk Dll, ROk Dml, ROk Dof =>
            let* (buf, hist) := execute_sequences seqs lits (sc_buf sc) (sc_hist sc) in
            ROk {| sc_huf := ht'; sc_fse := C12_SeqStream.sc Dll Dml Dof; sc_buf := buf; sc_hist := hist |}
        | _, _, _ => RErr "tables"
        end
    end.
Proof. exact block_decodes. Qed.

(** ... and with ANY combination of the four sequence-table modes (predefined, RLE, FSE compressed, repeat; [mtable],
    [tab_ready] as in C12) and any literals layout the literals decoder reads back (raw / RLE / Huffman in one or four
    streams, with a description or treeless, every size format: C13): the block decodes to its literals and to the
    values of the coded sequences, which are executed; the decoder keeps exactly the tables and RLE bytes meant *)
Theorem C01_compressed_block_any_layout_any_modes :
  forall (hdr payload : list Z) (ty regen : Z) (comp streams : option Z) (sc : scratch) (ht' : huf_table) (lits : list Z),
  (forall rest, lit_header_parse (hdr ++ rest) = ROk (zlen hdr, ty, regen, comp, streams)) ->
  match comp with Some x => x | None => if ty =? 1 then 1 else regen end = zlen payload ->
  regen = zlen lits /\ regen <= MAX_BLOCK_SIZE ->
  decode_literals {| ls_type := ty; ls_regen := regen; ls_comp := comp; ls_streams := streams |} (sc_huf sc) payload
    = ROk (ht', lits, zlen payload) ->
  forall (mll mof mml : tmode) (Dll Dof Dml : fse_table) (rll rof rml : option Z),
  mtable mll (fs_ll (sc_fse sc)) (fs_ll_rle (sc_fse sc)) LL_MAX_LOG MAX_LITERAL_LENGTH_CODE LL_DEFAULT_ACC_LOG LITERALS_LENGTH_DEFAULT_DISTRIBUTION Dll rll ->
  mtable mof (fs_of (sc_fse sc)) (fs_of_rle (sc_fse sc)) OF_MAX_LOG MAX_OFFSET_CODE OF_DEFAULT_ACC_LOG OFFSET_DEFAULT_DISTRIBUTION Dof rof ->
  mtable mml (fs_ml (sc_fse sc)) (fs_ml_rle (sc_fse sc)) ML_MAX_LOG MAX_MATCH_LENGTH_CODE ML_DEFAULT_ACC_LOG MATCH_LENGTH_DEFAULT_DISTRIBUTION Dml rml ->
  forall sl sm so, tab_ready Dll rll sl -> tab_ready Dml rml sm -> tab_ready Dof rof so ->
  forall qs, qs <> [] -> Forall cseq_ok qs -> Forall (q_in sl sm so) qs -> Z.of_nat (length qs) <= 98047 ->
  let stream := stream_bytes (enc_fields (enc_for Dll rll) (enc_for Dml rml) (enc_for Dof rof) qs) in
  let sp := spec_seqnum_bytes (Z.of_nat (length qs)) ++ modes_byte mll mof mml :: (mbytes mll ++ mbytes mof ++ mbytes mml ++ stream) in
  exists vals, Forall2 (fun q v => cseq_value q = Some v) qs vals /\
    decompress_block (zlen (hdr ++ payload ++ sp)) sc (hdr ++ payload ++ sp) =
      let* (buf, hist) := execute_sequences vals lits (sc_buf sc) (sc_hist sc) in
      ROk {| sc_huf := ht'; sc_fse := scr Dll rll Dml rml Dof rof; sc_buf := buf; sc_hist := hist |}.
Proof. exact block_decodes_modes. Qed.

(** *** whole frames: the block loop composes the blocks

    A frame assembled from a header the decoder accepts and ANY non-empty list of blocks -- raw, RLE or compressed, each
    with the format's block header, the last one flagged, optionally followed by a checksum -- is decoded block by block:
    the scratch space at the end is the one obtained by running the blocks' content decoders in order
    ([items_run]; for a raw block an append, for an RLE block a run, for a compressed block [decompress_block], whose
    result the block theorems above determine), the frame is finished, the checksum bytes are what was read, and the
    bytes after the frame are left unread. *)
Theorem C01_frame_is_decoded_block_by_block : forall d hdr d1 ev s items body tail rest sc',
  fdec_reset d hdr = ROk (d1, [], ev) -> fd_state d1 = Some s ->
  items <> [] -> Forall item_ok items -> items_bytes items = ROk body -> items_run (fr_scratch s) items = ROk sc' ->
  (if checksum_flag s then exists ck, tail = ck ++ rest /\ length ck = 4%nat else tail = rest) ->
  fdec_reset d (hdr ++ body ++ tail) = ROk (d1, body ++ tail, ev) /\
  exists d2 s', fdec_decode_blocks d1 (body ++ tail) SAll = ROk (d2, rest, true) /\ fd_state d2 = Some s' /\
    fr_scratch s' = sc' /\ fr_header s' = fr_header s /\ fr_blocks s' = fr_blocks s + Z.of_nat (length items) /\
    (checksum_flag s = true -> exists ck, tail = ck ++ rest /\ length ck = 4%nat /\ fr_checksum s' = Some (le_val ck)).
Proof. exact frame_composes. Qed.

Theorem C01_what_each_kind_of_block_does :
  (forall sc d, item_run sc {| bi_ty := 0; bi_size := length d; bi_payload := d |} = ROk (sc_push_raw sc d)) /\
  (forall sc b n, item_run sc {| bi_ty := 1; bi_size := n; bi_payload := [b] |} = ROk (sc_push_raw sc (repeat_z b n))) /\
  (forall sc body, item_run sc {| bi_ty := 2; bi_size := length body; bi_payload := body |} = decompress_block (zlen body) sc body).
Proof. split; [exact item_run_raw|]. split; [exact item_run_rle|exact item_run_compressed]. Qed.

(** non-vacuity: the frame 28 B5 2F FD | 20 05 | raw block "AB" | RLE block 3 x "C" (last) decodes to ABCCC *)
Example C01_frame_example :
  match fdec_decode_all fdec_new [40; 181; 47; 253; 32; 5; 16; 0; 0; 65; 66; 27; 0; 0; 67] 10 with
  | ROk (_, out) => out = [65; 66; 67; 67; 67]
  | _ => False
  end.
Proof. vm_compute. reflexivity. Qed.

Print Assumptions C01_frame_is_decoded_block_by_block.
Print Assumptions C01_what_each_kind_of_block_does.
Print Assumptions C01_compressed_block_any_layout_any_modes.
Print Assumptions C01_decoder_inverts_the_block_writer.
Print Assumptions C01_sequence_execution_is_the_reference.
Print Assumptions C01_decoded_sequences_meet_the_hypothesis.
Print Assumptions C01_chunked_copy_is_bytewise.
Print Assumptions C01_copied_bytes_equal_bytes_at_distance.
Print Assumptions C01_repeat_offset_rules_are_the_rfc_table.
Print Assumptions C01_raw_block_regenerates_its_bytes.
Print Assumptions C01_rle_block_regenerates_a_run.
