(** Property C13 -- Huffman tables are valid and literal coding round-trips for every distribution.
    Models: coq/model/HufEnc.v (weight shape and canonical codes of the compressor) and coq/model/HufDec.v (the decoder's
    weight reader and table builder).  The compressor's code shape depends only on the number of distinct symbols and
    their rank by count, so the shape statements are over the finite domain 2..256 and are proved by complete sweeps
    ([vm_compute]) lifted to universally quantified statements.
    NOT yet theorems (covered by the correspondence run and its oracles): the bit-level round trip of literal streams,
    the < 128 byte bound on FSE-compressed weight descriptions, the decoder's canonical table for EVERY valid weight
    list (only rejection conditions and the compressor's shapes are proved). *)
Require Import Zrs.lib.RsPrelude Zrs.model.BitIO Zrs.model.FseDec Zrs.model.HufDec Zrs.model.HufEnc.
Require Import Zrs.proofs.C13_Huffman.
Require Import Zrs.model.BitIO Zrs.model.BitStream Zrs.model.HufDec Zrs.proofs.C12_Stream Zrs.proofs.C13_Stream.
Require Import Zrs.gen.Generated Zrs.model.Headers Zrs.model.BlockDec Zrs.model.LitEnc Zrs.proofs.C13_LitSection.
Require Import Zrs.proofs.C03_HufTable Zrs.proofs.C13_Canonical Zrs.proofs.C13_CanonCode Zrs.proofs.C13_LitAll Zrs.proofs.C13_Direct.
Require Import Zrs.model.SeqEnc Zrs.model.FseEnc Zrs.model.WeightEnc Zrs.proofs.C12_SeqStream Zrs.proofs.C12_Desc Zrs.proofs.C13_WeightStream Zrs.proofs.C13_WeightDesc Zrs.proofs.C12_AvoidBits Zrs.proofs.C13_WeightTable Zrs.proofs.C13_WeightFinal.
Require Import Zrs.model.FseNorm Zrs.proofs.C13_WeightModel.
Require Import Zrs.proofs.C13_EncCanon Zrs.proofs.C13_Agree Zrs.proofs.C13_Accepted Zrs.proofs.C13_EncWeights Zrs.proofs.C13_WeightTotal.
Open Scope Z_scope.

Theorem C13_shape_valid : forall n, 2 <= n <= 256 ->
  exists ws, shape n = ROk ws /\ Z.of_nat (length ws) = n /\ is_pow2z (kraft ws) = true /\
    Forall (fun w => 1 <= w <= Z.log2 (kraft ws)) ws /\ Z.log2 (kraft ws) <= Z.log2 n + 2 /\ Z.log2 (kraft ws) <= 11.
Proof. exact shape_valid. Qed.

Theorem C13_enc_dec_agree : forall n, 2 <= n <= 256 -> shape_orders_check n = true.
Proof. exact enc_dec_agree. Qed.

Theorem C13_dec_rejects_big_weight : forall ws, Exists (fun w => 11 < w) ws ->
  build_table_from_weights ws = RErr "WeightBiggerThanMaxNumBits"%string.
Proof. exact dec_rejects_big_weight. Qed.

Theorem C13_dec_accepts_only_complete_codes : forall ws dec M bits ranks idxs,
  build_table_from_weights ws = ROk (dec, M, bits, ranks, idxs) ->
  exists wsum, weight_sum ws 0 = ROk wsum /\ 0 < wsum /\ M = highest_bit_set wsum /\ M <= 11 /\
    is_pow2 (2 ^ M - wsum) = true.
Proof. exact dec_accepts_only_complete_codes. Qed.

(** the literal bit stream: what the compressor writes for a symbol list (the codes last symbol first, a 1 bit,
    padding -- an executable model compared byte for byte with the real compressor's streams on every run) is read by
    [huf_decode_stream] back into exactly those symbols, with the end-of-stream check satisfied; for every symbol
    list and every table of 2^max_bits entries that resolves each used code from any window starting with it (a
    decidable property; for the compressor's own tables see C13_encoder_decoder_agree) *)
Theorem C13_literal_stream_roundtrip : forall t Mn, ht_max_bits t = Z.of_nat Mn -> (1 <= Mn)%nat -> ht_len t = 2 ^ Z.of_nat Mn ->
  forall code data out, data <> [] ->
  Forall (code_ok Mn code) data -> Forall (resolves t Mn code) data ->
  huf_decode_stream t (huf_stream_bytes code data) out true = ROk (rev data ++ out).
Proof. exact huffman_stream_roundtrip. Qed.

(** the whole Huffman-coded literals section of the compressor: four quarters [a b c d] of the literals, each a backward
    stream, behind a 6-byte jump table, behind the table description [desc] (type 2) or nothing (type 3, treeless: the
    decoder's table is the one the code was made for) -- [decode_literals] returns exactly the literals, the table, and
    the number of bytes of the section, for every table/code pair in which the table resolves the code words *)
Theorem C13_huffman_literals_section_decodes : forall t Mn, ht_max_bits t = Z.of_nat Mn -> (1 <= Mn)%nat -> ht_len t = 2 ^ Z.of_nat Mn ->
  forall code a b c d, a <> [] /\ b <> [] /\ c <> [] /\ d <> [] ->
  Forall (code_ok Mn code) (a ++ b ++ c ++ d) -> Forall (resolves t Mn code) (a ++ b ++ c ++ d) ->
  zlen (hstream code a) < 65536 /\ zlen (hstream code b) < 65536 /\ zlen (hstream code c) < 65536 ->
  forall ty desc ht,
  (ty = 2 /\ huf_build_decoder ht (desc ++ four_bytes code a b c d) = ROk (t, zlen desc)) \/ (ty = 3 /\ desc = [] /\ ht = t) ->
  decode_literals {| ls_type := ty; ls_regen := zlen (a ++ b ++ c ++ d); ls_comp := Some (zlen (desc ++ four_bytes code a b c d)); ls_streams := Some 4 |}
                  ht (desc ++ four_bytes code a b c d) = ROk (t, a ++ b ++ c ++ d, zlen (desc ++ four_bytes code a b c d)).
Proof. exact huffman_payload_decodes. Qed.

(** its header: both size formats the compressor uses (4 bytes below 16384 literals, 5 bytes from there on) are parsed
    back to the type, the regenerated size, the compressed size and four streams *)
Theorem C13_huffman_literals_header_small : forall ty regen comp rest, (ty = 2 \/ ty = 3) -> 0 <= regen < 16384 -> 0 <= comp < 16384 ->
  lit_header_parse (huf_lit_header ty regen comp ++ rest) = ROk (4, ty, regen, Some comp, Some 4).
Proof. exact huf_header_parse_small. Qed.
Theorem C13_huffman_literals_header_large : forall ty regen comp rest, (ty = 2 \/ ty = 3) -> 16384 <= regen < 262144 -> 0 <= comp < 262144 ->
  lit_header_parse (huf_lit_header ty regen comp ++ rest) = ROk (5, ty, regen, Some comp, Some 4).
Proof. exact huf_header_parse_large. Qed.

(** the side conditions are decidable: these boolean checks, evaluated on the table and code of every Huffman-coded block
    the real compressor emits in a run, imply them *)
Theorem C13_code_conditions_decidable : forall t mn code s,
  code_ok_b mn code s = true -> resolves_b t mn code s = true -> code_ok mn code s /\ resolves t mn code s.
Proof. intros t mn code s H1 H2. pose proof (code_ok_b_sound mn code s H1) as H. split; [exact H|]. apply resolves_b_sound; assumption. Qed.

(** *** the decoder's table is the decoding table of a complete prefix code -- for EVERY weight list it accepts

    Each symbol with a non-zero weight owns one aligned block of 2^(max_bits - length) consecutive entries, all carrying
    that symbol and that code length; blocks of different symbols are disjoint and together cover the table (blocks in
    order of decreasing length, then increasing symbol: the canonical assignment of the format).  At most 255 explicit
    weights, as the format allows (the symbol of an entry is a byte). *)
Theorem C13_decoder_table_is_a_complete_prefix_code : forall ws dec M bits ranks idxs,
  Forall (fun w => 0 <= w) ws -> (length ws <= 255)%nat ->
  build_table_from_weights ws = ROk (dec, M, bits, ranks, idxs) ->
  exists placed : list blk,
    NoDup (map blk_sym placed) /\
    (forall s base n, In (s, base, n) placed ->
       (n < Z.to_nat M)%nat /\ 0 <= s < Z.of_nat (length bits) /\ 0 <= base /\ base + 2 ^ Z.of_nat n <= 2 ^ M /\ base mod 2 ^ Z.of_nat n = 0 /\
       forall i, base <= i < base + 2 ^ Z.of_nat n -> nth_h dec i = {| h_sym := s; h_bits := M - Z.of_nat n |}) /\
    (forall i, 0 <= i < 2 ^ M -> exists s base n, In (s, base, n) placed /\ base <= i < base + 2 ^ Z.of_nat n) /\
    (forall j, (j < length bits)%nat -> 0 < nth j bits 0 -> exists base, In (Z.of_nat j, base, Z.to_nat (M - nth j bits 0)) placed /\
       (* the canonical place: after the blocks of all longer codes and of the smaller symbols with the same length *)
       base = region M ranks (Z.to_nat (M - nth j bits 0)) + cnt (nth j bits 0) (firstn j bits) * 2 ^ (M - nth j bits 0)).
Proof. exact built_table_blocks. Qed.

(** ... hence the code word read off the table for a symbol (first index, shortened to the code length) is well formed,
    has the length the weights prescribe, and is resolved by exactly the indices that start with it: the side
    conditions of the literals round trip, for every table and every symbol with a code *)
Theorem C13_code_words_of_every_table_resolve : forall ws dec M bits ranks idxs t,
  Forall (fun w => 0 <= w) ws -> (length ws <= 255)%nat ->
  build_table_from_weights ws = ROk (dec, M, bits, ranks, idxs) -> ht_decode t = dec -> ht_max_bits t = M ->
  (forall i, 0 <= i < 2 ^ M -> let s := h_sym (nth_h dec i) in
     code_ok_b (Z.to_nat M) (code_of_dec t) s = true /\ resolves_b t (Z.to_nat M) (code_of_dec t) s = true) /\
  (forall j, (j < length bits)%nat -> 0 < nth j bits 0 ->
     code_ok_b (Z.to_nat M) (code_of_dec t) (Z.of_nat j) = true /\ resolves_b t (Z.to_nat M) (code_of_dec t) (Z.of_nat j) = true /\
     snd (code_of_dec t (Z.of_nat j)) = Z.to_nat (nth j bits 0)).
Proof. exact built_table_codes. Qed.

(** non-vacuity: weights [2;1;1] (the implied fourth weight 3 completes the sum to 8): code lengths 2,3,3,1 and the
    blocks of symbols 1, 2 (one entry each), 0 (two entries), 3 (four entries) *)
Example C13_canonical_example :
  match build_table_from_weights [2; 1; 1] with
  | ROk (dec, M, bits, _, _) => M = 3 /\ bits = [2; 3; 3; 1] /\ map h_sym dec = [1; 2; 0; 0; 3; 3; 3; 3]
  | _ => False
  end.
Proof. vm_compute. auto. Qed.

(** *** every layout of the literals section

    raw and RLE literals in each of their size formats (1, 2, 3 header bytes), Huffman-coded literals in ONE stream (with a
    table description or treeless), and the remaining four-stream header format (10-bit sizes); with the four-stream
    theorems above this is every literals type, stream count and size format of the format *)
Theorem C13_raw_and_rle_literals_headers : forall ty n rest, (ty = 0 \/ ty = 1) -> 0 <= n < 2 ^ 20 ->
  lit_header_parse (plain_header ty n ++ rest) = ROk (zlen (plain_header ty n), ty, n, None, None).
Proof. exact plain_header_parse. Qed.

Theorem C13_raw_literals_decode : forall ht lits,
  decode_literals {| ls_type := 0; ls_regen := zlen lits; ls_comp := None; ls_streams := None |} ht lits = ROk (ht, lits, zlen lits).
Proof. exact raw_literals_decode. Qed.

Theorem C13_rle_literals_decode : forall ht b n, 0 <= n ->
  decode_literals {| ls_type := 1; ls_regen := n; ls_comp := None; ls_streams := None |} ht [b] = ROk (ht, repeat_z b (Z.to_nat n), 1).
Proof. exact rle_literals_decode. Qed.

Theorem C13_one_stream_headers : forall ty regen comp rest, (ty = 2 \/ ty = 3) -> 0 <= regen < 1024 -> 0 <= comp < 1024 ->
  lit_header_parse (huf1_header ty regen comp ++ rest) = ROk (3, ty, regen, Some comp, Some 1) /\
  lit_header_parse (huf4_header10 ty regen comp ++ rest) = ROk (3, ty, regen, Some comp, Some 4).
Proof. intros. split; [apply huf1_header_parse|apply huf4_header10_parse]; assumption. Qed.

Theorem C13_one_stream_huffman_literals_decode : forall t Mn, ht_max_bits t = Z.of_nat Mn -> (1 <= Mn)%nat -> ht_len t = 2 ^ Z.of_nat Mn ->
  forall code lits, lits <> [] -> Forall (code_ok Mn code) lits -> Forall (resolves t Mn code) lits ->
  forall ty desc ht,
  (ty = 2 /\ huf_build_decoder ht (desc ++ hstream code lits) = ROk (t, zlen desc)) \/ (ty = 3 /\ desc = [] /\ ht = t) ->
  decode_literals {| ls_type := ty; ls_regen := zlen lits; ls_comp := Some (zlen (desc ++ hstream code lits)); ls_streams := Some 1 |}
                  ht (desc ++ hstream code lits) = ROk (t, lits, zlen (desc ++ hstream code lits)).
Proof. exact huffman_one_stream_decodes. Qed.

(** the direct weight description (header byte 127 + count, then 4-bit weights, two per byte, first in the high half;
    what the compressor writes for at most 16 weights, legal up to 128) is parsed into exactly the weights written, so
    the decoder's table is the table of those weights (and by the structure theorem above the canonical code for them) *)
Theorem C13_direct_weight_description_roundtrip : forall t ws rest, (1 <= length ws <= 128)%nat -> Forall (fun w => 0 <= w < 16) ws ->
  read_weights t (direct_desc ws ++ rest) = ROk (ws, ht_fse t, Z.of_nat (length (direct_desc ws))).
Proof. exact direct_description_roundtrip. Qed.

Theorem C13_table_of_a_direct_description : forall t ws rest, (1 <= length ws <= 128)%nat -> Forall (fun w => 0 <= w < 16) ws ->
  huf_build_decoder t (direct_desc ws ++ rest) =
    let* (dec, max_bits, bits, ranks, idxs) := build_table_from_weights ws in
    ROk ({| ht_decode := dec; ht_len := 2 ^ max_bits; ht_weights := ws; ht_max_bits := max_bits; ht_bits := bits; ht_bit_ranks := ranks;
            ht_rank_indexes := idxs; ht_fse := ht_fse t |}, Z.of_nat (length (direct_desc ws))).
Proof. exact direct_description_table. Qed.

Example C13_direct_description_example : direct_desc [2; 1; 1] = [130; 33; 16] /\
  match huf_build_decoder huf_new ([130; 33; 16] ++ [7]) with ROk (t, used) => used = 3 /\ ht_weights t = [2; 1; 1] | _ => False end.
Proof. split; [reflexivity|vm_compute; auto]. Qed.

(** *** the FSE-compressed weight description

    The compressor writes more than 16 weights with two interleaved FSE states sharing one table
    ([weight_fields]: compared byte for byte with the real encoder on every run).  The decoder's two-state loop reads
    them back in order and stops exactly when the stream is exhausted -- provided every state carries at least one bit
    (the "avoid zero bits" option of the table builder) -- for any table that agrees with the encoder's, any 2..257
    weights over the symbols it covers *)
Theorem C13_two_state_weight_stream_roundtrip : forall D E syms data,
  agree D E syms ->
  (forall sym, In sym syms -> (1 <= es_bits (et_start E sym))%nat /\ forall idx, 0 <= idx < t_len D -> (1 <= es_bits (et_next E sym idx))%nat) ->
  (forall sym, In sym syms -> es_base (et_start E sym) < t_len D) ->
  (2 <= length data <= 257)%nat -> Forall (fun x => In x syms) data ->
  let cw := stream_bytes (weight_fields E data) in
  exists br0 s1 br1 s2 br2,
    rbr_skip_padding (rbr_new cw) = Some br0 /\ fse_init_state D br0 = ROk (s1, br1) /\ fse_init_state D br1 = ROk (s2, br2) /\
    fse_weights_loop (S (8 * length cw + 256)) D s1 s2 br2 [] 0 = ROk (rev data).
Proof. exact weight_stream_roundtrip. Qed.

(** the whole description: header byte (the length), FSE table description, stream -> exactly the weights written *)
Theorem C13_fse_compressed_weight_description_roundtrip : forall t al probs d D syms data rest,
  5 <= al <= 6 -> dist_ok al probs -> Z.of_nat (length probs) <= t_max_symbol (ht_fse t) + 1 ->
  desc_bytes al probs = Some d -> fse_build_from_probabilities (ht_fse t) al probs = ROk D ->
  table_wf D -> Forall (covers D) syms ->
  (forall sym, In sym syms -> (1 <= es_bits (et_start (enc_of_dec D) sym))%nat /\
                              forall idx, 0 <= idx < t_len D -> (1 <= es_bits (et_next (enc_of_dec D) sym idx))%nat) ->
  (forall sym, In sym syms -> es_base (et_start (enc_of_dec D) sym) < t_len D) ->
  (2 <= length data <= 257)%nat -> Forall (fun x => In x syms) data ->
  let stream := stream_bytes (weight_fields (enc_of_dec D) data) in
  let header := zlen d + zlen stream in
  header < 128 ->
  read_weights t (header :: d ++ stream ++ rest) = ROk (data, D, 1 + header).
Proof. exact fse_weight_description_roundtrip. Qed.

(** the same with a plain property of the decoding table in place of the hypotheses on the encoder's states: every entry
    carries at least one bit and has its baseline inside the table *)
Theorem C13_fse_compressed_weight_description_roundtrip_table : forall t al probs d D syms data rest,
  5 <= al <= 6 -> dist_ok al probs -> Z.of_nat (length probs) <= t_max_symbol (ht_fse t) + 1 ->
  desc_bytes al probs = Some d -> fse_build_from_probabilities (ht_fse t) al probs = ROk D ->
  table_wf D -> entries_carry_a_bit D -> Forall (covers D) syms ->
  (2 <= length data <= 257)%nat -> Forall (fun x => In x syms) data ->
  let stream := stream_bytes (weight_fields (enc_of_dec D) data) in
  let header := zlen d + zlen stream in
  header < 128 ->
  read_weights t (header :: d ++ stream ++ rest) = ROk (data, D, 1 + header).
Proof. exact fse_weight_description_roundtrip'. Qed.

(** ... and unconditionally on the table: for EVERY normalised distribution (accuracy log 5 or 6, what the weight
    description may use) in which no probability exceeds half the table size -- what the "avoid zero bits" option of the
    table builder establishes -- the description round-trips: the decoder builds the table and reads back exactly the
    weights, whatever 2..257 weights over symbols of non-zero probability were written *)
Theorem C13_fse_weight_description_for_every_half_bounded_distribution : forall t al probs d data rest,
  t_max_symbol (ht_fse t) = 255 -> 5 <= al <= 6 ->
  Forall (fun p => -1 <= p <= 2 ^ (al - 1)) probs -> weight probs = 2 ^ al -> last probs 1 <> 0 -> (length probs <= 256)%nat ->
  desc_bytes al probs = Some d ->
  (2 <= length data <= 257)%nat ->
  Forall (fun x => exists i, x = Z.of_nat i /\ (i < length probs)%nat /\ nth i probs 0 <> 0) data ->
  exists D, fse_build_from_probabilities (ht_fse t) al probs = ROk D /\
    let stream := stream_bytes (weight_fields (enc_of_dec D) data) in
    let header := zlen d + zlen stream in
    (header < 128 -> read_weights t (header :: d ++ stream ++ rest) = ROk (data, D, 1 + header)).
Proof. exact fse_weight_description_for_every_half_bounded_distribution. Qed.

(** the description exactly as the compressor builds it: histogram of the weights, normaliser with the avoid-zero-bits
    option and limit 6, table description, two-state stream -- read back by the decoder as exactly the weights, for
    every list of 2..257 weights (not all zero) for which the normaliser returns a distribution *)
Theorem C13_weight_description_as_the_compressor_builds_it : forall t data al probs d rest,
  t_max_symbol (ht_fse t) = 255 ->
  (2 <= length data <= 257)%nat -> Forall (fun w => 0 <= w <= 255) data -> 1 <= zmax_list data ->
  norm_counts (weight_hist data) 6 true = ROk (al, probs) -> desc_bytes al probs = Some d ->
  exists D, fse_build_from_probabilities (ht_fse t) al probs = ROk D /\
    let stream := stream_bytes (weight_fields (enc_of_dec D) data) in
    let header := zlen d + zlen stream in
    (header < 128 -> read_weights t (header :: d ++ stream ++ rest) = ROk (data, D, 1 + header)).
Proof. exact model_weight_description_roundtrip. Qed.

(** the weights the table writer derives back from the code lengths are the weights the code was built from (complete
    list whose smallest weight is 1); symbols of weight 0 get no code; the compressor's shape always contains weight 1 *)
Theorem C13_written_weights_are_the_weights : forall W codes, let M := Z.log2 (kraft W) in
  Forall (fun w => 0 <= w <= M) W -> In 1 W -> enc_build_from_weights W = ROk codes -> enc_weights codes = W.
Proof. exact enc_weights_are_the_weights. Qed.
Theorem C13_unused_symbols_get_no_code : forall W nmax codes, Forall (fun w => 0 <= w <= Z.of_nat nmax) W ->
  enc_build_from_weights W = ROk codes ->
  forall s, 0 <= s < Z.of_nat (length W) -> nth (Z.to_nat s) W (-1) = 0 -> nth (Z.to_nat s) codes (0, 0) = (0, 0).
Proof. exact enc_codes_unused. Qed.
Theorem C13_shape_contains_weight_one : forall n sh, 2 <= n <= 256 -> shape n = ROk sh -> In 1 sh.
Proof. exact shape_has_one. Qed.

(** the normaliser (limit 6, avoid-zero-bits) is total on the histogram of any weights up to 11 and the result has a
    table description *)
Theorem C13_weight_description_exists : forall data,
  (2 <= length data)%nat -> Forall (fun w => 0 <= w <= 11) data -> 1 <= zmax_list data ->
  exists al probs d, norm_counts (weight_hist data) 6 true = ROk (al, probs) /\ desc_bytes al probs = Some d.
Proof. exact weight_description_exists. Qed.
Print Assumptions C13_weight_description_exists.

Print Assumptions C13_written_weights_are_the_weights.
Print Assumptions C13_unused_symbols_get_no_code.
Print Assumptions C13_shape_contains_weight_one.
Print Assumptions C13_weight_description_as_the_compressor_builds_it.
Print Assumptions C13_fse_weight_description_for_every_half_bounded_distribution.
Print Assumptions C13_fse_compressed_weight_description_roundtrip_table.
Print Assumptions C13_two_state_weight_stream_roundtrip.
Print Assumptions C13_fse_compressed_weight_description_roundtrip.
Print Assumptions C13_direct_weight_description_roundtrip.
Print Assumptions C13_table_of_a_direct_description.
Print Assumptions C13_raw_and_rle_literals_headers.
Print Assumptions C13_raw_literals_decode.
Print Assumptions C13_rle_literals_decode.
Print Assumptions C13_one_stream_headers.
Print Assumptions C13_one_stream_huffman_literals_decode.
(** *** the compressor's code and the decoder's table agree, for EVERY weight list

    [enc_build_from_weights] is the compressor's [build_from_weights]: sort the symbols with a weight by (weight, symbol),
    hand out consecutive codes, shifting right when the weight grows.  In closed form the code of a symbol of weight w is
    (total weight of the lighter symbols) / 2^(w-1) + (number of smaller symbols of the same weight) -- and that is the
    code word the decoder's table holds for the symbol (first index of its block, shortened to the code length), with
    the same length: for every weight list the decoder accepts (at most 255 explicit weights), the compressor being
    given the same weights plus the last one, which the decoder infers *)
Theorem C13_compressor_code_in_closed_form : forall W nmax codes, Forall (fun w => 0 <= w <= Z.of_nat nmax) W ->
  enc_build_from_weights W = ROk codes ->
  forall s, 0 <= s < Z.of_nat (length W) -> let w := nth (Z.to_nat s) W (-1) in 0 < w ->
    nth (Z.to_nat s) codes (0, 0) =
      (below (Z.to_nat (w - 1)) W / 2 ^ (w - 1) + cnt w (firstn (Z.to_nat s) W), Z.log2 (kraft W) - w + 1).
Proof. exact enc_codes_closed_form. Qed.

Theorem C13_compressor_code_is_the_decoder_code : forall ws dec M bits ranks idxs t,
  Forall (fun w => 0 <= w) ws -> (length ws <= 255)%nat ->
  build_table_from_weights ws = ROk (dec, M, bits, ranks, idxs) -> ht_decode t = dec -> ht_max_bits t = M ->
  exists lw codes, 1 <= lw <= M /\ enc_build_from_weights (ws ++ [lw]) = ROk codes /\
    (forall s, 0 <= s <= Z.of_nat (length ws) -> 0 < nth (Z.to_nat s) (ws ++ [lw]) 0 ->
      code_of_dec t s = (fst (nth (Z.to_nat s) codes (0, 0)), Z.to_nat (snd (nth (Z.to_nat s) codes (0, 0))))) /\
    bits = map (bits_of M) (ws ++ [lw]).
Proof. exact encoder_and_decoder_agree. Qed.

(** every complete weight list is accepted: if the weights of all symbols (the last one included) have Kraft sum 2^M with
    M <= 11, the decoder accepts the list without the last weight, builds a table of width M and infers exactly that
    last weight *)
Theorem C13_complete_weights_are_accepted : forall ws lw M,
  Forall (fun w => 0 <= w <= MAX_MAX_NUM_BITS) ws -> 1 <= lw <= M -> M <= MAX_MAX_NUM_BITS ->
  0 < kraft ws -> kraft (ws ++ [lw]) = 2 ^ M ->
  exists dec bits ranks idxs, build_table_from_weights ws = ROk (dec, M, bits, ranks, idxs) /\
    bits = map (fun w => if 0 <? w then M + 1 - w else 0) ws ++ [M + 1 - lw].
Proof. exact complete_weights_are_accepted. Qed.

Example C13_agreement_example :
  match enc_build_from_weights [2; 1; 1; 3], build_table_from_weights [2; 1; 1] with
  | ROk codes, ROk (dec, M, _, _, _) => codes = [(1, 2); (0, 3); (1, 3); (1, 1)] /\ M = 3 /\ map h_sym dec = [1; 2; 0; 0; 3; 3; 3; 3]
  | _, _ => False
  end.
Proof. vm_compute. auto. Qed.

Print Assumptions C13_compressor_code_in_closed_form.
Print Assumptions C13_compressor_code_is_the_decoder_code.
Print Assumptions C13_complete_weights_are_accepted.
Print Assumptions C13_decoder_table_is_a_complete_prefix_code.
Print Assumptions C13_code_words_of_every_table_resolve.
Print Assumptions C13_huffman_literals_section_decodes.
Print Assumptions C13_huffman_literals_header_small.
Print Assumptions C13_huffman_literals_header_large.
Print Assumptions C13_code_conditions_decidable.
Print Assumptions C13_literal_stream_roundtrip.
Print Assumptions C13_shape_valid.
Print Assumptions C13_enc_dec_agree.
Print Assumptions C13_dec_rejects_big_weight.
Print Assumptions C13_dec_accepts_only_complete_codes.
