(** Property C13 -- Huffman tables are valid and literal coding round-trips for every distribution.
    Models: coq/model/HufEnc.v (weight shape and canonical codes of the compressor) and coq/model/HufDec.v (the decoder's
    weight reader and table builder).  The compressor's code shape depends only on the number of distinct symbols and
    their rank by count, so the shape statements are over the finite domain 2..256 and are proved by complete sweeps
    ([vm_compute]) lifted to universally quantified statements.
    NOT yet theorems (covered by the correspondence run and its oracles): the bit-level round trip of literal streams,
    the < 128 byte bound on FSE-compressed weight descriptions, the decoder's canonical table for EVERY valid weight
    list (only rejection conditions and the compressor's shapes are proved). *)
Require Import Zrs.lib.RsPrelude Zrs.model.BitIO Zrs.model.FseDec Zrs.model.HufDec Zrs.model.HufEnc.
Require Import Zrs.proofs.C13_Huffman.
Open Scope Z_scope.

Theorem C13_shape_valid : forall n, 2 <= n <= 256 ->
  exists ws, shape n = ROk ws /\ Z.of_nat (length ws) = n /\ is_pow2z (kraft ws) = true /\
    Forall (fun w => 1 <= w <= Z.log2 (kraft ws)) ws /\ Z.log2 (kraft ws) <= Z.log2 n + 2 /\ Z.log2 (kraft ws) <= 11.
Proof. exact shape_valid. Qed.

Theorem C13_enc_dec_agree : forall n, 2 <= n <= 256 -> shape_orders_check n = true.
Proof. exact enc_dec_agree. Qed.

Theorem C13_dec_rejects_big_weight : forall ws, Exists (fun w => 11 < w) ws ->
  build_table_from_weights ws = RErr "WeightBiggerThanMaxNumBits"%string.
Proof. exact dec_rejects_big_weight. Qed.

Theorem C13_dec_accepts_only_complete_codes : forall ws dec M bits ranks idxs,
  build_table_from_weights ws = ROk (dec, M, bits, ranks, idxs) ->
  exists wsum, weight_sum ws 0 = ROk wsum /\ 0 < wsum /\ M = highest_bit_set wsum /\ M <= 11 /\
    is_pow2 (2 ^ M - wsum) = true.
Proof. exact dec_accepts_only_complete_codes. Qed.

Print Assumptions C13_shape_valid.
Print Assumptions C13_enc_dec_agree.
Print Assumptions C13_dec_rejects_big_weight.
Print Assumptions C13_dec_accepts_only_complete_codes.
