(** Property C16 -- compression is correct for every well-behaved user-supplied matcher.
    What is proved: the property itself at frame level, for a matcher given as a parameter with exactly the contract
    of the property ([C16_roundtrip_for_every_well_behaved_matcher]); underneath it: everything the frame-level code
    does is independent of the matcher, the value/code mappings are inverse to the decoder's over their whole ranges,
    any parse that tiles the block is executed by the decoder to exactly the block, also through the bytes of the block
    body.  The one assumption left is obligation O2 on the literals encoder (raw literals meet it unconditionally,
    Huffman-coded literals when the table resolves the code words -- decidable, evaluated per block in C02's check);
    the Huffman code builder itself is not modelled.  Each run also drives the real compressor through a scripted
    matcher and decodes with this crate's decoder and libzstd. *)
Require Import Zrs.lib.RsPrelude Zrs.gen.Generated Zrs.model.FrameEnc.
Require Import Zrs.proofs.C14_Tables Zrs.proofs.C14_Headers Zrs.proofs.C15_Frame Zrs.proofs.C02_Roundtrip.
Require Import Zrs.model.FseDec Zrs.model.BlockDec Zrs.model.Matcher Zrs.model.SeqSection Zrs.model.BlockEnc.
Require Import Zrs.proofs.C06_Drain Zrs.proofs.C17_Matcher Zrs.proofs.C17_Shape Zrs.proofs.C02_Glue Zrs.proofs.C02_FastBlock.
Require Import Zrs.model.Headers Zrs.model.HufDec Zrs.proofs.C02_BlockGen Zrs.proofs.C02_FastGen.
Require Import Zrs.model.FrameDec Zrs.model.LitEnc Zrs.proofs.C02_Roundtrip Zrs.proofs.C02_Concrete Zrs.proofs.C16_AnyMatcher.
Require Import Zrs.model.LitComp Zrs.proofs.C02_Closed Zrs.proofs.C16_Closed.
Open Scope Z_scope.

(** any block encoder / matcher: the emitted block is the raw block unless the compressed body is strictly
    smaller and at most 128 KiB; a run is always an RLE block *)
Theorem C16_fallback_decision : forall (cstate : Type) cblock cskip cfallback (cs : cstate) last blk,
  all_same blk = false ->
  let '(body, cs') := cblock cs blk in
  enc_block_fastest cstate cblock cskip cfallback cs last blk =
    if (length blk <=? length body)%nat || (MAX_BLOCK_SIZE <? Z.of_nat (length body))
    then (let* b := block_bytes 0 (length blk) last blk in ROk (b, cfallback cs'))
    else (let* b := block_bytes 2 (length body) last body in ROk (b, cs')).
Proof. intros cstate cblock cskip cfallback cs last blk H. unfold enc_block_fastest. rewrite H. destruct (cblock cs blk). reflexivity. Qed.

Theorem C16_size_bound_for_any_matcher : forall (cstate : Type) cblock cskip cfallback creset lv slice wsize hash32 (cs : cstate) data script out cs' r',
  (1 <= slice)%nat -> (forall h x, hash32 = Some h -> length (h x) = 4%nat) ->
  compress_frame cstate cblock cskip cfallback creset lv slice wsize hash32 cs {| rd_data := data; rd_script := script |} = ROk (out, cs', r') ->
  (length out <= 6 + length data + 3 * (length data / slice + 1) + (if is_some hash32 then 4 else 0))%nat.
Proof. exact frame_size_bound. Qed.

(** every sequence count up to the maximum (one sequence per 3 bytes of a 128 KiB block is 43690 < 98047) is written
    in a form the decoder reads back -- the statement finding F3 violated *)
Theorem C16_sequence_count_roundtrip : forall n, 1 <= n <= 98047 ->
  exists bytes, encode_seqnum n [] = ROk (tt, bytes) /\ bytes_ok bytes = true /\
    sequences_header_parse 0 None (bytes ++ [228]) = ROk (Z.of_nat (length bytes) + 1, n, Some 228) /\
    encode_seqnum_safe n [] = true.
Proof. exact seqnum_roundtrip. Qed.

(** every literal length 0..131071, match length 3..131074 and offset value below 2^32 maps to a code and extra bits
    from which the decoder's tables give back the value *)
Theorem C16_literal_length_codes : forall v, 0 <= v <= 131071 ->
  exists c a n b, encode_literal_length v = ROk (c, a, n) /\ lookup_ll_code c = ROk (b, n) /\
                  0 <= c <= 35 /\ 0 <= a < 2 ^ n /\ b + a = v /\ encode_literal_length_safe v = true.
Proof. exact ll_roundtrip. Qed.
Theorem C16_match_length_codes : forall v, 3 <= v <= 131074 ->
  exists c a n b, encode_match_len v = ROk (c, a, n) /\ lookup_ml_code c = ROk (b, n) /\
                  0 <= c <= 52 /\ 0 <= a < 2 ^ n /\ b + a = v /\ encode_match_len_safe v = true.
Proof. exact ml_roundtrip. Qed.
Theorem C16_offset_codes : forall v, 1 <= v < 2 ^ 32 ->
  let '(c, a, n) := encode_offset v in
  c = n /\ 0 <= c <= 31 /\ 0 <= a < 2 ^ c /\ 2 ^ c + a = v /\ encode_offset_safe v = true.
Proof. exact encode_offset_spec. Qed.

(** ANY matcher: if what it reports for a block -- matches with their preceding literals, then possibly trailing
    literals -- rebuilds the block from the bytes before it with in-range distances ([apply_seqs], the contract of the
    property), then the decoder, executing what the block encoder makes of that report (one literal buffer;
    literal length, match length, offset + 3 per match), appends exactly the block to any buffer ending with those
    bytes, for any offset history *)
Theorem C16_any_valid_parse_executes : forall ts tail H data buf hist pre,
  Forall is_triple ts -> (tail = [] \/ exists l, tail = [MLit l]) ->
  apply_seqs H (ts ++ tail) = Some (H ++ data) ->
  db_wf buf -> db_rev buf = rev H ++ pre -> hist3 hist -> Z.of_nat (length data) <= MAX_BLOCK_SIZE ->
  exists buf' hist',
    execute_sequences (mseqs_seqs (ts ++ tail)) (mseqs_lits (ts ++ tail)) buf hist = ROk (buf', hist') /\
    db_wf buf' /\ db_rev buf' = rev (H ++ data) ++ pre /\ hist3 hist' /\
    db_dict buf' = db_dict buf /\ db_window buf' = db_window buf /\ db_hashed_rev buf' = db_hashed_rev buf.
Proof. exact matcher_output_executes. Qed.

(** ... and through the bytes of the block when its literals go out raw: the block body the model writes for that
    report is decoded by [decompress_block] to exactly that effect (matches of length >= 2; side conditions on the
    tables decidable and evaluated on the real blocks of every run, see C02_raw_literal_block_decodes) *)
Theorem C16_any_valid_parse_block_with_raw_literals : forall ts tail H data dl do dm body sc pre,
  Forall is_triple ts -> (tail = [] \/ exists l, tail = [MLit l]) -> Forall long_enough (ts ++ tail) ->
  apply_seqs H (ts ++ tail) = Some (H ++ data) -> Z.of_nat (length data) <= MAX_BLOCK_SIZE ->
  block_raw_lits (mseqs_lits (ts ++ tail)) dl do dm (mseqs_seqs (ts ++ tail)) = ROk body ->
  (mseqs_seqs (ts ++ tail) <> [] -> section_hyps_b dl do dm (mseqs_seqs (ts ++ tail)) = true) ->
  t_max_symbol (fs_ll (sc_fse sc)) = MAX_LITERAL_LENGTH_CODE -> t_max_symbol (fs_of (sc_fse sc)) = MAX_OFFSET_CODE ->
  t_max_symbol (fs_ml (sc_fse sc)) = MAX_MATCH_LENGTH_CODE ->
  db_wf (sc_buf sc) -> db_rev (sc_buf sc) = rev H ++ pre -> hist3 (sc_hist sc) ->
  exists sc',
    decompress_block (zlen body) sc body = ROk sc' /\
    db_wf (sc_buf sc') /\ db_rev (sc_buf sc') = rev (H ++ data) ++ pre /\ hist3 (sc_hist sc') /\
    sc_huf sc' = sc_huf sc /\ db_dict (sc_buf sc') = db_dict (sc_buf sc) /\ db_window (sc_buf sc') = db_window (sc_buf sc) /\
    db_hashed_rev (sc_buf sc') = db_hashed_rev (sc_buf sc) /\
    t_max_symbol (fs_ll (sc_fse sc')) = MAX_LITERAL_LENGTH_CODE /\ t_max_symbol (fs_of (sc_fse sc')) = MAX_OFFSET_CODE /\
    t_max_symbol (fs_ml (sc_fse sc')) = MAX_MATCH_LENGTH_CODE.
Proof. exact fastest_raw_literal_block. Qed.

(** ... and with ANY literals-section encoding the decoder reads back ([hdr], [payload]: raw, Huffman-coded with a
    description, or treeless -- see C13_huffman_literals_section_decodes): the block body decodes to the block *)
Theorem C16_any_valid_parse_block : forall hdr payload ty regen comp streams sc ht' lits,
  (forall rest, lit_header_parse (hdr ++ rest) = ROk (zlen hdr, ty, regen, comp, streams)) ->
  match comp with Some x => x | None => if ty =? 1 then 1 else regen end = zlen payload ->
  regen = zlen lits /\ regen <= MAX_BLOCK_SIZE ->
  decode_literals {| ls_type := ty; ls_regen := regen; ls_comp := comp; ls_streams := streams |} (sc_huf sc) payload = ROk (ht', lits, zlen payload) ->
  forall ts tail H data dl do dm sp pre,
  lits = mseqs_lits (ts ++ tail) ->
  Forall is_triple ts -> (tail = [] \/ exists l, tail = [MLit l]) -> Forall long_enough (ts ++ tail) ->
  apply_seqs H (ts ++ tail) = Some (H ++ data) -> Z.of_nat (length data) <= MAX_BLOCK_SIZE ->
  seq_part dl do dm (mseqs_seqs (ts ++ tail)) = ROk sp ->
  (mseqs_seqs (ts ++ tail) <> [] -> section_hyps_b dl do dm (mseqs_seqs (ts ++ tail)) = true) ->
  t_max_symbol (fs_ll (sc_fse sc)) = MAX_LITERAL_LENGTH_CODE -> t_max_symbol (fs_of (sc_fse sc)) = MAX_OFFSET_CODE ->
  t_max_symbol (fs_ml (sc_fse sc)) = MAX_MATCH_LENGTH_CODE ->
  db_wf (sc_buf sc) -> db_rev (sc_buf sc) = rev H ++ pre -> hist3 (sc_hist sc) ->
  exists sc',
    decompress_block (zlen (hdr ++ payload ++ sp)) sc (hdr ++ payload ++ sp) = ROk sc' /\
    db_wf (sc_buf sc') /\ db_rev (sc_buf sc') = rev (H ++ data) ++ pre /\ hist3 (sc_hist sc') /\
    sc_huf sc' = ht' /\ db_dict (sc_buf sc') = db_dict (sc_buf sc) /\ db_window (sc_buf sc') = db_window (sc_buf sc) /\
    db_hashed_rev (sc_buf sc') = db_hashed_rev (sc_buf sc) /\
    t_max_symbol (fs_ll (sc_fse sc')) = MAX_LITERAL_LENGTH_CODE /\ t_max_symbol (fs_of (sc_fse sc')) = MAX_OFFSET_CODE /\
    t_max_symbol (fs_ml (sc_fse sc')) = MAX_MATCH_LENGTH_CODE.
Proof. exact valid_parse_block. Qed.

(** the property at frame level: for EVERY matcher -- any state type [M], step function, invariant, retained bytes and
    advertised window -- that meets the contract (each block's report is matches of length >= 3 and distance within the
    window with their preceding literals, then at most one trailing literal run, and rebuilds the block from the
    retained bytes; a reset forgets everything), and every literals encoder meeting O2 (see C02), compressing ANY input
    with any read fragmentation, block size and reuse history gives a frame that initialises a new decoder, decodes
    completely, leaves nothing behind, regenerates the input and carries the checksum.  The sequences side (normaliser,
    tables, bit streams) needs no assumption (O1 is proved).  The built-in match finder meets the contract
    ([C16_builtin_matcher_meets_the_contract]). *)
Theorem C16_roundtrip_for_every_well_behaved_matcher :
  forall (M : Type) (mrun : M -> list Z -> bool -> res (M * option (list mseq))) (mreset : M -> M)
         (MI : M -> Prop) (mret : M -> list Z) (mwin : M -> nat),
  (forall m data skip, MI m -> (length data <= mwin m)%nat ->
     exists m' out, mrun m data skip = ROk (m', out) /\ MI m' /\ mwin m' = mwin m /\
       exists dropped H, mret m = dropped ++ H /\ mret m' = H ++ data /\
         if skip then out = None
         else exists seqs, out = Some seqs /\ apply_seqs H seqs = Some (H ++ data) /\ Forall (match_ok (mwin m)) seqs /\ block_shape seqs) ->
  (forall m, MI m -> MI (mreset m) /\ mwin (mreset m) = mwin m /\ mret (mreset m) = []) ->
  forall litenc,
  (forall o lits h, (forall t, o = Some t -> h = t) -> zlen lits <= MAX_BLOCK_SIZE ->
     let '(hdr, payload, o') := litenc o lits in
     exists ht', lit_ok h lits hdr payload ht' /\ (forall t, o' = Some t -> ht' = t)) ->
  forall slice wsize hash32 cs data script frame cs' r',
  UInit M MI mwin cs -> 1 <= Z.of_nat slice <= 131072 -> 1 <= wsize <= 2 ^ 27 ->
  (forall h x, hash32 = Some h -> length (h x) = 4%nat) ->
  compress_frame (ucst M) (ublock M mrun litenc) (uskip M mrun) (ufallback M) (ureset M mreset) LFastest slice wsize hash32 cs
    {| rd_data := data; rd_script := script |} = ROk (frame, cs', r') ->
  exists d1 rest evs s1 d2 s2,
    fdec_reset fdec_new frame = ROk (d1, rest, evs) /\ fd_state d1 = Some s1 /\
    fdec_decode_blocks d1 rest SAll = ROk (d2, [], true) /\ fd_state d2 = Some s2 /\
    buf_content s2 = data /\
    fr_checksum s2 = match hash32 with Some h => Some (le_val (h data)) | None => None end.
Proof. exact any_matcher_roundtrip. Qed.

Theorem C16_builtin_matcher_meets_the_contract : forall m data skip, DInv m -> (length data <= max_window m)%nat ->
  exists m' out, mstep m (OpBlock data skip) = ROk (m', out) /\ DInv m' /\ max_window m' = max_window m /\
    exists dropped H, retained m = dropped ++ H /\ retained m' = H ++ data /\
      if skip then out = None
      else exists seqs, out = Some seqs /\ apply_seqs H seqs = Some (H ++ data) /\ Forall (match_ok (max_window m)) seqs /\ block_shape seqs.
Proof. exact builtin_meets_contract. Qed.

(** ... and with the modelled literals part (model/LitComp.v; C02_literals_part_meets_O2) in the place of the parameter:
    the matcher's contract is the only premise left *)
Theorem C16_roundtrip_for_every_well_behaved_matcher_closed :
  forall (M : Type) (mrun : M -> list Z -> bool -> res (M * option (list mseq))) (mreset : M -> M)
         (MI : M -> Prop) (mret : M -> list Z) (mwin : M -> nat),
  (forall m data skip, MI m -> (length data <= mwin m)%nat ->
     exists m' out, mrun m data skip = ROk (m', out) /\ MI m' /\ mwin m' = mwin m /\
       exists dropped H, mret m = dropped ++ H /\ mret m' = H ++ data /\
         if skip then out = None
         else exists seqs, out = Some seqs /\ apply_seqs H seqs = Some (H ++ data) /\ Forall (match_ok (mwin m)) seqs /\ block_shape seqs) ->
  (forall m, MI m -> MI (mreset m) /\ mwin (mreset m) = mwin m /\ mret (mreset m) = []) ->
  forall slice wsize hash32 cs data script frame cs' r',
  UInit2 M MI mwin _ cs -> 1 <= Z.of_nat slice <= 131072 -> 1 <= wsize <= 2 ^ 27 ->
  (forall h x, hash32 = Some h -> length (h x) = 4%nat) ->
  compress_frame (ucst2 M (option codes_t)) (ublock2 M mrun _ litenc_model) (uskip2 M mrun _) (ufallback2 M _ None) (ureset2 M mreset _ None) LFastest slice wsize hash32 cs
    {| rd_data := data; rd_script := script |} = ROk (frame, cs', r') ->
  exists d1 rest evs s1 d2 s2,
    fdec_reset fdec_new frame = ROk (d1, rest, evs) /\ fd_state d1 = Some s1 /\
    fdec_decode_blocks d1 rest SAll = ROk (d2, [], true) /\ fd_state d2 = Some s2 /\
    buf_content s2 = data /\
    fr_checksum s2 = match hash32 with Some h => Some (le_val (h data)) | None => None end.
Proof. exact any_matcher_roundtrip_closed. Qed.

Print Assumptions C16_roundtrip_for_every_well_behaved_matcher_closed.
Print Assumptions C16_roundtrip_for_every_well_behaved_matcher.
Print Assumptions C16_builtin_matcher_meets_the_contract.
Print Assumptions C16_any_valid_parse_block.
Print Assumptions C16_any_valid_parse_executes.
Print Assumptions C16_any_valid_parse_block_with_raw_literals.
Print Assumptions C16_fallback_decision.
Print Assumptions C16_size_bound_for_any_matcher.
Print Assumptions C16_sequence_count_roundtrip.
Print Assumptions C16_literal_length_codes.
Print Assumptions C16_match_length_codes.
Print Assumptions C16_offset_codes.
