(** Property C06 -- the decoded stream is independent of how the caller drives the decoder.
    What is proved here (for every buffer state, every sink behaviour, every position of the ring buffer's seam,
    every sequence of drain calls):  the bytes handed out are a prefix of the buffered bytes, each handed out exactly
    once and in order; exactly those bytes are fed to the hasher; nothing else of the decoder state changes; while the
    frame is unfinished at least [window] bytes stay behind; decoding blocks only appends and counts exactly the bytes
    it takes from the source; and whatever the block loop decodes with less history behind the buffer it decodes with
    more (so draining, which only removes the oldest bytes, cannot change the bytes of a frame whose offsets stay
    inside what is retained).  Frames with a dictionary are covered by the correspondence run only for that last part. *)
Require Import Zrs.lib.RsPrelude Zrs.gen.Generated Zrs.model.BlockDec Zrs.model.FrameDec.
Require Import Zrs.proofs.C06_Drain Zrs.proofs.C05_Block Zrs.proofs.C06_Frame.
Require Import Zrs.proofs.C06_History Zrs.proofs.C05_Block.
Open Scope Z_scope.

(** the common drain routine with ANY sink: no byte lost, none duplicated, hash = delivered *)
Theorem C06_sink_no_loss_no_dup : forall St (sstep : St -> Z -> sink_resp * St) b amount split st,
  db_wf b -> 0 <= amount <= db_len b ->
  let '(out, b', ok, st') := db_drain_to_sink St sstep b amount split st in
  out ++ db_all b' = db_all b /\ db_hashed b' = db_hashed b ++ out /\ db_wf b' /\
  Z.of_nat (length out) <= amount /\ db_len b' = db_len b - Z.of_nat (length out) /\
  db_dict b' = db_dict b /\ db_window b' = db_window b /\ db_total_out b' = db_total_out b.
Proof. exact drain_to_sink_spec. Qed.

Theorem C06_collect : forall d s out d', fd_state d = Some s -> st_ok s -> fdec_collect d = (Some out, d') ->
  exists s', fd_state d' = Some s' /\ drained s s' out /\
    (st_is_finished s = false -> Z.min (db_window (st_buf s)) (db_len (st_buf s)) <= db_len (st_buf s')).
Proof. exact collect_spec. Qed.

Theorem C06_read : forall d s n out d', fd_state d = Some s -> st_ok s -> 0 <= n -> fdec_read d n = (out, d') ->
  exists s', fd_state d' = Some s' /\ drained s s' out /\ Z.of_nat (length out) <= n /\
    (fr_finished s = false -> Z.min (db_window (st_buf s)) (db_len (st_buf s)) <= db_len (st_buf s')).
Proof. exact read_spec. Qed.

Theorem C06_collect_to_writer : forall St (sstep : St -> Z -> sink_resp * St) d s split st out d' ok st',
  fd_state d = Some s -> st_ok s -> 0 <= db_window (st_buf s) ->
  fdec_collect_to_writer sstep d split st = (out, d', ok, st') ->
  exists s', fd_state d' = Some s' /\ drained s s' out /\
    (st_is_finished s = false -> Z.min (db_window (st_buf s)) (db_len (st_buf s)) <= db_len (st_buf s')).
Proof. exact collect_to_writer_spec. Qed.

(** any interleaving of collect / read / collect_to_writer calls *)
Theorem C06_any_drain_program : forall St (sstep : St -> Z -> sink_resp * St) ops d s st,
  fd_state d = Some s -> st_ok s -> 0 <= db_window (st_buf s) ->
  let '(l, d', st') := drain_run St sstep d st ops in exists s', fd_state d' = Some s' /\ drained s s' l.
Proof. exact drain_run_spec. Qed.

(** decoding only appends to the buffer and never touches the hasher; it consumes exactly what it counts *)
Theorem C06_decode_blocks_appends : forall fuel s src strat len_before blocks_before s' rest,
  st_ok s -> bytes_ok src = true ->
  decode_blocks_loop fuel s src strat len_before blocks_before = ROk (s', rest) ->
  st_ok s' /\ db_same_meta (st_buf s) (st_buf s') /\ fr_header s' = fr_header s /\
  fr_bytes_read s' - fr_bytes_read s = Z.of_nat (length src) - Z.of_nat (length rest) /\
  db_len (st_buf s) <= db_len (st_buf s') /\ fr_blocks s < fr_blocks s' /\
  (strat <> SAll -> db_len (st_buf s') <= strat_bound strat s len_before blocks_before).
Proof. exact decode_blocks_loop_inv. Qed.

(** draining only removes the oldest bytes of the buffer: whatever the block loop decodes with LESS history it decodes
    with MORE history -- the same frame state, the extra history still behind the buffer -- so for frames whose offsets
    stay inside what is retained the decoded bytes do not depend on whether and when the caller drained (frames without
    dictionary; with one, the reach of the dictionary itself depends on the output count: C09) *)
Theorem C06_more_history_same_result : forall fuel s src lb lb' bb s' rest old,
  st_ok s -> db_dict (sc_buf (fr_scratch s)) = [] -> bytes_ok src = true ->
  decode_blocks_loop fuel s src SAll lb bb = ROk (s', rest) ->
  decode_blocks_loop fuel (st_extend s old) src SAll lb' bb = ROk (st_extend s' old, rest).
Proof. exact loop_more_history. Qed.

Theorem C06_sequences_more_history : forall seqs lits buf hist buf' hist' old,
  db_wf buf -> db_dict buf = [] -> hist_ok hist -> Forall seq_ok seqs ->
  execute_sequences seqs lits buf hist = ROk (buf', hist') ->
  execute_sequences seqs lits (extend buf old) hist = ROk (extend buf' old, hist').
Proof. exact execute_sequences_more_history. Qed.

Print Assumptions C06_more_history_same_result.
Print Assumptions C06_sequences_more_history.
Print Assumptions C06_sink_no_loss_no_dup.
Print Assumptions C06_collect.
Print Assumptions C06_read.
Print Assumptions C06_collect_to_writer.
Print Assumptions C06_any_drain_program.
Print Assumptions C06_decode_blocks_appends.
