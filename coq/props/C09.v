(** Property C09 -- dictionary frames decode correctly; a missing dictionary is an error. *)
Require Import Zrs.lib.RsPrelude Zrs.gen.Generated Zrs.model.Headers Zrs.model.FseDec Zrs.model.HufDec Zrs.model.BlockDec Zrs.model.FrameDec.
Require Import Zrs.proofs.C06_Drain Zrs.proofs.C05_Block Zrs.proofs.C07_Reuse Zrs.proofs.C09_Lz Zrs.proofs.C09_Dict.
Open Scope Z_scope.

(** the chunked copy of the implementation is the byte-wise LZ77 copy, every length and offset *)
Theorem C09_chunked_copy_is_lz77 : forall n off r, (1 <= off)%nat -> (off <= length r)%nat ->
  lz_copy_fast n off r = lz_copy n off r.
Proof. exact lz_copy_fast_eq. Qed.

(** a match may reach into the dictionary: the result is the LZ77 copy on "dictionary content ++ output so far",
    for every alignment of the match with the boundary; the offset is within dictionary plus output *)
Theorem C09_match_reaches_into_dictionary : forall b off ml b', db_wf b -> 1 <= off -> 0 <= ml ->
  db_repeat b off ml = ROk b' ->
  off <= db_len b + zlen (db_dict b) /\
  db_rev b' ++ rev (db_dict b) = lz_copy (Z.to_nat ml) (Z.to_nat off) (db_rev b ++ rev (db_dict b)) /\
  db_dict b' = db_dict b.
Proof. exact db_repeat_spec. Qed.

(** whole sequence sections: decoding with a dictionary is decoding with the dictionary content as earlier output *)
Theorem C09_dictionary_content_is_prior_output : forall seqs lits buf flat hist ssum buf' hist' rest ssum',
  db_wf buf -> hist_ok hist -> Forall seq_ok seqs -> flat_of buf flat ->
  exec_loop seqs lits buf hist ssum = ROk (buf', hist', rest, ssum') ->
  exists flat', exec_loop seqs lits flat hist ssum = ROk (flat', hist', rest, ssum') /\ flat_of buf' flat'.
Proof. exact exec_loop_dict_is_history. Qed.

Theorem C09_offset_beyond_dictionary_plus_output_rejected : forall b off ml, db_wf b ->
  db_len b + zlen (db_dict b) < off -> exists e, db_repeat b off ml = RErr e.
Proof. exact db_repeat_rejects_far. Qed.

Theorem C09_dictionary_out_of_reach_beyond_window : forall b off ml, db_window b < db_total_out b -> db_len b < off ->
  db_repeat b off ml = RErr "OffsetTooBig".
Proof. exact db_repeat_dict_out_of_window. Qed.

(** a frame naming a dictionary that was not registered is refused, whatever the decoder's history *)
Theorem C09_missing_dictionary_is_error : forall d src h n w rest id,
  frame_front src (fd_max_window d) = inl (ROk (h, n, w, rest)) -> fh_dict_id h = Some id ->
  (forall dd, In dd (fd_dicts d) -> d_id dd <> id) ->
  fdec_reset d src = RErr "DictNotProvided".
Proof. exact missing_dict_is_error. Qed.

(** with the dictionary registered, the frame starts from the dictionary's tables, offsets and content *)
Theorem C09_dictionary_is_starting_state : forall d src h n w rest id dd,
  frame_front src (fd_max_window d) = inl (ROk (h, n, w, rest)) -> fh_dict_id h = Some id ->
  find (fun x => d_id x =? id) (fd_dicts d) = Some dd ->
  exists d' evs s, fdec_reset d src = ROk (d', rest, evs) /\ fd_state d' = Some s /\
    sc_hist (fr_scratch s) = d_hist dd /\ db_dict (sc_buf (fr_scratch s)) = d_content dd /\
    db_rev (sc_buf (fr_scratch s)) = [] /\
    t_decode (fs_ll (sc_fse (fr_scratch s))) = t_decode (fs_ll (d_fse dd)) /\
    t_decode (fs_of (sc_fse (fr_scratch s))) = t_decode (fs_of (d_fse dd)) /\
    t_decode (fs_ml (sc_fse (fr_scratch s))) = t_decode (fs_ml (d_fse dd)) /\
    ht_decode (sc_huf (fr_scratch s)) = ht_decode (d_huf dd) /\ fr_using_dict s = Some id.
Proof. exact dict_is_starting_state. Qed.

(** a dictionary used for one frame leaves nothing behind for the next frame: the reset state after a dictionary
    frame is the state of a new decoder *)
Theorem C09_dictionary_does_not_outlive_its_frame : forall sc dd w, scratch_alphabets_ok sc ->
  scratch_reset (scratch_init_from_dict sc dd) w = scratch_new w.
Proof. exact dict_does_not_outlive_frame. Qed.

Example C09_non_vacuous :
  let b := {| db_rev := [7]; db_len := 1; db_dict := [1; 2; 3; 4]; db_window := 1024; db_total_out := 1; db_hashed_rev := [] |} in
  match db_repeat b 4 6 with ROk b' => rev (db_rev b') = [7; 2; 3; 4; 7; 2; 3] | _ => False end.
Proof. vm_compute. reflexivity. Qed.

Print Assumptions C09_chunked_copy_is_lz77.
Print Assumptions C09_match_reaches_into_dictionary.
Print Assumptions C09_dictionary_content_is_prior_output.
Print Assumptions C09_offset_beyond_dictionary_plus_output_rejected.
Print Assumptions C09_dictionary_out_of_reach_beyond_window.
Print Assumptions C09_missing_dictionary_is_error.
Print Assumptions C09_dictionary_is_starting_state.
Print Assumptions C09_dictionary_does_not_outlive_its_frame.
