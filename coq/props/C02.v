(** Property C02 -- compress then decompress returns the input.
    [compress_frame] is the model of FrameCompressor::compress (coq/model/FrameEnc.v) with the encoder of one
    compressed block as a parameter; the decoder is the model used for C01-C11. *)
Require Import Zrs.lib.RsPrelude Zrs.gen.Generated Zrs.model.Headers Zrs.model.BlockDec Zrs.model.FrameDec Zrs.model.FrameEnc.
Require Import Zrs.proofs.C15_Frame Zrs.proofs.C02_Roundtrip Zrs.proofs.C02_Fastest.
Require Import Zrs.model.FseDec Zrs.model.SeqSection Zrs.model.BlockEnc Zrs.proofs.C12_SeqStream Zrs.proofs.C02_Block.
Require Import Zrs.model.Matcher Zrs.proofs.C06_Drain Zrs.proofs.C17_Matcher Zrs.proofs.C17_Shape Zrs.proofs.C02_Glue Zrs.proofs.C02_FastBlock.
Require Import Zrs.model.HufDec Zrs.model.LitEnc Zrs.proofs.C02_Concrete.
Require Import Zrs.model.SeqNorm Zrs.proofs.C02_O1.
Require Import Zrs.proofs.C02_HufSide Zrs.proofs.C02_O2Table.
Require Import Zrs.model.HufEnc Zrs.proofs.C13_Agree Zrs.proofs.C02_O2Huffman Zrs.proofs.C02_O2Complete.
Require Import Permutation Zrs.proofs.C02_O2Shape Zrs.proofs.C02_O2Treeless.
Require Import Zrs.model.BitStream Zrs.model.SeqEnc Zrs.model.FseEnc Zrs.model.FseNorm Zrs.model.WeightEnc Zrs.model.HufCounts Zrs.proofs.C13_Direct Zrs.proofs.C13_WeightModel Zrs.proofs.C02_O2Counts Zrs.proofs.C02_O2Compressor Zrs.model.LitComp Zrs.proofs.C02_LitPart Zrs.proofs.C02_Closed.
Open Scope Z_scope.

(** level Uncompressed: every input, every fragmentation of the source reads, every block size up to 128 KiB, every
    window up to 128 MiB, any (reused) compressor state, with or without the hash feature: the frame initialises a
    new decoder, decodes to the end, leaves no byte behind, regenerates exactly the input and carries the checksum
    the compressor computed *)
Theorem C02_uncompressed_roundtrip : forall (cstate : Type) cblock cskip cfallback creset slice wsize hash32 (cs : cstate) data script,
  1 <= Z.of_nat slice <= 131072 -> 1 <= wsize <= 2 ^ 27 ->
  (forall h x, hash32 = Some h -> length (h x) = 4%nat) ->
  exists frame cs' r',
    compress_frame cstate cblock cskip cfallback creset LUncompressed slice wsize hash32 cs
      {| rd_data := data; rd_script := script |} = ROk (frame, cs', r') /\
    exists d1 rest evs s1 d2 s2,
      fdec_reset fdec_new frame = ROk (d1, rest, evs) /\ fd_state d1 = Some s1 /\
      fdec_decode_blocks d1 rest SAll = ROk (d2, [], true) /\ fd_state d2 = Some s2 /\
      buf_content s2 = data /\
      fr_checksum s2 = match hash32 with Some h => Some (le_val (h data)) | None => None end.
Proof. exact uncompressed_roundtrip. Qed.

(** the read loop: whatever sizes the reader hands out, a block is the next [slice] bytes (not last) or all that is
    left (last) *)
Theorem C02_blocks_independent_of_fragmentation : forall fuel slice acc r,
  (length acc < slice)%nat -> (slice - length acc < fuel)%nat ->
  exists r', fill_block fuel slice acc r =
    (if (slice - length acc <=? length (rd_data r))%nat
     then ROk (acc ++ firstn (slice - length acc) (rd_data r), false, r')
     else ROk (acc ++ rd_data r, true, r')) /\
    rd_data r' = skipn (slice - length acc) (rd_data r).
Proof. exact fill_block_spec. Qed.

(** the block loop of every level: the output is the header followed by the encodings of [blocks_of] the input *)
Theorem C02_frame_is_header_then_blocks : forall (cstate : Type) cblock cskip cfallback (creset : cstate -> cstate) fuel lv slice (cs : cstate) r out,
  (1 <= slice)%nat -> (length (rd_data r) < fuel)%nat ->
  drop_reader cstate (compress_loop cstate cblock cskip cfallback fuel lv slice cs r out) =
    (let* (bs, cs') := enc_blocks cstate cblock cskip cfallback lv cs (blocks_of fuel slice (rd_data r)) in ROk (out ++ bs, cs')).
Proof. intros. apply (compress_loop_spec cstate cblock cskip cfallback creset); assumption. Qed.

(** raw and RLE blocks as the compressor writes them are read back for every decoder state *)
Theorem C02_block_header_read_back : forall ty size last payload rest,
  0 <= ty <= 2 -> Z.of_nat size <= 131072 ->
  exists hdr, block_bytes ty size last payload = ROk (hdr ++ payload) /\ length hdr = 3%nat /\
    read_block_header_src ((hdr ++ payload) ++ rest) =
      ROk (last, ty, (if (ty =? 0) || (ty =? 1) then Z.of_nat size else 0), (if ty =? 1 then 1 else Z.of_nat size), payload ++ rest).
Proof. exact block_header_read. Qed.

Theorem C02_rle_block_decodes : forall sc (b : Z) n rest,
  decode_block_content 1 (Z.of_nat n) 1 sc ([b] ++ rest) = ROk (sc_push_raw sc (repeat_z b n), 1, rest).
Proof. exact rle_content. Qed.

Theorem C02_run_detection_is_exact : forall l, all_same l = true -> l = repeat_z (nth 0 l 0) (length l).
Proof. exact all_same_repeat. Qed.

(** level Fastest, abstractly: the same conclusion for every block-level encoder that meets four obligations, stated
    with a relation [Rel] between the encoder state and the decoder state it assumes: (1) an emitted compressed block
    decodes to its input and keeps the states related, (2) a run sent as an RLE block keeps them related, (3) a block
    whose compressed form is discarded for a raw block keeps them related (the obligation finding F5 violated), (4) the
    per-frame reset relates to a new decoder (for initial states satisfying [Cinit]).  Blocks are non-empty and at most
    128 KiB.  The theorem below ([C02_fastest_roundtrip]) discharges all four for the modelled block encoder. *)
Theorem C02_fastest_roundtrip_given_block_encoder : forall (cstate : Type) cblock cskip cfallback (Rel : cstate -> scratch -> Prop),
  (forall cs sc blk body cs', Rel cs sc -> blk <> [] -> Z.of_nat (length blk) <= 131072 ->
     cblock cs blk = (body, cs') -> all_same blk = false ->
     (length body < length blk)%nat -> Z.of_nat (length body) <= MAX_BLOCK_SIZE ->
     exists sc', decompress_block (Z.of_nat (length body)) sc body = ROk sc' /\ sc_content sc' = sc_content sc ++ blk /\ Rel cs' sc') ->
  (forall cs sc blk, Rel cs sc -> blk <> [] -> Z.of_nat (length blk) <= 131072 ->
     all_same blk = true -> Rel (cskip cs blk) (sc_push_raw sc blk)) ->
  (forall cs sc blk body cs', Rel cs sc -> blk <> [] -> Z.of_nat (length blk) <= 131072 ->
     cblock cs blk = (body, cs') -> Rel (cfallback cs') (sc_push_raw sc blk)) ->
  forall creset (Cinit : cstate -> Prop), (forall cs w, Cinit cs -> Rel (creset cs) (scratch_new w)) ->
  forall slice wsize hash32 cs data script frame cs' r',
  Cinit cs -> 1 <= Z.of_nat slice <= 131072 -> 1 <= wsize <= 2 ^ 27 ->
  (forall h x, hash32 = Some h -> length (h x) = 4%nat) ->
  compress_frame cstate cblock cskip cfallback creset LFastest slice wsize hash32 cs
    {| rd_data := data; rd_script := script |} = ROk (frame, cs', r') ->
  exists d1 rest evs s1 d2 s2,
    fdec_reset fdec_new frame = ROk (d1, rest, evs) /\ fd_state d1 = Some s1 /\
    fdec_decode_blocks d1 rest SAll = ROk (d2, [], true) /\ fd_state d2 = Some s2 /\
    buf_content s2 = data /\
    fr_checksum s2 = match hash32 with Some h => Some (le_val (h data)) | None => None end.
Proof. exact fastest_roundtrip. Qed.

(** level Fastest with the block encoder spelled out ([cblock], proofs/C02_Concrete.v): the built-in match finder model,
    [compress_block]'s split of its report into one literal buffer and (literal length, match length, offset + 3)
    triples, the sequences part (count, mode byte, three table descriptions, bit stream), and the literals section --
    for every input, every fragmentation of the reads, every block size up to 128 KiB, every reuse history of the
    compressor, with or without the checksum.  The only things left abstract are the two TABLE BUILDERS, and what is
    assumed of them is decidable per block and evaluated on every block of every run:
      O1  the normaliser [norm] yields, for the sequences of a block, three distributions meeting [section_hyps_b]
          (normalised, within the format's limits, tables build and tile, every used code has states);
      O2  the literals encoder [litenc] yields a header and payload that the decoder reads back as the literals
          ([lit_ok]; raw literals always do -- [C02_raw_literals_meet_O2] -- and Huffman-coded literals do whenever the
          table resolves the code words -- [C13_huffman_literals_section_decodes]), and remembers only a table the
          decoder holds.
    Everything else -- match finder, LZ execution, offset coding, bit streams, headers, block framing, checksum -- is
    proved. *)
Theorem C02_fastest_roundtrip : forall norm litenc,
  (forall seqs, seqs <> [] -> forallb seq_range_b seqs = true -> Z.of_nat (length seqs) <= 98047 ->
     let '(dl, do, dm) := norm seqs in section_hyps_b dl do dm seqs = true) ->
  (forall o lits h, (forall t, o = Some t -> h = t) -> zlen lits <= MAX_BLOCK_SIZE ->
     let '(hdr, payload, o') := litenc o lits in
     exists ht', lit_ok h lits hdr payload ht' /\ (forall t, o' = Some t -> ht' = t)) ->
  forall slice wsize hash32 cs data script frame cs' r',
  Cinit cs -> 1 <= Z.of_nat slice <= 131072 -> 1 <= wsize <= 2 ^ 27 ->
  (forall h x, hash32 = Some h -> length (h x) = 4%nat) ->
  compress_frame cst (cblock norm litenc) cskip cfallback creset LFastest slice wsize hash32 cs
    {| rd_data := data; rd_script := script |} = ROk (frame, cs', r') ->
  exists d1 rest evs s1 d2 s2,
    fdec_reset fdec_new frame = ROk (d1, rest, evs) /\ fd_state d1 = Some s1 /\
    fdec_decode_blocks d1 rest SAll = ROk (d2, [], true) /\ fd_state d2 = Some s2 /\
    buf_content s2 = data /\
    fr_checksum s2 = match hash32 with Some h => Some (le_val (h data)) | None => None end.
Proof. exact fastest_roundtrip_concrete. Qed.

(** obligation O1 is met by the modelled normaliser ([norm_model]: histograms of the three code kinds, normalised by the
    model of build_table_from_counts, which is compared with the real normaliser on every histogram of a run and whose
    distributions are compared with those read out of every real block): for the sequences of any block the three
    distributions are normalised, within the format's limits, their tables build, are well formed and cover every code
    that occurs *)
Theorem C02_normaliser_meets_O1 : forall seqs, seqs <> [] -> forallb seq_range_b seqs = true -> Z.of_nat (length seqs) <= 98047 ->
  let '(dl, do, dm) := norm_model seqs in section_hyps_b dl do dm seqs = true.
Proof. exact norm_model_meets_O1. Qed.

(** ... so that, with that normaliser, the round trip at level Fastest rests on obligation O2 (the literals encoder) alone *)
Theorem C02_fastest_roundtrip_sequences_closed : forall litenc,
  (forall o lits h, (forall t, o = Some t -> h = t) -> zlen lits <= MAX_BLOCK_SIZE ->
     let '(hdr, payload, o') := litenc o lits in
     exists ht', lit_ok h lits hdr payload ht' /\ (forall t, o' = Some t -> ht' = t)) ->
  forall slice wsize hash32 cs data script frame cs' r',
  Cinit cs -> 1 <= Z.of_nat slice <= 131072 -> 1 <= wsize <= 2 ^ 27 ->
  (forall h x, hash32 = Some h -> length (h x) = 4%nat) ->
  compress_frame cst (cblock norm_model litenc) cskip cfallback creset LFastest slice wsize hash32 cs
    {| rd_data := data; rd_script := script |} = ROk (frame, cs', r') ->
  exists d1 rest evs s1 d2 s2,
    fdec_reset fdec_new frame = ROk (d1, rest, evs) /\ fd_state d1 = Some s1 /\
    fdec_decode_blocks d1 rest SAll = ROk (d2, [], true) /\ fd_state d2 = Some s2 /\
    buf_content s2 = data /\
    fr_checksum s2 = match hash32 with Some h => Some (le_val (h data)) | None => None end.
Proof. intros litenc O2. exact (fastest_roundtrip_concrete norm_model litenc norm_model_meets_O1 O2). Qed.

(** a fresh compressor (and every state reached from it) satisfies [Cinit] *)
Example C02_new_compressor_is_initial : Cinit {| c_d := mgd_new (Z.to_nat 131072) 1; c_ht := None |}.
Proof.
  unfold Cinit. cbn [c_d]. destruct (mgd_new_inv (Z.to_nat 131072) 1) as (HI & Hm & _). split; [exact HI|]. rewrite Hm. lia.
Qed.

(** raw literals meet obligation O2 whatever table the decoder holds *)
Theorem C02_raw_literals_meet_O2 : forall h lits, zlen lits <= MAX_BLOCK_SIZE ->
  lit_ok h lits (raw_lit_header (zlen lits)) lits h.
Proof. exact raw_lit_ok. Qed.

(** a compressed block whose literals go out raw (what [compress_block] writes when a block has at most 1024 literals
    or a single literal value): literals header, literal bytes, sequence count, mode byte 0xA8, three table
    descriptions and the bit stream -- [decompress_block] reads all of it back and does exactly "execute the coded
    sequences over the coded literals", from any decoder state with the right alphabets.  The side conditions on the
    distributions and tables are decidable ([section_hyps_b]); they are evaluated, and the block model is compared byte
    for byte with the real block, on every raw-literal block the real compressor emits in the run. *)
Theorem C02_raw_literal_block_decodes : forall lits dl do dm seqs body sc,
  block_raw_lits lits dl do dm seqs = ROk body ->
  zlen lits <= MAX_BLOCK_SIZE -> Z.of_nat (length seqs) <= 98047 ->
  (seqs <> [] -> section_hyps_b dl do dm seqs = true) ->
  t_max_symbol (fs_ll (sc_fse sc)) = MAX_LITERAL_LENGTH_CODE -> t_max_symbol (fs_of (sc_fse sc)) = MAX_OFFSET_CODE ->
  t_max_symbol (fs_ml (sc_fse sc)) = MAX_MATCH_LENGTH_CODE ->
  decompress_block (zlen body) sc body =
    match seqs with
    | [] => ROk {| sc_huf := sc_huf sc; sc_fse := sc_fse sc; sc_buf := db_push (sc_buf sc) lits; sc_hist := sc_hist sc |}
    | _ =>
        match build_table MAX_LITERAL_LENGTH_CODE dl, build_table MAX_MATCH_LENGTH_CODE dm, build_table MAX_OFFSET_CODE do with
        | ROk Dll, ROk Dml, ROk Dof =>
            let* (buf, hist) := execute_sequences seqs lits (sc_buf sc) (sc_hist sc) in
            ROk {| sc_huf := sc_huf sc; sc_fse := C12_SeqStream.sc Dll Dml Dof; sc_buf := buf; sc_hist := hist |}
        | _, _, _ => RErr "tables"
        end
    end.
Proof. exact raw_literal_block_decodes. Qed.

(** one block of level Fastest, end to end, when the literals go out raw: the built-in match finder's step on [data]
    (any reachable match finder state, any block that fits its window), what the block encoder makes of its report,
    the block body, the decoder: the decoder's buffer grows by exactly [data], and it again ends with the bytes the
    match finder retains, so the statement applies to the next block as well *)
Theorem C02_fastest_block_step_with_raw_literals : forall d data d' seqs dl do dm body sc pre,
  DInv d -> (length data <= max_window d)%nat -> Z.of_nat (length data) <= MAX_BLOCK_SIZE ->
  mstep d (OpBlock data false) = ROk (d', Some seqs) ->
  block_raw_lits (mseqs_lits seqs) dl do dm (mseqs_seqs seqs) = ROk body ->
  (mseqs_seqs seqs <> [] -> section_hyps_b dl do dm (mseqs_seqs seqs) = true) ->
  t_max_symbol (fs_ll (sc_fse sc)) = MAX_LITERAL_LENGTH_CODE -> t_max_symbol (fs_of (sc_fse sc)) = MAX_OFFSET_CODE ->
  t_max_symbol (fs_ml (sc_fse sc)) = MAX_MATCH_LENGTH_CODE ->
  db_wf (sc_buf sc) -> db_rev (sc_buf sc) = rev (retained d) ++ pre -> hist3 (sc_hist sc) ->
  exists sc' pre',
    decompress_block (zlen body) sc body = ROk sc' /\
    db_rev (sc_buf sc') = rev data ++ db_rev (sc_buf sc) /\
    db_wf (sc_buf sc') /\ db_rev (sc_buf sc') = rev (retained d') ++ pre' /\ hist3 (sc_hist sc') /\
    sc_huf sc' = sc_huf sc /\ db_dict (sc_buf sc') = db_dict (sc_buf sc) /\ db_window (sc_buf sc') = db_window (sc_buf sc) /\
    t_max_symbol (fs_ll (sc_fse sc')) = MAX_LITERAL_LENGTH_CODE /\ t_max_symbol (fs_of (sc_fse sc')) = MAX_OFFSET_CODE /\
    t_max_symbol (fs_ml (sc_fse sc')) = MAX_MATCH_LENGTH_CODE.
Proof. exact fastest_step_raw_literals. Qed.

(** the table part of obligation O2, for EVERY table: whatever table the decoder builds (at most 255 explicit weights) and
    whatever literals are made of symbols that table delivers (16 .. 128 Ki of them), the side conditions of the Huffman
    literal block theorem hold -- the code read off the table is well formed and resolved, and no stream reaches the
    64 KiB limit of the jump table.  What remains of O2 is that the compressor writes the section the model writes
    (compared byte by byte on every block of every run) *)
Theorem C02_huffman_side_conditions_hold_for_every_table : forall ht src t used lits,
  huf_build_decoder ht src = ROk (t, used) ->
  Forall (fun w => 0 <= w) (ht_weights t) -> (length (ht_weights t) <= 255)%nat ->
  16 <= Z.of_nat (length lits) <= 131072 ->
  Forall (fun s => exists i, 0 <= i < 2 ^ ht_max_bits t /\ h_sym (nth_h (ht_decode t) i) = s) lits ->
  huf_side_b t (code_of_dec t) lits = true.
Proof. exact huf_side_holds. Qed.

(** O2 reduced to a comparison of bytes: if the literals section the compressor writes is the section of the model --
    header, table description, four streams coded with the code read off the table the DECODER builds from that
    description (or, treeless, off the table the decoder already holds) -- then it meets O2 ([lit_ok]); no condition
    on the table remains ([built]: it came out of the decoder's builder with at most 255 explicit weights;
    [deliverable]: every literal is a symbol the table can deliver) *)
Theorem C02_model_literals_section_meets_O2 : forall h t ty desc lits,
  built t -> deliverable t lits -> 16 <= Z.of_nat (length lits) <= 131072 ->
  let code := code_of_dec t in
  let payload := desc ++ huf4_bytes code lits in
  (ty = 2 /\ huf_build_decoder h payload = ROk (t, zlen desc)) \/ (ty = 3 /\ desc = [] /\ h = t) ->
  zlen payload < zlen lits ->
  lit_ok h lits (huf_lit_header ty (zlen lits) (zlen payload)) payload t.
Proof. exact model_section_meets_O2. Qed.

(** O2 for Huffman-coded literals, for ANY weights: whatever weights the compressor chooses -- provided the decoder accepts
    them and every literal has a code -- the section it writes (header, a weight description the decoder reads back as
    those weights [both forms do: C13], four streams coded with the compressor's own canonical code [code_fn codes])
    is read back by the decoder as exactly the literals.  How the weights are chosen (histogram, rank order,
    distribute_weights) plays no role for correctness; what remains of O2 is that the compressor's output has this
    form (compared byte for byte on every block of every run) *)
Theorem C02_huffman_literals_meet_O2_for_any_weights : forall ws dec M bits ranks idxs,
  Forall (fun w => 0 <= w) ws -> (length ws <= 255)%nat ->
  build_table_from_weights ws = ROk (dec, M, bits, ranks, idxs) ->
  exists lw codes, 1 <= lw <= M /\ enc_build_from_weights (ws ++ [lw]) = ROk codes /\ bits = map (bits_of M) (ws ++ [lw]) /\
    forall h desc lits ft,
      Forall (fun s => 0 <= s <= Z.of_nat (length ws) /\ 0 < nth (Z.to_nat s) (ws ++ [lw]) 0) lits ->
      16 <= Z.of_nat (length lits) <= 131072 ->
      let payload := desc ++ huf4_bytes (code_fn codes) lits in
      read_weights h payload = ROk (ws, ft, zlen desc) -> zlen payload < zlen lits ->
      exists t, lit_ok h lits (huf_lit_header 2 (zlen lits) (zlen payload)) payload t.
Proof. exact huffman_section_meets_O2. Qed.

(** ... and in terms of the compressor's own data: EVERY complete weight list (Kraft sum 2^M, M <= 11, at most 256
    symbols).  The decoder accepts the list without the last weight and infers it; the section -- a description read back
    as the weights, four streams in the compressor's canonical code for the full list -- is read back as the literals *)
Theorem C02_huffman_literals_meet_O2_for_every_complete_code : forall ws lw M,
  Forall (fun w => 0 <= w <= MAX_MAX_NUM_BITS) ws -> (length ws <= 255)%nat -> 1 <= lw <= M -> M <= MAX_MAX_NUM_BITS ->
  0 < kraft ws -> kraft (ws ++ [lw]) = 2 ^ M ->
  exists codes, enc_build_from_weights (ws ++ [lw]) = ROk codes /\
    forall h desc lits ft,
      Forall (fun s => 0 <= s <= Z.of_nat (length ws) /\ 0 < nth (Z.to_nat s) (ws ++ [lw]) 0) lits ->
      16 <= Z.of_nat (length lits) <= 131072 ->
      let payload := desc ++ huf4_bytes (code_fn codes) lits in
      read_weights h payload = ROk (ws, ft, zlen desc) -> zlen payload < zlen lits ->
      exists t, lit_ok h lits (huf_lit_header 2 (zlen lits) (zlen payload)) payload t.
Proof. exact huffman_section_for_complete_weights. Qed.

(** ... and for the weights the compressor uses: for every alphabet size n = 2..256 its weight multiset [shape n] is a
    complete code of depth at most 11 (C13, complete sweep); HOWEVER those weights are distributed over the symbols --
    the compressor does it by rank of the counts, unused symbols get weight 0 --, the resulting list is complete, the
    decoder accepts it and the Huffman-coded section is read back as the literals *)
Theorem C02_huffman_literals_meet_O2_for_every_assignment_of_the_shape : forall n sh W,
  2 <= n <= 256 -> shape n = ROk sh -> Permutation (filter (fun w => 0 <? w) W) sh ->
  Forall (fun w => 0 <= w) W -> (length W <= 256)%nat -> 0 < last W 0 ->
  let ws := removelast W in let lw := last W 0 in
  exists codes, enc_build_from_weights W = ROk codes /\
    forall h desc lits ft,
      Forall (fun s => 0 <= s <= Z.of_nat (length ws) /\ 0 < nth (Z.to_nat s) W 0) lits ->
      16 <= Z.of_nat (length lits) <= 131072 ->
      let payload := desc ++ huf4_bytes (code_fn codes) lits in
      read_weights h payload = ROk (ws, ft, zlen desc) -> zlen payload < zlen lits ->
      exists t, lit_ok h lits (huf_lit_header 2 (zlen lits) (zlen payload)) payload t.
Proof. exact huffman_section_for_every_assignment_of_the_shape. Qed.

(** ... and when the compressor re-uses the table of an earlier block (treeless section): the streams are coded with its code
    for the earlier weights, the decoder still holds the table it built from them, and reads back exactly the literals *)
Theorem C02_treeless_huffman_literals_meet_O2 : forall ht0 src t used,
  huf_build_decoder ht0 src = ROk (t, used) -> Forall (fun w => 0 <= w) (ht_weights t) -> (length (ht_weights t) <= 255)%nat ->
  exists lw codes, enc_build_from_weights (ht_weights t ++ [lw]) = ROk codes /\
    forall lits,
      Forall (fun s => 0 <= s <= Z.of_nat (length (ht_weights t)) /\ 0 < nth (Z.to_nat s) (ht_weights t ++ [lw]) 0) lits ->
      16 <= Z.of_nat (length lits) <= 131072 ->
      let payload := huf4_bytes (code_fn codes) lits in
      zlen payload < zlen lits ->
      lit_ok t lits (huf_lit_header 3 (zlen lits) (zlen payload)) payload t.
Proof. exact treeless_section_meets_O2. Qed.

(** the rank assignment of [build_from_counts]: whatever the counts, the weights of the shape land on exactly the
    symbols that occur *)
Theorem C02_weights_by_rank_are_an_assignment_of_the_shape : forall counts, (length counts <= 256)%nat ->
  let n := Z.of_nat (length (filter nzc counts)) in 2 <= n ->
  exists sh W, shape n = ROk sh /\ weights_from_counts counts = ROk W /\ length W = length counts /\
    Permutation (filter posw W) sh /\ Forall (fun w => 0 <= w) W /\
    (forall i, (i < length counts)%nat -> (0 < nth i W 0 <-> nth i counts 0 <> 0)).
Proof. exact weights_from_counts_spec. Qed.

(** the Huffman-coded literals section from the literals alone: table of [build_from_data], description of the weights
    derived back from the code lengths (direct form up to 16 written weights, FSE-compressed above; for the latter the
    < 128 bytes assertion of the source is the one hypothesis), four streams *)
Theorem C02_compressor_huffman_section_from_the_literals : forall data a b h,
  Forall (fun s => 0 <= s <= 255) data -> In a data -> In b data -> a <> b ->
  16 <= zlen data <= 131072 ->
  exists codes, build_from_data data = ROk codes /\
    let written := removelast (enc_weights codes) in
    (1 <= length written <= 255)%nat /\
    ((length written <= 16)%nat ->
       let payload := direct_desc written ++ huf4_bytes (code_fn codes) data in
       zlen payload < zlen data ->
       exists t, lit_ok h data (huf_lit_header 2 (zlen data) (zlen payload)) payload t) /\
    ((16 < length written)%nat -> t_max_symbol (ht_fse h) = 255 ->
       exists al probs d D, norm_counts (weight_hist written) 6 true = ROk (al, probs) /\ desc_bytes al probs = Some d /\
         fse_build_from_probabilities (ht_fse h) al probs = ROk D /\
         let stream := stream_bytes (weight_fields (enc_of_dec D) written) in
         let hb := zlen d + zlen stream in
         hb < 128 ->
         let payload := (hb :: d ++ stream) ++ huf4_bytes (code_fn codes) data in
         zlen payload < zlen data ->
         exists t, lit_ok h data (huf_lit_header 2 (zlen data) (zlen payload)) payload t).
Proof. exact compressor_huffman_section. Qed.

(** the premises are met: 48 literals over three bytes, direct description, payload shorter than the literals *)
Example C02_compressor_huffman_section_example :
  let data := flat_map (fun _ => [7; 7; 7; 9; 7; 12]) (seq 0 8) in
  Forall (fun s => 0 <= s <= 255) data /\ In 7 data /\ In 9 data /\ 16 <= zlen data <= 131072 /\
  exists codes, build_from_data data = ROk codes /\ (length (removelast (enc_weights codes)) <= 16)%nat /\
    zlen (direct_desc (removelast (enc_weights codes)) ++ huf4_bytes (code_fn codes) data) < zlen data.
Proof.
  cbv zeta. split; [repeat constructor; lia|]. split; [vm_compute; tauto|]. split; [vm_compute; tauto|]. split; [vm_compute; split; discriminate|].
  eexists. split; [vm_compute; reflexivity|]. split; [vm_compute; lia|]. vm_compute. reflexivity.
Qed.


(** the compressor's own literals part, block by block (model/LitComp.v: raw literals, a new table with either
    description, or the remembered table): if the decoder holds the table built from the description the remembered
    table was written with, the section is read back as exactly the literals and the same holds afterwards *)
Theorem C02_literals_part_meets_O2 : forall prev lits h hdr payload prev',
  tab_rel prev h -> hinv h -> Forall (fun s => 0 <= s <= 255) lits -> zlen lits <= MAX_BLOCK_SIZE ->
  literals_part prev lits = ROk (hdr, payload, prev') ->
  exists ht', lit_ok h lits hdr payload ht' /\ tab_rel prev' ht' /\ hinv ht'.
Proof. exact literals_part_meets_O2. Qed.

(** the relation holds at the start of every frame (nothing remembered, a new decoder) *)
Example C02_literals_part_initially : tab_rel None huf_new /\ hinv huf_new.
Proof. split; [intros codes E; discriminate|reflexivity]. Qed.

(** ... and the model takes both Huffman endings on concrete literals: a new table for the first buffer (literals type
    2), the remembered table for a second buffer with nearly the same statistics (type 3, table kept) *)
Example C02_literals_part_example :
  let d1 := flat_map (fun _ => [1; 1; 1; 2; 1; 3; 1; 1; 2; 1]) (seq 0 120) in
  let d2 := flat_map (fun _ => [1; 1; 3; 2; 1; 3; 1; 1; 2; 1]) (seq 0 120) in
  exists hdr1 p1 c hdr2 p2,
    literals_part None d1 = ROk (hdr1, p1, Some c) /\ nth 0 hdr1 0 mod 4 = 2 /\
    literals_part (Some c) d2 = ROk (hdr2, p2, Some c) /\ nth 0 hdr2 0 mod 4 = 3.
Proof.
  cbv zeta. do 5 eexists. split; [vm_compute; reflexivity|]. split; [reflexivity|]. split; [vm_compute; reflexivity|reflexivity].
Qed.

(** level Fastest with nothing left as a parameter: the match finder model, the normaliser model (O1 proved) and the
    modelled literals part (O2 proved block by block, threaded through the frame with the remembered-table relation)
    -- every input, every fragmentation of the reads, every block size, every window, every reuse history *)
Theorem C02_fastest_roundtrip_closed : forall slice wsize hash32 cs data script frame cs' r',
  Cinit2 _ cs -> 1 <= Z.of_nat slice <= 131072 -> 1 <= wsize <= 2 ^ 27 ->
  (forall h x, hash32 = Some h -> length (h x) = 4%nat) ->
  compress_frame (cst2 (option codes_t)) (cblock2 norm_model _ litenc_model) (cskip2 _) (cfallback2 _ None) (creset2 _ None) LFastest slice wsize hash32 cs
    {| rd_data := data; rd_script := script |} = ROk (frame, cs', r') ->
  exists d1 rest evs s1 d2 s2,
    fdec_reset fdec_new frame = ROk (d1, rest, evs) /\ fd_state d1 = Some s1 /\
    fdec_decode_blocks d1 rest SAll = ROk (d2, [], true) /\ fd_state d2 = Some s2 /\
    buf_content s2 = data /\
    fr_checksum s2 = match hash32 with Some h => Some (le_val (h data)) | None => None end.
Proof. exact fastest_roundtrip_closed. Qed.

(** a fresh compressor satisfies its premise *)
Example C02_new_compressor_is_initial_closed : Cinit2 _ {| c2_d := mgd_new (Z.to_nat 131072) 1; c2_ht := @None codes_t |}.
Proof.
  unfold Cinit2. cbn [c2_d]. destruct (mgd_new_inv (Z.to_nat 131072) 1) as (HI & Hm & _). split; [exact HI|]. rewrite Hm. lia.
Qed.

Print Assumptions C02_fastest_roundtrip_closed.
Print Assumptions C02_literals_part_meets_O2.
Print Assumptions C02_compressor_huffman_section_from_the_literals.
Print Assumptions C02_weights_by_rank_are_an_assignment_of_the_shape.
Print Assumptions C02_treeless_huffman_literals_meet_O2.
Print Assumptions C02_huffman_literals_meet_O2_for_every_assignment_of_the_shape.
Print Assumptions C02_huffman_literals_meet_O2_for_every_complete_code.
Print Assumptions C02_huffman_literals_meet_O2_for_any_weights.
Print Assumptions C02_model_literals_section_meets_O2.
Print Assumptions C02_huffman_side_conditions_hold_for_every_table.
Print Assumptions C02_fastest_block_step_with_raw_literals.
Print Assumptions C02_raw_literal_block_decodes.
Print Assumptions C02_fastest_roundtrip_given_block_encoder.
Print Assumptions C02_fastest_roundtrip.
Print Assumptions C02_normaliser_meets_O1.
Print Assumptions C02_fastest_roundtrip_sequences_closed.
Print Assumptions C02_raw_literals_meet_O2.
Print Assumptions C02_uncompressed_roundtrip.
Print Assumptions C02_blocks_independent_of_fragmentation.
Print Assumptions C02_frame_is_header_then_blocks.
Print Assumptions C02_block_header_read_back.
Print Assumptions C02_rle_block_decodes.
Print Assumptions C02_run_detection_is_exact.
