(** Property C02 -- compress then decompress returns the input.
    [compress_frame] is the model of FrameCompressor::compress (coq/model/FrameEnc.v) with the encoder of one
    compressed block as a parameter; the decoder is the model used for C01-C11. *)
Require Import Zrs.lib.RsPrelude Zrs.gen.Generated Zrs.model.Headers Zrs.model.BlockDec Zrs.model.FrameDec Zrs.model.FrameEnc.
Require Import Zrs.proofs.C15_Frame Zrs.proofs.C02_Roundtrip Zrs.proofs.C02_Fastest.
Require Import Zrs.model.FseDec Zrs.model.SeqSection Zrs.model.BlockEnc Zrs.proofs.C12_SeqStream Zrs.proofs.C02_Block.
Require Import Zrs.model.Matcher Zrs.proofs.C06_Drain Zrs.proofs.C17_Matcher Zrs.proofs.C17_Shape Zrs.proofs.C02_Glue Zrs.proofs.C02_FastBlock.
Open Scope Z_scope.

(** level Uncompressed: every input, every fragmentation of the source reads, every block size up to 128 KiB, every
    window up to 128 MiB, any (reused) compressor state, with or without the hash feature: the frame initialises a
    new decoder, decodes to the end, leaves no byte behind, regenerates exactly the input and carries the checksum
    the compressor computed *)
Theorem C02_uncompressed_roundtrip : forall (cstate : Type) cblock cskip cfallback creset slice wsize hash32 (cs : cstate) data script,
  1 <= Z.of_nat slice <= 131072 -> 1 <= wsize <= 2 ^ 27 ->
  (forall h x, hash32 = Some h -> length (h x) = 4%nat) ->
  exists frame cs' r',
    compress_frame cstate cblock cskip cfallback creset LUncompressed slice wsize hash32 cs
      {| rd_data := data; rd_script := script |} = ROk (frame, cs', r') /\
    exists d1 rest evs s1 d2 s2,
      fdec_reset fdec_new frame = ROk (d1, rest, evs) /\ fd_state d1 = Some s1 /\
      fdec_decode_blocks d1 rest SAll = ROk (d2, [], true) /\ fd_state d2 = Some s2 /\
      buf_content s2 = data /\
      fr_checksum s2 = match hash32 with Some h => Some (le_val (h data)) | None => None end.
Proof. exact uncompressed_roundtrip. Qed.

(** the read loop: whatever sizes the reader hands out, a block is the next [slice] bytes (not last) or all that is
    left (last) *)
Theorem C02_blocks_independent_of_fragmentation : forall fuel slice acc r,
  (length acc < slice)%nat -> (slice - length acc < fuel)%nat ->
  exists r', fill_block fuel slice acc r =
    (if (slice - length acc <=? length (rd_data r))%nat
     then ROk (acc ++ firstn (slice - length acc) (rd_data r), false, r')
     else ROk (acc ++ rd_data r, true, r')) /\
    rd_data r' = skipn (slice - length acc) (rd_data r).
Proof. exact fill_block_spec. Qed.

(** the block loop of every level: the output is the header followed by the encodings of [blocks_of] the input *)
Theorem C02_frame_is_header_then_blocks : forall (cstate : Type) cblock cskip cfallback (creset : cstate -> cstate) fuel lv slice (cs : cstate) r out,
  (1 <= slice)%nat -> (length (rd_data r) < fuel)%nat ->
  drop_reader cstate (compress_loop cstate cblock cskip cfallback fuel lv slice cs r out) =
    (let* (bs, cs') := enc_blocks cstate cblock cskip cfallback lv cs (blocks_of fuel slice (rd_data r)) in ROk (out ++ bs, cs')).
Proof. intros. apply (compress_loop_spec cstate cblock cskip cfallback creset); assumption. Qed.

(** raw and RLE blocks as the compressor writes them are read back for every decoder state *)
Theorem C02_block_header_read_back : forall ty size last payload rest,
  0 <= ty <= 2 -> Z.of_nat size <= 131072 ->
  exists hdr, block_bytes ty size last payload = ROk (hdr ++ payload) /\ length hdr = 3%nat /\
    read_block_header_src ((hdr ++ payload) ++ rest) =
      ROk (last, ty, (if (ty =? 0) || (ty =? 1) then Z.of_nat size else 0), (if ty =? 1 then 1 else Z.of_nat size), payload ++ rest).
Proof. exact block_header_read. Qed.

Theorem C02_rle_block_decodes : forall sc (b : Z) n rest,
  decode_block_content 1 (Z.of_nat n) 1 sc ([b] ++ rest) = ROk (sc_push_raw sc (repeat_z b n), 1, rest).
Proof. exact rle_content. Qed.

Theorem C02_run_detection_is_exact : forall l, all_same l = true -> l = repeat_z (nth 0 l 0) (length l).
Proof. exact all_same_repeat. Qed.

(** level Fastest: the same conclusion for every block-level encoder that meets four obligations, stated with a
    relation [Rel] between the encoder state and the decoder state it assumes: (1) an emitted compressed block decodes
    to its input and keeps the states related, (2) a run sent as an RLE block keeps them related, (3) a block whose
    compressed form is discarded for a raw block keeps them related (the obligation finding F5 violated), (4) the
    per-frame reset relates to a new decoder.  These are hypotheses about compress_block, which is not modelled; each
    run validates them on the emitted frames. *)
Theorem C02_fastest_roundtrip_given_block_encoder : forall (cstate : Type) cblock cskip cfallback (Rel : cstate -> scratch -> Prop),
  (forall cs sc blk body cs', Rel cs sc -> cblock cs blk = (body, cs') -> all_same blk = false ->
     (length body < length blk)%nat -> Z.of_nat (length body) <= MAX_BLOCK_SIZE ->
     exists sc', decompress_block (Z.of_nat (length body)) sc body = ROk sc' /\ sc_content sc' = sc_content sc ++ blk /\ Rel cs' sc') ->
  (forall cs sc blk, Rel cs sc -> all_same blk = true -> Rel (cskip cs blk) (sc_push_raw sc blk)) ->
  (forall cs sc blk body cs', Rel cs sc -> cblock cs blk = (body, cs') -> Rel (cfallback cs') (sc_push_raw sc blk)) ->
  forall creset, (forall cs w, Rel (creset cs) (scratch_new w)) ->
  forall slice wsize hash32 cs data script frame cs' r',
  1 <= Z.of_nat slice <= 131072 -> 1 <= wsize <= 2 ^ 27 ->
  (forall h x, hash32 = Some h -> length (h x) = 4%nat) ->
  compress_frame cstate cblock cskip cfallback creset LFastest slice wsize hash32 cs
    {| rd_data := data; rd_script := script |} = ROk (frame, cs', r') ->
  exists d1 rest evs s1 d2 s2,
    fdec_reset fdec_new frame = ROk (d1, rest, evs) /\ fd_state d1 = Some s1 /\
    fdec_decode_blocks d1 rest SAll = ROk (d2, [], true) /\ fd_state d2 = Some s2 /\
    buf_content s2 = data /\
    fr_checksum s2 = match hash32 with Some h => Some (le_val (h data)) | None => None end.
Proof. exact fastest_roundtrip. Qed.

(** a compressed block whose literals go out raw (what [compress_block] writes when a block has at most 1024 literals
    or a single literal value): literals header, literal bytes, sequence count, mode byte 0xA8, three table
    descriptions and the bit stream -- [decompress_block] reads all of it back and does exactly "execute the coded
    sequences over the coded literals", from any decoder state with the right alphabets.  The side conditions on the
    distributions and tables are decidable ([section_hyps_b]); they are evaluated, and the block model is compared byte
    for byte with the real block, on every raw-literal block the real compressor emits in the run. *)
Theorem C02_raw_literal_block_decodes : forall lits dl do dm seqs body sc,
  block_raw_lits lits dl do dm seqs = ROk body ->
  zlen lits <= MAX_BLOCK_SIZE -> Z.of_nat (length seqs) <= 98047 ->
  (seqs <> [] -> section_hyps_b dl do dm seqs = true) ->
  t_max_symbol (fs_ll (sc_fse sc)) = MAX_LITERAL_LENGTH_CODE -> t_max_symbol (fs_of (sc_fse sc)) = MAX_OFFSET_CODE ->
  t_max_symbol (fs_ml (sc_fse sc)) = MAX_MATCH_LENGTH_CODE ->
  decompress_block (zlen body) sc body =
    match seqs with
    | [] => ROk {| sc_huf := sc_huf sc; sc_fse := sc_fse sc; sc_buf := db_push (sc_buf sc) lits; sc_hist := sc_hist sc |}
    | _ =>
        match build_table MAX_LITERAL_LENGTH_CODE dl, build_table MAX_MATCH_LENGTH_CODE dm, build_table MAX_OFFSET_CODE do with
        | ROk Dll, ROk Dml, ROk Dof =>
            let* (buf, hist) := execute_sequences seqs lits (sc_buf sc) (sc_hist sc) in
            ROk {| sc_huf := sc_huf sc; sc_fse := C12_SeqStream.sc Dll Dml Dof; sc_buf := buf; sc_hist := hist |}
        | _, _, _ => RErr "tables"
        end
    end.
Proof. exact raw_literal_block_decodes. Qed.

(** one block of level Fastest, end to end, when the literals go out raw: the built-in match finder's step on [data]
    (any reachable match finder state, any block that fits its window), what the block encoder makes of its report,
    the block body, the decoder: the decoder's buffer grows by exactly [data], and it again ends with the bytes the
    match finder retains, so the statement applies to the next block as well *)
Theorem C02_fastest_block_step_with_raw_literals : forall d data d' seqs dl do dm body sc pre,
  DInv d -> (length data <= max_window d)%nat -> Z.of_nat (length data) <= MAX_BLOCK_SIZE ->
  mstep d (OpBlock data false) = ROk (d', Some seqs) ->
  block_raw_lits (mseqs_lits seqs) dl do dm (mseqs_seqs seqs) = ROk body ->
  (mseqs_seqs seqs <> [] -> section_hyps_b dl do dm (mseqs_seqs seqs) = true) ->
  t_max_symbol (fs_ll (sc_fse sc)) = MAX_LITERAL_LENGTH_CODE -> t_max_symbol (fs_of (sc_fse sc)) = MAX_OFFSET_CODE ->
  t_max_symbol (fs_ml (sc_fse sc)) = MAX_MATCH_LENGTH_CODE ->
  db_wf (sc_buf sc) -> db_rev (sc_buf sc) = rev (retained d) ++ pre -> hist3 (sc_hist sc) ->
  exists sc' pre',
    decompress_block (zlen body) sc body = ROk sc' /\
    db_rev (sc_buf sc') = rev data ++ db_rev (sc_buf sc) /\
    db_wf (sc_buf sc') /\ db_rev (sc_buf sc') = rev (retained d') ++ pre' /\ hist3 (sc_hist sc') /\
    sc_huf sc' = sc_huf sc /\ db_dict (sc_buf sc') = db_dict (sc_buf sc) /\ db_window (sc_buf sc') = db_window (sc_buf sc) /\
    t_max_symbol (fs_ll (sc_fse sc')) = MAX_LITERAL_LENGTH_CODE /\ t_max_symbol (fs_of (sc_fse sc')) = MAX_OFFSET_CODE /\
    t_max_symbol (fs_ml (sc_fse sc')) = MAX_MATCH_LENGTH_CODE.
Proof. exact fastest_step_raw_literals. Qed.

Print Assumptions C02_fastest_block_step_with_raw_literals.
Print Assumptions C02_raw_literal_block_decodes.
Print Assumptions C02_fastest_roundtrip_given_block_encoder.
Print Assumptions C02_uncompressed_roundtrip.
Print Assumptions C02_blocks_independent_of_fragmentation.
Print Assumptions C02_frame_is_header_then_blocks.
Print Assumptions C02_block_header_read_back.
Print Assumptions C02_rle_block_decodes.
Print Assumptions C02_run_detection_is_exact.
