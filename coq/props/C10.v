(** Property C10 -- exact frame boundaries.  First statements (more in later commits): the header reader and the
    block loop consume exactly what they count. *)
Require Import Zrs.lib.RsPrelude Zrs.gen.Generated Zrs.model.Headers Zrs.model.BlockDec Zrs.model.FrameDec.
Require Import Zrs.proofs.C05_Block Zrs.proofs.C06_Frame Zrs.proofs.C11_Reset.
Open Scope Z_scope.

Theorem C10_header_consumed_exactly : forall src h n, read_frame_header src = FhOk h n ->
  exists hd rest, src = hd ++ rest /\ Z.of_nat (length hd) = n /\ 5 <= n <= 18 /\
    (bytes_ok src = true -> 0 <= fh_fcs h /\ 0 <= fh_wd h < 256).
Proof. exact read_frame_header_consumed. Qed.

Theorem C10_blocks_consumed_exactly : forall fuel s src strat len_before blocks_before s' rest,
  st_ok s -> bytes_ok src = true ->
  decode_blocks_loop fuel s src strat len_before blocks_before = ROk (s', rest) ->
  st_ok s' /\ db_same_meta (st_buf s) (st_buf s') /\ fr_header s' = fr_header s /\
  fr_bytes_read s' - fr_bytes_read s = Z.of_nat (length src) - Z.of_nat (length rest) /\
  db_len (st_buf s) <= db_len (st_buf s') /\ fr_blocks s < fr_blocks s' /\
  (strat <> SAll -> db_len (st_buf s') <= strat_bound strat s len_before blocks_before).
Proof. exact decode_blocks_loop_inv. Qed.

Print Assumptions C10_header_consumed_exactly.
Print Assumptions C10_blocks_consumed_exactly.
