(** Property C10 -- exact frame boundaries.  First statements (more in later commits): the header reader and the
    block loop consume exactly what they count. *)
Require Import Zrs.lib.RsPrelude Zrs.gen.Generated Zrs.model.Headers Zrs.model.BlockDec Zrs.model.FrameDec.
Require Import Zrs.proofs.C05_Block Zrs.proofs.C06_Frame Zrs.proofs.C11_Reset Zrs.proofs.C10_Prefix.
Require Import Zrs.proofs.C10_All Zrs.proofs.C10_Multi.
Open Scope Z_scope.

Theorem C10_header_consumed_exactly : forall src h n, read_frame_header src = FhOk h n ->
  exists hd rest, src = hd ++ rest /\ Z.of_nat (length hd) = n /\ 5 <= n <= 18 /\
    (bytes_ok src = true -> 0 <= fh_fcs h /\ 0 <= fh_wd h < 256).
Proof. exact read_frame_header_consumed. Qed.

Theorem C10_blocks_consumed_exactly : forall fuel s src strat len_before blocks_before s' rest,
  st_ok s -> bytes_ok src = true ->
  decode_blocks_loop fuel s src strat len_before blocks_before = ROk (s', rest) ->
  st_ok s' /\ db_same_meta (st_buf s) (st_buf s') /\ fr_header s' = fr_header s /\
  fr_bytes_read s' - fr_bytes_read s = Z.of_nat (length src) - Z.of_nat (length rest) /\
  db_len (st_buf s) <= db_len (st_buf s') /\ fr_blocks s < fr_blocks s' /\
  (strat <> SAll -> db_len (st_buf s') <= strat_bound strat s len_before blocks_before).
Proof. exact decode_blocks_loop_inv. Qed.

(** truncation: a strict prefix of a frame that decodes completely (nothing left over) is never decoded to a normal
    return, wherever it is cut -- in the header, in a block header, inside a block, inside the checksum *)
Theorem C10_strict_prefix_never_decodes : forall d frame d1 rest ev d2,
  fdec_reset d frame = ROk (d1, rest, ev) -> fdec_decode_blocks d1 rest SAll = ROk (d2, [], true) ->
  forall p t, frame = p ++ t -> t <> [] ->
  forall d1' rest' ev', fdec_reset d p = ROk (d1', rest', ev') ->
  forall x, fdec_decode_blocks d1' rest' SAll <> ROk x.
Proof. exact frame_prefix_never_finishes. Qed.

(** trailing data: whatever follows a frame is left unread, and a normal return of decode-all means finished *)
Theorem C10_trailing_bytes_left_unread : forall fuel s src lb bb s' rest t,
  decode_blocks_loop fuel s src SAll lb bb = ROk (s', rest) ->
  decode_blocks_loop fuel s (src ++ t) SAll lb bb = ROk (s', rest ++ t) /\ fr_finished s' = true.
Proof. exact loop_ext. Qed.

Theorem C10_header_ignores_what_follows : forall src h n t, read_frame_header src = FhOk h n -> read_frame_header (src ++ t) = FhOk h n.
Proof. exact read_frame_header_ext. Qed.

(** decode_all (the multi-frame loop): leftover bytes that cannot even hold a magic number -- a concatenation cut one to
    three bytes into the next frame, or that much trailing garbage -- are an error, never silently accepted; and a
    normal return on a non-empty input means a first frame (or skippable frame) was completely processed and the rest
    went through the same loop, so it can only end at a frame boundary with nothing left *)
Theorem C10_decode_all_rejects_short_tail : forall d input cap, (1 <= length input < 4)%nat ->
  fdec_decode_all d input cap = RErr "MagicNumberReadError".
Proof. exact decode_all_rejects_short_tail. Qed.

Theorem C10_decode_all_returns_only_at_frame_boundaries : forall fuel d input room w d' out, input <> [] ->
  decode_all_outer (S fuel) d input room w = ROk (d', out) ->
  (exists m len, frame_front input (fd_max_window d) = inr (m, len) /\ len <= zlen (drop_z 8 input) /\
     decode_all_outer fuel d (drop_z len (drop_z 8 input)) room w = ROk (d', out)) \/
  (exists d1 rest ev d2 rest2 room2 w2,
     fdec_reset d input = ROk (d1, rest, ev) /\
     decode_all_inner (S (S (length rest))) d1 rest room w = ROk (d2, rest2, room2, w2) /\
     decode_all_outer fuel d2 rest2 room2 w2 = ROk (d', out)).
Proof. exact decode_all_ok_unfolds. Qed.

(** concatenation: the multi-frame call is a homomorphism.  If decode_all turns [a] into [c1] and then -- with the decoder
    and the room that are left -- [b] into [c2], it turns [a ++ b] into [c1 ++ c2]; for all inputs (any number of frames
    and skippable frames in each part), capacities and decoders; hence any concatenation decodes to the concatenation of
    the contents, and a skippable frame contributes nothing and leaves the decoder as it was *)
Theorem C10_decode_all_of_a_concatenation : forall d a b cap d1 c1 d2 c2,
  fdec_decode_all d a cap = ROk (d1, c1) -> fdec_decode_all d1 b (cap - zlen c1) = ROk (d2, c2) ->
  fdec_decode_all d (a ++ b) cap = ROk (d2, c1 ++ c2).
Proof. exact decode_all_app. Qed.

Theorem C10_decode_all_of_many_parts : forall parts d cap d' c,
  decode_parts d cap parts = Some (d', c) -> fdec_decode_all d (concat parts) cap = ROk (d', c).
Proof. exact decode_all_concat. Qed.

Theorem C10_skippable_frame_is_skipped : forall d f cap m len,
  frame_front f (fd_max_window d) = inr (m, len) -> zlen (drop_z 8 f) = len -> fdec_decode_all d f cap = ROk (d, []).
Proof. exact skippable_frame_is_skipped. Qed.

(** non-vacuity: a one-byte frame, a skippable frame with 2 payload bytes, the frame again: "A" ++ "" ++ "A" *)
Example C10_concatenation_example :
  let f := [40; 181; 47; 253; 32; 1; 9; 0; 0; 65] in let sk := [80; 42; 77; 24; 2; 0; 0; 0; 7; 7] in
  match decode_parts fdec_new 10 [f; sk; f] with Some (_, c) => c = [65; 65] | None => False end /\
  match fdec_decode_all fdec_new (f ++ sk ++ f) 10 with ROk (_, c) => c = [65; 65] | _ => False end.
Proof. split; vm_compute; reflexivity. Qed.

Print Assumptions C10_decode_all_of_a_concatenation.
Print Assumptions C10_decode_all_of_many_parts.
Print Assumptions C10_skippable_frame_is_skipped.
Print Assumptions C10_decode_all_rejects_short_tail.
Print Assumptions C10_decode_all_returns_only_at_frame_boundaries.
Print Assumptions C10_strict_prefix_never_decodes.
Print Assumptions C10_trailing_bytes_left_unread.
Print Assumptions C10_header_ignores_what_follows.
Print Assumptions C10_header_consumed_exactly.
Print Assumptions C10_blocks_consumed_exactly.
