(** Property C03 -- no input can make decoding panic, corrupt memory or hang.
    The headline is [C03_no_history_of_calls_panics] near the end of this file: on the decoder model no history of
    entry-point calls on arbitrary byte strings returns a panic value, and every loop ends within its fuel.  The layer
    theorems it is assembled from come first.  The theorem speaks about the model; the correspondence run (implementation
    in debug and release builds against the extracted model, oracle "no panic, no timeout, reusable after an error") ties
    it to the code.
    - memory safety of the output window, every operation sequence, every chunk size: C04_run, C04_step_no_fault
    - FSE state transitions stay inside the table for every accuracy log / probability: C12_state_range_in_table
    - block sizes, buffer length bookkeeping, offset history well-formedness for every input: C05_*
    - the repeat-offset step never underflows: C14_offset_history_no_overflow *)
Require Import Zrs.lib.RsPrelude Zrs.model.RingBuffer Zrs.model.BlockDec.
Require Import Zrs.proofs.C04_Run Zrs.proofs.C06_Drain Zrs.proofs.C05_Block Zrs.proofs.C12_Fse Zrs.proofs.C14_Headers.
Require Import Zrs.model.FseDec Zrs.gen.Generated Zrs.model.BitIO Zrs.model.BitRev64 Zrs.proofs.C03_BitRev64.
Require Import Zrs.model.FseDec Zrs.model.HufDec Zrs.proofs.C03_Desc Zrs.proofs.C03_HufTable.
Require Import Zrs.model.FseEnc Zrs.proofs.C03_HufComplete Zrs.proofs.C03_HufStream Zrs.proofs.C03_FseStates.
Require Import Zrs.model.Headers Zrs.model.FrameDec Zrs.proofs.C11_Reset Zrs.proofs.C03_FseBuild Zrs.proofs.C03_HufBuild Zrs.proofs.C03_Literals Zrs.proofs.C03_Sequences
               Zrs.proofs.C03_Exec Zrs.proofs.C03_BlockTotal Zrs.proofs.C03_FrameTotal Zrs.proofs.C03_ApiTotal Zrs.proofs.C03_AfterError.
Open Scope Z_scope.

Theorem C03_window_never_faults : forall k ops, (1 <= k)%nat -> Forall op_contract ops -> forall s, Inv s ->
  (forall e, run k s ops <> Fault e) /\
  (forall s', run k s ops = Done s' -> Inv s' /\ qrun (abs s) ops (abs s')).
Proof. exact run_ok. Qed.

Theorem C03_fse_transition_in_table : forall al p k, 5 <= al <= 9 -> 1 <= p <= 2 ^ al -> 0 <= k < p ->
  let '(bl, nb) := calc_baseline_and_numbits (2 ^ al) p k in 0 <= nb <= al /\ 0 <= bl /\ bl + 2 ^ nb <= 2 ^ al.
Proof. exact state_range_in_table. Qed.

Theorem C03_sequence_execution_keeps_invariants : forall seqs lits buf hist buf' hist',
  db_wf buf -> hist_ok hist -> Forall seq_ok seqs ->
  execute_sequences seqs lits buf hist = ROk (buf', hist') ->
  db_wf buf' /\ hist_ok hist' /\ db_same_meta buf buf' /\ 0 <= db_len buf' - db_len buf <= MAX_BLOCK_SIZE.
Proof. exact execute_sequences_inv. Qed.

Theorem C03_offset_history_no_underflow : forall ov ll h1 h2 h3,
  1 <= ov < 2 ^ 32 -> 0 <= ll -> 0 <= h1 < 2 ^ 32 -> do_offset_history_safe ov ll [h1; h2; h3] = true.
Proof. exact offset_history_safe. Qed.

(** the 64-bit container machine of the reversed bit reader: for every source and every script of reads of at most 56
    bits (single or triple), no slice goes out of range when refilling, no u8 arithmetic overflows, no shift is too
    wide, and after every read bits_remaining is the initial value minus the bits requested ... *)
Theorem C03_bit_reader_never_panics : forall ops r, BInv r -> Forall op_ok ops ->
  exists out, brr_run r ops = ROk out /\ map snd out = counts (brr_bits_remaining r) ops.
Proof. exact brr_run_ok. Qed.

(** ... which is also what the abstract reader used by the decoder model reports *)
Theorem C03_bit_reader_counters_agree : forall src ops out, Forall op_ok ops -> brr_run (brr_new src) ops = ROk out ->
  map snd out = map snd (rbr_run (rbr_new src) ops).
Proof. exact counters_agree. Qed.

(** the FSE table description reader returns a result or an error for EVERY byte string, alphabet and table-size limit:
    its two loops end within their fuel (each step consumes at least one bit), it never gives back a bit it did not
    read, and no probability below -1 can arise *)
Theorem C03_table_description_reader_never_panics : forall max_symbol source max_log,
  match read_probabilities max_symbol source max_log with RPanic _ => False | _ => True end.
Proof. exact read_probabilities_never_panics. Qed.

(** building the Huffman decoding table from ANY list of non-negative weights never panics: either the list is refused
    or a table comes back -- the rank counters are indexed in range, the region start computed for the shortest codes
    equals the table size (the source's assertion), no symbol's region reaches past the table (finding F12 was a panic
    in a caller of this function) *)
Theorem C03_huffman_table_construction_never_panics : forall ws, Forall (fun w => 0 <= w) ws ->
  match build_table_from_weights ws with RPanic _ => False | _ => True end.
Proof. exact build_table_from_weights_never_panics. Qed.

(** every Huffman table the decoder builds is complete: 2^max_bits entries, each with a code length in 1..max_bits *)
Theorem C03_huffman_table_is_complete : forall ws dec M bits ranks idxs, Forall (fun w => 0 <= w) ws ->
  build_table_from_weights ws = ROk (dec, M, bits, ranks, idxs) ->
  Z.of_nat (length dec) = 2 ^ M /\ 1 <= M <= MAX_MAX_NUM_BITS /\ forall i, 0 <= i < 2 ^ M -> 1 <= h_bits (nth_h dec i) <= M.
Proof. exact built_huffman_table_complete. Qed.

(** ... hence decoding a Huffman-coded stream with it never indexes out of the table and never stands still: for every
    byte string the stream decoder returns a result or an error within its fuel (which bounds the real loop) *)
Theorem C03_huffman_stream_decoding_never_panics : forall ht src t used stream out check,
  huf_build_decoder ht src = ROk (t, used) -> Forall (fun w => 0 <= w) (ht_weights t) ->
  match huf_decode_stream t stream out check with RPanic _ => False | _ => True end.
Proof. exact built_table_stream_no_panic. Qed.

(** FSE states never leave the table: for every table built from a normalised distribution (accuracy log 5..9, "less
    than one" probabilities included) initialising a state and every transition stay inside the table whatever the
    bit stream holds *)
Theorem C03_fse_states_never_leave_the_table : forall al probs ms,
  5 <= al <= 9 -> Forall (fun p => -1 <= p) probs -> weight probs = 2 ^ al ->
  (length probs <= 256)%nat -> Z.of_nat (length probs) <= ms + 1 ->
  exists D, fse_build_from_probabilities (fse_new ms) al probs = ROk D /\
    (forall br, rwf br -> exists st br', fse_init_state D br = ROk (st, br') /\ In st (t_decode D) /\ rwf br') /\
    (forall st br, In st (t_decode D) -> rwf br ->
       exists st' br', fse_update_state D st br = ROk (st', br') /\ In st' (t_decode D) /\ rwf br').
Proof. exact built_table_states_stay_inside. Qed.


(** *** the block and frame layers never panic (the headline of the property on the model)

    [scratch_sound]: the condition the decoder keeps its scratch space in -- decode buffer well formed, offset history three
    non-negative entries, Huffman table unset or complete, each FSE table unset or built from a normalised distribution
    (every entry keeps every transition inside the table and carries a symbol of the alphabet).  [dict_sound]: the same
    for the tables of a dictionary.  Both are established by the constructors and the dictionary parser (below) and
    preserved by every successful operation, so they quantify over nothing the decoder cannot reach. *)

(** a table built from ANY serialized description is sound, and the reader never consumes more than it was given *)
Theorem C03_fse_table_from_any_bytes : forall t source max_log, t_max_symbol t <= 255 -> max_log <= 9 ->
  match fse_build_decoder t source max_log with
  | ROk (D, bytes) => fse_good D /\ fse_range D /\ t_max_symbol D = t_max_symbol t /\ 0 <= bytes <= Z.of_nat (length source)
  | RErr _ => True
  | RPanic _ => False
  end.
Proof. exact fse_build_decoder_good. Qed.

(** a Huffman table built from ANY bytes (direct or FSE-compressed weights) is complete *)
Theorem C03_huffman_table_from_any_bytes : forall t source, t_max_symbol (ht_fse t) = 255 -> Forall (fun b => 0 <= b) source ->
  match huf_build_decoder t source with
  | ROk (t', bytes) => huf_complete t' /\ huf_good t' /\ 0 <= bytes <= Z.of_nat (length source)
  | RErr _ => True
  | RPanic _ => False
  end.
Proof. exact huf_build_decoder_good. Qed.

(** the literals section: exactly the announced literals, exactly the announced bytes, or an error *)
Theorem C03_literals_section_never_panics : forall sec ht source,
  sec_ok sec -> huf_good ht -> bytes_ok source = true -> zlen source = sec_upper sec ->
  match decode_literals sec ht source with
  | ROk (ht', lits, used) => huf_good ht' /\ zlen lits = ls_regen sec /\ used = zlen source
  | RErr _ => True
  | RPanic _ => False
  end.
Proof. exact decode_literals_ok. Qed.

(** the sequences section, any number of sequences, any compression modes *)
Theorem C03_sequences_section_never_panics : forall n modes source s, bytes_ok source = true -> fscratch_ok s ->
  match decode_sequences n modes source s with
  | ROk (s', seqs) => fscratch_ok s' /\ Forall seq_ok seqs
  | RErr _ => True
  | RPanic _ => False
  end.
Proof. exact decode_sequences_never_panics. Qed.

(** sequence execution, any dictionary content *)
Theorem C03_sequence_execution_never_panics : forall seqs lits buf hist, db_wf buf -> hist_ok hist -> Forall seq_ok seqs ->
  match execute_sequences seqs lits buf hist with
  | ROk (buf', hist') => db_wf buf' /\ hist_ok hist'
  | RErr _ => True
  | RPanic _ => False
  end.
Proof. exact execute_sequences_never_panics. Qed.

(** one compressed block: EVERY byte string as block content *)
Theorem C03_compressed_block_never_panics : forall sc raw, scratch_sound sc -> bytes_ok raw = true ->
  match decompress_block (zlen raw) sc raw with
  | ROk sc' => scratch_sound sc'
  | RErr _ => True
  | RPanic _ => False
  end.
Proof. exact decompress_block_never_panics. Qed.

(** the block loop of a frame: EVERY byte string as the rest of the frame, every stopping strategy *)
Theorem C03_decode_blocks_never_panics : forall d src strat, dec_sound d -> bytes_ok src = true ->
  match fdec_decode_blocks d src strat with
  | ROk (d', rest, fin) => dec_sound d'
  | RErr _ => True
  | RPanic _ => False
  end.
Proof. exact fdec_decode_blocks_never_panics. Qed.

(** initialisation / reset on EVERY byte string *)
Theorem C03_reset_never_panics : forall d src, dec_sound d ->
  match fdec_reset d src with
  | ROk (d', rest, evs) => dec_sound d'
  | RErr _ => True
  | RPanic _ => False
  end.
Proof. exact fdec_reset_never_panics. Qed.

(** the dictionary parser on EVERY byte string; what it returns is sound *)
Theorem C03_dictionary_parser_never_panics : forall raw, bytes_ok raw = true ->
  match decode_dict raw with ROk dd => dict_sound dd | RErr _ => True | RPanic _ => False end.
Proof. exact decode_dict_never_panics. Qed.

(** the soundness condition is reachable and kept: a new decoder has it, adding a parsed dictionary and forcing one keep it *)
Theorem C03_sound_decoders_exist : dec_sound fdec_new /\
  (forall d dd, dec_sound d -> dict_sound dd -> dec_sound (fdec_add_dict d dd)) /\
  (forall d id, dec_sound d -> match fdec_force_dict d id with ROk d' => dec_sound d' | RErr _ => True | RPanic _ => False end).
Proof. split; [exact fdec_new_sound|]. split; [exact fdec_add_dict_sound|exact fdec_force_dict_sound]. Qed.

(** *** the public entry points

    decode_all (any number of frames and skippable frames), decode_from_to, the streaming decoder's read: EVERY byte string;
    the fuel of every loop in the model is sufficient because every round consumes input (the real loops are bounded the
    same way) *)
Theorem C03_decode_all_never_panics : forall d input cap, dec_sound d -> bytes_ok input = true -> 0 <= cap ->
  match fdec_decode_all d input cap with
  | ROk (d', out) => dec_sound d'
  | RErr _ => True
  | RPanic _ => False
  end.
Proof. exact fdec_decode_all_never_panics. Qed.

Theorem C03_decode_from_to_never_panics : forall d source target_len, dec_sound d -> bytes_ok source = true -> 0 <= target_len ->
  match fdec_decode_from_to d source target_len with
  | ROk (d', consumed, out) => dec_sound d'
  | RErr _ => True
  | RPanic _ => False
  end.
Proof. exact fdec_decode_from_to_never_panics. Qed.

Theorem C03_streaming_read_never_panics : forall d src buf_len, dec_sound d -> bytes_ok src = true -> 0 <= buf_len ->
  match stream_read d src buf_len with
  | ROk (d', src', out) => dec_sound d' /\ bytes_ok src' = true /\ zlen out <= buf_len
  | RErr _ => True
  | RPanic _ => False
  end.
Proof. exact stream_read_never_panics. Qed.

(** THE PROPERTY ON THE MODEL: starting from a new decoder, no history of calls -- dictionaries parsed from any bytes,
    reset / decode_blocks / decode_all / decode_from_to / streaming read on any bytes, read / collect, forced dictionaries,
    window limits, in any order, continuing after errors -- makes any entry point return a panic value *)
Theorem C03_no_history_of_calls_panics : forall ops, Forall call_ok ops ->
  match api_run fdec_new ops with RPanic _ => False | _ => True end.
Proof. exact no_history_panics. Qed.

(** the hypotheses are met by ordinary use: a history that decodes a one-byte frame to the end *)
Example C03_history_example :
  let ops := [OpReset [40; 181; 47; 253; 32; 1; 9; 0; 0; 65]; OpDecodeBlocks [9; 0; 0; 65] SAll; OpRead 10] in
  Forall call_ok ops /\
  match api_run fdec_new ops with ROk d => fdec_is_finished d = true /\ fdec_can_collect d = 0 | _ => False end /\
  match fdec_decode_all fdec_new [40; 181; 47; 253; 32; 1; 9; 0; 0; 65] 10 with ROk (_, out) => out = [65] | _ => False end.
Proof. split; [repeat constructor; cbn; lia|]. split; vm_compute; auto. Qed.

(** ... and when a failing call leaves the decoder in ANY sound state (the real decoder is partly updated by a call that
    fails; the run observes through a hook that what it is left with is sound -- each FSE table unset or consistent, the
    Huffman table unset or complete -- after every call): every call comes with the decoder it leaves behind if it fails *)
Theorem C03_no_history_panics_whatever_sound_state_errors_leave : forall ops d, dec_sound d ->
  Forall (fun oe => call_ok (fst oe) /\ dec_sound (snd oe)) ops ->
  match api_run_any d ops with ROk d' => dec_sound d' | RErr _ => True | RPanic _ => False end.
Proof. exact api_run_any_never_panics. Qed.

Print Assumptions C03_no_history_panics_whatever_sound_state_errors_leave.
Print Assumptions C03_decode_all_never_panics.
Print Assumptions C03_decode_from_to_never_panics.
Print Assumptions C03_streaming_read_never_panics.
Print Assumptions C03_no_history_of_calls_panics.
Print Assumptions C03_fse_table_from_any_bytes.
Print Assumptions C03_huffman_table_from_any_bytes.
Print Assumptions C03_literals_section_never_panics.
Print Assumptions C03_sequences_section_never_panics.
Print Assumptions C03_sequence_execution_never_panics.
Print Assumptions C03_compressed_block_never_panics.
Print Assumptions C03_decode_blocks_never_panics.
Print Assumptions C03_reset_never_panics.
Print Assumptions C03_dictionary_parser_never_panics.
Print Assumptions C03_sound_decoders_exist.
Print Assumptions C03_huffman_table_is_complete.
Print Assumptions C03_huffman_stream_decoding_never_panics.
Print Assumptions C03_fse_states_never_leave_the_table.
Print Assumptions C03_table_description_reader_never_panics.
Print Assumptions C03_huffman_table_construction_never_panics.
Print Assumptions C03_bit_reader_never_panics.
Print Assumptions C03_bit_reader_counters_agree.
Print Assumptions C03_window_never_faults.
Print Assumptions C03_fse_transition_in_table.
Print Assumptions C03_sequence_execution_keeps_invariants.
Print Assumptions C03_offset_history_no_underflow.
