(** Property C20 -- the dictionary builder terminates without panic and respects the requested size.
    Model: coq/model/DictBuilder.v.  The pool of candidate segments (the result of sampling and scoring, which use a
    random number generator) is universally quantified, so the size bound holds for every run.  Termination of the
    sampling loops is NOT a theorem (partial): it is observed with a deadline on every run. *)
Require Import Zrs.lib.RsPrelude Zrs.model.DictBuilder Zrs.proofs.C20_Dict.
Open Scope Z_scope.

Theorem C20_never_more_than_requested : forall source source_size dict_size pool, 0 <= dict_size ->
  exists out, build_dict source source_size dict_size pool = ROk out /\ Z.of_nat (length out) <= dict_size.
Proof. exact build_dict_size_bound. Qed.

Theorem C20_sizing_never_panics : forall source_size dict_size, 16 <= source_size -> 0 <= dict_size ->
  exists seg sample epoch, sizing source_size dict_size = ROk (seg, sample, epoch) /\
    16 <= seg <= 2048 /\ 16 <= sample /\ 1 <= epoch.
Proof. exact sizing_never_panics. Qed.

Theorem C20_output_is_the_best_segments : forall source source_size dict_size pool out, 16 <= source_size -> 0 <= dict_size ->
  build_dict source source_size dict_size pool = ROk out -> exists dropped kept, pool = dropped ++ kept /\ out = concat kept.
Proof. exact build_dict_keeps_best_segments. Qed.

Theorem C20_selection_fits : forall pool tot d, tot = total pool -> 0 <= d -> total (prune pool tot d) <= d.
Proof. exact prune_bound. Qed.

Example C20_non_vacuous : build_dict [1; 2; 3] 100 5 [[9; 9; 9]; [8; 8]; [7; 7; 7]] = ROk [8; 8; 7; 7; 7].
Proof. vm_compute. reflexivity. Qed.

Print Assumptions C20_never_more_than_requested.
Print Assumptions C20_sizing_never_panics.
Print Assumptions C20_output_is_the_best_segments.
Print Assumptions C20_selection_fits.
