(** Property C08 -- content checksums are computed over exactly the delivered bytes.
    The hash function itself (XXH64, crate twox-hash) is outside the model: the model records the sequence of bytes fed
    to the hasher ([db_hashed]); the only assumption about the real hasher is the streaming law "finish after any
    sequence of writes depends only on the concatenation of the written bytes", exercised on every run by comparing the
    decoder's calculated checksum with an independent XXH64 of the model's hashed bytes. *)
Require Import Zrs.lib.RsPrelude Zrs.gen.Generated Zrs.model.BlockDec Zrs.model.FrameDec.
Require Import Zrs.proofs.C06_Drain Zrs.proofs.C05_Block Zrs.proofs.C06_Frame Zrs.proofs.C11_Reset Zrs.proofs.C08_Hash.
Require Import Zrs.proofs.C02_Roundtrip Zrs.model.FrameEnc Zrs.model.Matcher Zrs.model.HufDec Zrs.model.LitEnc Zrs.model.SeqNorm Zrs.model.LitComp.
Require Import Zrs.proofs.C02_Concrete Zrs.proofs.C02_O1 Zrs.proofs.C02_LitPart Zrs.proofs.C02_Closed Zrs.proofs.C08_Verify.
Open Scope Z_scope.

(** after initialisation nothing has been hashed *)
Theorem C08_reset_hash_empty : forall d src d' rest evs,
  bytes_ok src = true -> Forall dict_ok (fd_dicts d) -> fdec_reset d src = ROk (d', rest, evs) ->
  fdec_hashed d' = [].
Proof. exact reset_hash_empty. Qed.

(** decoding never feeds the hasher *)
Theorem C08_decode_does_not_hash : forall d src strat d' rest fin s,
  fd_state d = Some s -> st_ok s -> bytes_ok src = true ->
  fdec_decode_blocks d src strat = ROk (d', rest, fin) -> fdec_hashed d' = fdec_hashed d.
Proof. exact decode_does_not_hash. Qed.

(** every drain path, any mix, any sink: the hasher receives exactly the bytes handed out, in order *)
Theorem C08_hash_is_delivered : forall St (sstep : St -> Z -> sink_resp * St) ops d s st,
  fd_state d = Some s -> st_ok s -> 0 <= db_window (st_buf s) ->
  let '(l, d', st') := drain_run St sstep d st ops in fdec_hashed d' = fdec_hashed d ++ l.
Proof. exact hash_is_delivered. Qed.

(** a whole frame, from a decoder in any state: initialised on ANY byte string, decoded by one call, then drained by ANY
    program (read / collect / collect_to_writer on any sink, in any mix): the hasher has received exactly what was
    handed out, what was handed out plus what is still buffered is the content of the frame, the stored checksum is
    untouched; once the buffer is empty the hashed bytes are the whole content of the frame *)
Theorem C08_hashed_bytes_are_the_frame_content : forall St (sstep : St -> Z -> sink_resp * St) d frame d1 rest evs d2 rest' fin s2 ops st,
  bytes_ok frame = true -> Forall dict_ok (fd_dicts d) ->
  fdec_reset d frame = ROk (d1, rest, evs) ->
  fdec_decode_blocks d1 rest SAll = ROk (d2, rest', fin) -> fd_state d2 = Some s2 ->
  let '(l, d', st') := drain_run St sstep d2 st ops in
  exists s', fd_state d' = Some s' /\ fr_checksum s' = fr_checksum s2 /\
    l ++ db_all (st_buf s') = buf_content s2 /\ fdec_hashed d' = l /\
    (db_all (st_buf s') = [] -> fdec_hashed d' = buf_content s2).
Proof. exact hashed_is_frame_content. Qed.

(** the frames of the compressor (level Fastest, hashing on; every input, fragmentation of the reads, block size, window
    and reuse history of the closed C02 theorem; [h] is the 32-bit hash as four bytes): decoded and drained by any
    program, the hasher has received exactly the delivered bytes, and once the buffer is empty these are the input of
    the compressor and the checksum stored in the frame is [h] of exactly the hashed bytes: calculated = stored *)
Theorem C08_compressor_frames_verify : forall St (sstep : St -> Z -> sink_resp * St) slice wsize h cs data script frame cs' r',
  Cinit2 _ cs -> 1 <= Z.of_nat slice <= 131072 -> 1 <= wsize <= 2 ^ 27 ->
  (forall x, length (h x) = 4%nat) -> bytes_ok frame = true ->
  compress_frame (cst2 (option codes_t)) (cblock2 norm_model _ litenc_model) (cskip2 _) (cfallback2 _ None) (creset2 _ None) LFastest slice wsize (Some h) cs
    {| rd_data := data; rd_script := script |} = ROk (frame, cs', r') ->
  exists d1 rest evs d2,
    fdec_reset fdec_new frame = ROk (d1, rest, evs) /\ fdec_decode_blocks d1 rest SAll = ROk (d2, [], true) /\
    forall ops st, let '(l, d', st') := drain_run St sstep d2 st ops in
      exists s', fd_state d' = Some s' /\ fdec_hashed d' = l /\ l ++ db_all (st_buf s') = data /\
        (db_all (st_buf s') = [] -> fdec_hashed d' = data /\ fr_checksum s' = Some (le_val (h (fdec_hashed d')))).
Proof. exact compressor_frame_checksum_verifies. Qed.

Print Assumptions C08_reset_hash_empty.
Print Assumptions C08_hashed_bytes_are_the_frame_content.
Print Assumptions C08_compressor_frames_verify.
Print Assumptions C08_decode_does_not_hash.
Print Assumptions C08_hash_is_delivered.
