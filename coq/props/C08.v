(** Property C08 -- content checksums are computed over exactly the delivered bytes.
    The hash function itself (XXH64, crate twox-hash) is outside the model: the model records the sequence of bytes fed
    to the hasher ([db_hashed]); the only assumption about the real hasher is the streaming law "finish after any
    sequence of writes depends only on the concatenation of the written bytes", exercised on every run by comparing the
    decoder's calculated checksum with an independent XXH64 of the model's hashed bytes. *)
Require Import Zrs.lib.RsPrelude Zrs.gen.Generated Zrs.model.BlockDec Zrs.model.FrameDec.
Require Import Zrs.proofs.C06_Drain Zrs.proofs.C05_Block Zrs.proofs.C06_Frame Zrs.proofs.C11_Reset Zrs.proofs.C08_Hash.
Open Scope Z_scope.

(** after initialisation nothing has been hashed *)
Theorem C08_reset_hash_empty : forall d src d' rest evs,
  bytes_ok src = true -> Forall dict_ok (fd_dicts d) -> fdec_reset d src = ROk (d', rest, evs) ->
  fdec_hashed d' = [].
Proof. exact reset_hash_empty. Qed.

(** decoding never feeds the hasher *)
Theorem C08_decode_does_not_hash : forall d src strat d' rest fin s,
  fd_state d = Some s -> st_ok s -> bytes_ok src = true ->
  fdec_decode_blocks d src strat = ROk (d', rest, fin) -> fdec_hashed d' = fdec_hashed d.
Proof. exact decode_does_not_hash. Qed.

(** every drain path, any mix, any sink: the hasher receives exactly the bytes handed out, in order *)
Theorem C08_hash_is_delivered : forall St (sstep : St -> Z -> sink_resp * St) ops d s st,
  fd_state d = Some s -> st_ok s -> 0 <= db_window (st_buf s) ->
  let '(l, d', st') := drain_run St sstep d st ops in fdec_hashed d' = fdec_hashed d ++ l.
Proof. exact hash_is_delivered. Qed.

Print Assumptions C08_reset_hash_empty.
Print Assumptions C08_decode_does_not_hash.
Print Assumptions C08_hash_is_delivered.
