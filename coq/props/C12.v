(** Property C12 -- FSE tables equal the specification's; FSE encoder and decoder are exact inverses.
    Proved here: the predefined tables the decoder builds from the (generated, i.e. read from the source on this run)
    default distributions are libzstd's published tables, and both copies of the distributions equal libzstd's; for
    every accuracy log 5..9 and every probability the state ranges a symbol receives tile the whole state space and stay
    inside the table (complete sweeps); the spreading step visits every state exactly once.
    NOT yet theorems (covered by the correspondence run with the independent RFC transcription as oracle): the general
    statement over ALL normalized distributions that the built table is the specification's; the compressor's
    normalisation heuristic; the encoder/decoder stream round trip. *)
Require Import Zrs.lib.RsPrelude Zrs.gen.RefTables Zrs.gen.Generated Zrs.model.BitIO Zrs.model.FseDec.
Require Import Zrs.proofs.C12_Fse.
Require Import Zrs.model.BitIO Zrs.model.BitStream Zrs.model.SeqEnc Zrs.model.BlockDec Zrs.proofs.C12_Stream Zrs.proofs.C12_SeqStream Zrs.proofs.C12_Predef.
Require Import Zrs.model.FseEnc Zrs.model.SeqSection Zrs.proofs.C12_Desc Zrs.proofs.C12_Section.
Require Import Zrs.proofs.C12_SeqStreamR Zrs.proofs.C12_Modes Zrs.proofs.C12_AvoidBits Zrs.proofs.C12_NormHalf.
Require Import Zrs.model.FseNorm Zrs.proofs.C12_Norm Zrs.proofs.C12_NormTotal Zrs.proofs.C12_TableWf Zrs.proofs.C12_Covers Zrs.proofs.C12_General.
Open Scope Z_scope.

Theorem C12_ll_predefined_eq_ref :
  rows_agree (dtable MAX_LITERAL_LENGTH_CODE LL_DEFAULT_ACC_LOG LITERALS_LENGTH_DEFAULT_DISTRIBUTION)
             ref_LL_defaultDTable ref_LL_base ref_LL_bits = true.
Proof. exact ll_predefined_eq_ref. Qed.
Theorem C12_ml_predefined_eq_ref :
  rows_agree (dtable MAX_MATCH_LENGTH_CODE ML_DEFAULT_ACC_LOG MATCH_LENGTH_DEFAULT_DISTRIBUTION)
             ref_ML_defaultDTable ref_ML_base ref_ML_bits = true.
Proof. exact ml_predefined_eq_ref. Qed.
Theorem C12_of_predefined_eq_ref :
  of_rows_agree (dtable MAX_OFFSET_CODE OF_DEFAULT_ACC_LOG OFFSET_DEFAULT_DISTRIBUTION) ref_OF_defaultDTable = true.
Proof. exact of_predefined_eq_ref. Qed.

Theorem C12_distributions_eq_ref :
  LITERALS_LENGTH_DEFAULT_DISTRIBUTION = ref_LL_defaultNorm /\ MATCH_LENGTH_DEFAULT_DISTRIBUTION = ref_ML_defaultNorm /\
  OFFSET_DEFAULT_DISTRIBUTION = ref_OF_defaultNorm /\
  LL_DIST = ref_LL_defaultNorm /\ ML_DIST = ref_ML_defaultNorm /\ OF_DIST = ref_OF_defaultNorm /\
  LL_DEFAULT_ACC_LOG = 6 /\ ML_DEFAULT_ACC_LOG = 6 /\ OF_DEFAULT_ACC_LOG = 5 /\
  LL_MAX_LOG = 9 /\ ML_MAX_LOG = 9 /\ OF_MAX_LOG = 8.
Proof. exact distributions_eq_ref. Qed.

Theorem C12_state_ranges_partition : forall al p, 5 <= al <= 9 -> 1 <= p <= 2 ^ al -> partition_check al p = true.
Proof. exact state_ranges_partition. Qed.

Theorem C12_state_range_in_table : forall al p k, 5 <= al <= 9 -> 1 <= p <= 2 ^ al -> 0 <= k < p ->
  let '(bl, nb) := calc_baseline_and_numbits (2 ^ al) p k in 0 <= nb <= al /\ 0 <= bl /\ bl + 2 ^ nb <= 2 ^ al.
Proof. exact state_range_in_table. Qed.

Theorem C12_spreading_step_is_a_permutation : forall al, 5 <= al <= 9 -> orbit_check al = true.
Proof. exact spreading_step_is_a_permutation. Qed.

(** backward bit streams: fields written least significant bit first, then a 1 bit and zero padding, are read back
    from the end in reverse order with the same values, and the stream is then exactly exhausted -- for every list
    of fields (this is how FSE-coded sequences, FSE-coded Huffman weights and Huffman-coded literals are framed) *)
Theorem C12_backward_stream_inverse : forall fs, Forall field_ok fs ->
  exists r, rbr_skip_padding (rbr_new (stream_bytes fs)) = Some r /\
            let '(vals, r') := read_fields r (map snd (rev fs)) in
            vals = map fst (rev fs) /\ rbr_bits_remaining r' = 0.
Proof. exact stream_inverse. Qed.

(** the sequences bit stream: what the compressor writes for a list of sequences (field order and state selection of
    encode_sequences, with the encoder tables derived from the decoding tables -- the executable model whose output is
    compared byte for byte with the real compressor's on every run) is read by the steps of decode_sequences back
    into the same sequences, consuming the stream exactly; for every list of sequences and all tables in which every
    state index is covered by a state of each used symbol (a decidable property, implied by the tiling of state ranges) *)
Theorem C12_sequences_stream_roundtrip : forall Dll Dml Dof sl sm so qs,
  table_wf Dll -> table_wf Dml -> table_wf Dof ->
  Forall (covers Dll) sl -> Forall (covers Dml) sm -> Forall (covers Dof) so ->
  qs <> [] -> Forall cseq_ok qs -> Forall (q_in sl sm so) qs ->
  let bytes := stream_bytes (enc_fields (enc_of_dec Dll) (enc_of_dec Dml) (enc_of_dec Dof) qs) in
  exists r0 ll r1 of r2 ml r3 vals rf,
    rbr_skip_padding (rbr_new bytes) = Some r0 /\
    fse_init_state Dll r0 = ROk (ll, r1) /\ fse_init_state Dof r1 = ROk (of, r2) /\ fse_init_state Dml r2 = ROk (ml, r3) /\
    seq_loop (length qs) (Z.of_nat (length qs)) (sc Dll Dml Dof) ll ml of r3 0 [] = ROk (rev vals, rf) /\
    Forall2 (fun q v => cseq_value q = Some v) qs vals /\
    rbr_bits_remaining rf = 0.
Proof. exact derived_encoder_roundtrip. Qed.

(** ... and for the three predefined tables the hypotheses hold (checked by complete evaluation): sequences coded with
    the predefined tables round-trip unconditionally *)
Theorem C12_predefined_sequences_roundtrip : forall qs,
  qs <> [] -> Forall cseq_ok qs -> Forall (q_in (codes 36) (codes 53) (codes 29)) qs ->
  let bytes := stream_bytes (enc_fields (enc_of_dec D_ll) (enc_of_dec D_ml) (enc_of_dec D_of) qs) in
  exists r0 ll r1 of r2 ml r3 vals rf,
    rbr_skip_padding (rbr_new bytes) = Some r0 /\
    fse_init_state D_ll r0 = ROk (ll, r1) /\ fse_init_state D_of r1 = ROk (of, r2) /\ fse_init_state D_ml r2 = ROk (ml, r3) /\
    seq_loop (length qs) (Z.of_nat (length qs)) (sc D_ll D_ml D_of) ll ml of r3 0 [] = ROk (rev vals, rf) /\
    Forall2 (fun q v => cseq_value q = Some v) qs vals /\
    rbr_bits_remaining rf = 0.
Proof. exact predefined_sequences_roundtrip. Qed.

(** table descriptions: what the compressor's [write_table] emits for a normalised distribution (every probability
    >= -1, total 2^accuracy_log, last entry non-zero) is read by the decoder's [read_probabilities] back into exactly
    that distribution and accuracy log, consuming exactly the bytes written -- for every such distribution and whatever
    follows the description (inside a frame at least one byte always does).  The writer model is compared byte for
    byte with the real writer on every run, and every distribution the real normaliser produces in the run is
    checked to satisfy [dist_okb]. *)
Theorem C12_table_description_roundtrip : forall acc_log probs max_symbol max_log rest,
  5 <= acc_log <= 20 -> acc_log <= max_log -> dist_ok acc_log probs ->
  Z.of_nat (length probs) <= max_symbol + 1 -> rest <> [] ->
  exists d, desc_bytes acc_log probs = Some d /\
    read_probabilities max_symbol (d ++ rest) max_log = ROk (acc_log, probs, Z.of_nat (length d)).
Proof. exact description_roundtrip. Qed.

(** a whole sequences section: the three table descriptions followed by the bit stream, as the compressor lays them
    out (mode byte 0xA8), is decoded by [decode_sequences] -- from whatever tables the decoder held before -- into
    exactly the sequences that were coded, leaving the decoder with the tables of the three distributions.  The side
    conditions ([section_hyps_b]: normalised distributions within the format's limits, tables that build and tile, every
    used code covered, values in the coded ranges) are decidable and are evaluated on every section the real compressor
    emits in the run, where the model's section is also compared byte for byte with the real one. *)
Theorem C12_sequence_section_roundtrip : forall dl do dm seqs bytes s,
  section_hyps_b dl do dm seqs = true -> section_bytes dl do dm seqs = ROk bytes ->
  t_max_symbol (fs_ll s) = MAX_LITERAL_LENGTH_CODE -> t_max_symbol (fs_of s) = MAX_OFFSET_CODE ->
  t_max_symbol (fs_ml s) = MAX_MATCH_LENGTH_CODE ->
  exists Dll Dml Dof,
    build_table MAX_LITERAL_LENGTH_CODE dl = ROk Dll /\ build_table MAX_MATCH_LENGTH_CODE dm = ROk Dml /\
    build_table MAX_OFFSET_CODE do = ROk Dof /\
    decode_sequences (Z.of_nat (length seqs)) (Some MODES_ALL_ENCODED) bytes s = ROk (sc Dll Dml Dof, seqs).
Proof. exact section_bytes_roundtrip. Qed.

(** the compressor's normaliser ([build_table_from_counts] with the zero-bit avoidance the block encoder always asks
    for): for every histogram of at least two entries whose last entry is positive (the histogram is cut after the
    largest code that occurs), whatever it returns is a normalised distribution over the same alphabet with an accuracy
    log in 5..max_log -- so the description round trip above applies to it.  (The model is compared with the real
    normaliser, accuracy log and every probability, on every histogram of the run; a histogram with a single entry
    gives [16; 16] at accuracy log 5.) *)
Theorem C12_normaliser_output_is_normalised : forall counts max_log al probs,
  5 <= max_log -> Forall (fun c => 0 <= c) counts -> 0 < last counts 0 -> (2 <= length counts)%nat ->
  norm_counts counts max_log true = ROk (al, probs) ->
  dist_ok al probs /\ 5 <= al <= max_log /\ length probs = length counts /\ Forall (fun p => 0 <= p) probs /\
  zsum probs = 2 ^ al /\ (forall i, 0 < nth i counts 0 -> 1 <= nth i probs 0).
Proof. exact norm_counts_normalised. Qed.

(** ... and it always returns: no unwrap of an empty selection, no failed assertion, for every histogram of 2..256
    entries with a positive last entry and the table sizes the block encoder uses (8, 9) *)
Theorem C12_normaliser_never_panics : forall counts max_log,
  8 <= max_log -> Forall (fun c => 0 <= c) counts -> 0 < last counts 0 -> (2 <= length counts <= 256)%nat ->
  exists al probs, norm_counts counts max_log true = ROk (al, probs).
Proof. exact norm_counts_total. Qed.

(** the general table theorem for distributions without "less than one" probabilities (what the normaliser produces):
    for every accuracy log 5..9 and every vector of non-negative probabilities summing to 2^accuracy_log, the decoder's
    table construction succeeds, the table is well formed, and every symbol with a positive probability has states
    whose ranges cover the whole state space -- the hypotheses of the stream and section theorems *)
Theorem C12_every_built_table_is_well_formed : forall t acc_log probs D, 0 < acc_log ->
  fse_build_from_probabilities t acc_log probs = ROk D -> table_wf D.
Proof. exact built_table_is_well_formed. Qed.
Theorem C12_built_tables_cover_their_symbols : forall al probs ms,
  5 <= al <= 9 -> Forall (fun p => 0 <= p) probs -> zsum probs = 2 ^ al ->
  (length probs <= 256)%nat -> Z.of_nat (length probs) <= ms + 1 ->
  exists D, fse_build_from_probabilities (fse_new ms) al probs = ROk D /\
    forall i, (i < length probs)%nat -> 1 <= nth i probs 0 -> covers D (Z.of_nat i).
Proof. exact built_table_covers. Qed.

Example C12_normaliser_single_symbol : norm_counts [7] 9 true = ROk (5, [16; 16]).
Proof. vm_compute. reflexivity. Qed.

Theorem C12_normalised_is_decidable : forall acc_log probs, dist_okb acc_log probs = true -> dist_ok acc_log probs.
Proof. exact dist_okb_ok. Qed.

Example C12_predefined_distributions_are_normalised :
  dist_okb LL_DEFAULT_ACC_LOG LITERALS_LENGTH_DEFAULT_DISTRIBUTION = true /\
  dist_okb ML_DEFAULT_ACC_LOG MATCH_LENGTH_DEFAULT_DISTRIBUTION = true /\
  dist_okb OF_DEFAULT_ACC_LOG OFFSET_DEFAULT_DISTRIBUTION = true.
Proof. vm_compute. repeat split. Qed.

(** *** any combination of the four table modes

    [tmode]: FSE compressed (a written description), predefined, RLE (one byte), repeat (what the decoder holds).
    [mtable m prev prev_rle ... D rle]: the table and RLE byte the decoder is meant to hold afterwards; [tab_ready]: a
    table in state mode is well formed and covers the codes used (true of every table built from a normalised
    distribution: C12_general_table_theorem), an RLE "table" codes the one symbol.  The writer uses the encoder
    derived from the table, or, for an RLE table, writes no bits at all ([E_rle]).  Whatever the three modes, the decoder
    ends up with exactly those tables and RLE bytes and returns exactly the sequences that were coded. *)
Theorem C12_sequences_section_with_any_table_modes :
  forall (mll mof mml : tmode) (s : fse_scratch) (Dll Dof Dml : fse_table) (rll rof rml : option Z),
  mtable mll (fs_ll s) (fs_ll_rle s) LL_MAX_LOG MAX_LITERAL_LENGTH_CODE LL_DEFAULT_ACC_LOG LITERALS_LENGTH_DEFAULT_DISTRIBUTION Dll rll ->
  mtable mof (fs_of s) (fs_of_rle s) OF_MAX_LOG MAX_OFFSET_CODE OF_DEFAULT_ACC_LOG OFFSET_DEFAULT_DISTRIBUTION Dof rof ->
  mtable mml (fs_ml s) (fs_ml_rle s) ML_MAX_LOG MAX_MATCH_LENGTH_CODE ML_DEFAULT_ACC_LOG MATCH_LENGTH_DEFAULT_DISTRIBUTION Dml rml ->
  forall sl sm so, tab_ready Dll rll sl -> tab_ready Dml rml sm -> tab_ready Dof rof so ->
  forall qs, qs <> [] -> Forall cseq_ok qs -> Forall (q_in sl sm so) qs ->
  let stream := stream_bytes (enc_fields (enc_for Dll rll) (enc_for Dml rml) (enc_for Dof rof) qs) in
  exists vals,
    decode_sequences (Z.of_nat (length qs)) (Some (modes_byte mll mof mml)) (mbytes mll ++ mbytes mof ++ mbytes mml ++ stream) s =
      ROk (scr Dll rll Dml rml Dof rof, vals) /\
    Forall2 (fun q v => cseq_value q = Some v) qs vals.
Proof. exact sequence_section_roundtrip_modes. Qed.

(** every mode is available: the predefined tables are ready for all codes of their alphabets, an RLE byte within the
    alphabet is ready for its symbol, repeat re-uses whatever is held (a table or an RLE byte) *)
Theorem C12_every_mode_is_available :
  (forall prev rle, t_max_symbol prev = MAX_LITERAL_LENGTH_CODE ->
     mtable MPredef prev rle LL_MAX_LOG MAX_LITERAL_LENGTH_CODE LL_DEFAULT_ACC_LOG LITERALS_LENGTH_DEFAULT_DISTRIBUTION D_ll None /\ tab_ready D_ll None (codes 36)) /\
  (forall prev rle, t_max_symbol prev = MAX_OFFSET_CODE ->
     mtable MPredef prev rle OF_MAX_LOG MAX_OFFSET_CODE OF_DEFAULT_ACC_LOG OFFSET_DEFAULT_DISTRIBUTION D_of None /\ tab_ready D_of None (codes 29)) /\
  (forall prev rle, t_max_symbol prev = MAX_MATCH_LENGTH_CODE ->
     mtable MPredef prev rle ML_MAX_LOG MAX_MATCH_LENGTH_CODE ML_DEFAULT_ACC_LOG MATCH_LENGTH_DEFAULT_DISTRIBUTION D_ml None /\ tab_ready D_ml None (codes 53)) /\
  (forall c prev prev_rle max_log max_code def_log def_dist, c <= max_code ->
     mtable (MRle c) prev prev_rle max_log max_code def_log def_dist prev (Some c) /\ tab_ready prev (Some c) [c]) /\
  (forall prev prev_rle max_log max_code def_log def_dist, mtable MRepeat prev prev_rle max_log max_code def_log def_dist prev prev_rle).
Proof. split; [exact predef_mode_ll|]. split; [exact predef_mode_of|]. split; [exact predef_mode_ml|]. split; [exact rle_mode|exact repeat_mode]. Qed.

(** non-vacuity: literal lengths in RLE mode, offsets repeated, match lengths predefined *)
Example C12_modes_example :
  match decode_sequences 2 (Some (modes_byte (MRle 3) MRepeat MPredef)) (3 :: ex_stream) (sc D_ll D_ml D_of) with
  | ROk (s', vals) => vals = [{| sq_ll := 3; sq_ml := 5; sq_of := 49 |}; {| sq_ll := 3; sq_ml := 5; sq_of := 49 |}] /\ fs_ll_rle s' = Some 3
  | _ => False
  end.
Proof. exact modes_example. Qed.

(** where every entry of a built table comes from (a "less than one" slot with the full width, or the k-th state of a
    symbol of probability p), and its consequence: a distribution in which no probability exceeds half the table size
    gives a table in which every state carries at least one bit *)
Theorem C12_general_table_theorem_with_provenance : forall al probs ms,
  5 <= al <= 9 -> Forall (fun p => -1 <= p) probs -> weight probs = 2 ^ al ->
  (length probs <= 256)%nat -> Z.of_nat (length probs) <= ms + 1 ->
  exists D, fse_build_from_probabilities (fse_new ms) al probs = ROk D /\
    (forall e, In e (t_decode D) -> 0 <= e_bits e <= al /\ 0 <= e_base e /\ e_base e + 2 ^ e_bits e <= 2 ^ al) /\
    Z.of_nat (length (t_decode D)) = 2 ^ al /\
    (forall i, (i < length probs)%nat -> nth i probs 0 <> 0 -> covers D (Z.of_nat i)) /\
    (forall e, In e (t_decode D) -> e_bits e = al \/
       exists p k, In p probs /\ 1 <= p /\ 0 <= k < p /\ e_bits e = snd (calc_baseline_and_numbits (2 ^ al) p k)).
Proof. exact general_table_full. Qed.

Theorem C12_half_bounded_distribution_carries_bits : forall al probs ms,
  5 <= al <= 9 -> Forall (fun p => -1 <= p <= 2 ^ (al - 1)) probs -> weight probs = 2 ^ al ->
  (length probs <= 256)%nat -> Z.of_nat (length probs) <= ms + 1 ->
  exists D, fse_build_from_probabilities (fse_new ms) al probs = ROk D /\ entries_carry_a_bit D /\ table_wf D /\
    (forall i, (i < length probs)%nat -> nth i probs 0 <> 0 -> covers D (Z.of_nat i)).
Proof. exact half_bounded_distribution_carries_bits. Qed.

(** with the avoid-zero-bits option the normaliser never leaves a probability above half the table size, for every
    histogram -- so every state of the table built from its output carries a bit *)
Theorem C12_normaliser_with_avoid_is_half_bounded : forall counts max_log al probs,
  5 <= max_log -> Forall (fun c => 0 <= c) counts -> 0 < last counts 0 -> (2 <= length counts)%nat ->
  norm_counts counts max_log true = ROk (al, probs) ->
  Forall (fun p => p <= 2 ^ (al - 1)) probs.
Proof. exact norm_counts_half_bounded. Qed.

Print Assumptions C12_normaliser_with_avoid_is_half_bounded.
Print Assumptions C12_general_table_theorem_with_provenance.
Print Assumptions C12_half_bounded_distribution_carries_bits.
Print Assumptions C12_sequences_section_with_any_table_modes.
Print Assumptions C12_every_mode_is_available.
Print Assumptions C12_table_description_roundtrip.
(** THE GENERAL TABLE THEOREM: for every accuracy log 5..9 and EVERY normalised distribution -- probabilities >= -1, a
    "less than one" probability (-1) counting 1, total 2^accuracy_log -- over an alphabet of at most 256 symbols, the
    decoder's table construction succeeds (the "less than one" symbols at the top, the others spread along the orbit of
    the spreading step over the positions below them, baselines and bit counts in state order); the table has
    2^accuracy_log entries; every entry's state range lies inside the table; and every symbol with a non-zero probability
    has states whose ranges cover the whole state space *)
Theorem C12_general_table_theorem : forall al probs ms,
  5 <= al <= 9 -> Forall (fun p => -1 <= p) probs -> weight probs = 2 ^ al ->
  (length probs <= 256)%nat -> Z.of_nat (length probs) <= ms + 1 ->
  exists D, fse_build_from_probabilities (fse_new ms) al probs = ROk D /\
    (forall e, In e (t_decode D) -> 0 <= e_bits e <= al /\ 0 <= e_base e /\ e_base e + 2 ^ e_bits e <= 2 ^ al) /\
    Z.of_nat (length (t_decode D)) = 2 ^ al /\
    (forall i, (i < length probs)%nat -> nth i probs 0 <> 0 -> covers D (Z.of_nat i)).
Proof. exact general_table. Qed.

Print Assumptions C12_general_table_theorem.
Print Assumptions C12_normaliser_output_is_normalised.
Print Assumptions C12_normaliser_never_panics.
Print Assumptions C12_every_built_table_is_well_formed.
Print Assumptions C12_built_tables_cover_their_symbols.
Print Assumptions C12_sequence_section_roundtrip.
Print Assumptions C12_normalised_is_decidable.
Print Assumptions C12_predefined_sequences_roundtrip.
Print Assumptions C12_backward_stream_inverse.
Print Assumptions C12_sequences_stream_roundtrip.
Print Assumptions C12_ll_predefined_eq_ref.
Print Assumptions C12_ml_predefined_eq_ref.
Print Assumptions C12_of_predefined_eq_ref.
Print Assumptions C12_distributions_eq_ref.
Print Assumptions C12_state_ranges_partition.
Print Assumptions C12_state_range_in_table.
Print Assumptions C12_spreading_step_is_a_permutation.
