(** Property C12 -- FSE tables equal the specification's; FSE encoder and decoder are exact inverses.
    Proved here: the predefined tables the decoder builds from the (generated, i.e. read from the source on this run)
    default distributions are libzstd's published tables, and both copies of the distributions equal libzstd's; for
    every accuracy log 5..9 and every probability the state ranges a symbol receives tile the whole state space and stay
    inside the table (complete sweeps); the spreading step visits every state exactly once.
    NOT yet theorems (covered by the correspondence run with the independent RFC transcription as oracle): the general
    statement over ALL normalized distributions that the built table is the specification's; the compressor's
    normalisation heuristic; the encoder/decoder stream round trip. *)
Require Import Zrs.lib.RsPrelude Zrs.gen.RefTables Zrs.gen.Generated Zrs.model.BitIO Zrs.model.FseDec.
Require Import Zrs.proofs.C12_Fse.
Open Scope Z_scope.

Theorem C12_ll_predefined_eq_ref :
  rows_agree (dtable MAX_LITERAL_LENGTH_CODE LL_DEFAULT_ACC_LOG LITERALS_LENGTH_DEFAULT_DISTRIBUTION)
             ref_LL_defaultDTable ref_LL_base ref_LL_bits = true.
Proof. exact ll_predefined_eq_ref. Qed.
Theorem C12_ml_predefined_eq_ref :
  rows_agree (dtable MAX_MATCH_LENGTH_CODE ML_DEFAULT_ACC_LOG MATCH_LENGTH_DEFAULT_DISTRIBUTION)
             ref_ML_defaultDTable ref_ML_base ref_ML_bits = true.
Proof. exact ml_predefined_eq_ref. Qed.
Theorem C12_of_predefined_eq_ref :
  of_rows_agree (dtable MAX_OFFSET_CODE OF_DEFAULT_ACC_LOG OFFSET_DEFAULT_DISTRIBUTION) ref_OF_defaultDTable = true.
Proof. exact of_predefined_eq_ref. Qed.

Theorem C12_distributions_eq_ref :
  LITERALS_LENGTH_DEFAULT_DISTRIBUTION = ref_LL_defaultNorm /\ MATCH_LENGTH_DEFAULT_DISTRIBUTION = ref_ML_defaultNorm /\
  OFFSET_DEFAULT_DISTRIBUTION = ref_OF_defaultNorm /\
  LL_DIST = ref_LL_defaultNorm /\ ML_DIST = ref_ML_defaultNorm /\ OF_DIST = ref_OF_defaultNorm /\
  LL_DEFAULT_ACC_LOG = 6 /\ ML_DEFAULT_ACC_LOG = 6 /\ OF_DEFAULT_ACC_LOG = 5 /\
  LL_MAX_LOG = 9 /\ ML_MAX_LOG = 9 /\ OF_MAX_LOG = 8.
Proof. exact distributions_eq_ref. Qed.

Theorem C12_state_ranges_partition : forall al p, 5 <= al <= 9 -> 1 <= p <= 2 ^ al -> partition_check al p = true.
Proof. exact state_ranges_partition. Qed.

Theorem C12_state_range_in_table : forall al p k, 5 <= al <= 9 -> 1 <= p <= 2 ^ al -> 0 <= k < p ->
  let '(bl, nb) := calc_baseline_and_numbits (2 ^ al) p k in 0 <= nb <= al /\ 0 <= bl /\ bl + 2 ^ nb <= 2 ^ al.
Proof. exact state_range_in_table. Qed.

Theorem C12_spreading_step_is_a_permutation : forall al, 5 <= al <= 9 -> orbit_check al = true.
Proof. exact spreading_step_is_a_permutation. Qed.

Print Assumptions C12_ll_predefined_eq_ref.
Print Assumptions C12_ml_predefined_eq_ref.
Print Assumptions C12_of_predefined_eq_ref.
Print Assumptions C12_distributions_eq_ref.
Print Assumptions C12_state_ranges_partition.
Print Assumptions C12_state_range_in_table.
Print Assumptions C12_spreading_step_is_a_permutation.
