(** Property C07 -- a reused decoder behaves exactly like a fresh one.
    In the model every field of the Rust structs that influences decoding is a field of the model state
    (FSE tables incl. max_symbol / decode / accuracy_log / probabilities / counters, RLE symbols, Huffman table incl.
    weights / bits / ranks / indexes / max_num_bits / inner FSE table, offset history, window buffer, dictionary
    content, output counter, hasher input, frame header, flags, counters, stored checksum).  [scratch_reset] mirrors
    DecoderScratch::reset field by field.  Since the whole subsequent behaviour of the decoder is a function of this
    state, equality of states is the strongest possible form of "behaves exactly like".  That the Rust reset really
    assigns every field is checked by the correspondence run (probes whose outcome depends on leaked state). *)
Require Import Zrs.lib.RsPrelude Zrs.gen.Generated Zrs.model.Headers Zrs.model.FseDec Zrs.model.HufDec Zrs.model.BlockDec Zrs.model.FrameDec.
Require Import Zrs.proofs.C07_Reuse Zrs.proofs.C07_Alphabets.
Open Scope Z_scope.

Theorem C07_scratch_reset_eq_new : forall sc w, scratch_alphabets_ok sc -> scratch_reset sc w = scratch_new w.
Proof. exact scratch_reset_eq_new. Qed.

Theorem C07_reset_eq_fresh : forall d src,
  (forall s, fd_state d = Some s -> scratch_alphabets_ok (fr_scratch s)) ->
  match fdec_reset d src,
        fdec_reset {| fd_state := None; fd_dicts := fd_dicts d; fd_max_window := fd_max_window d |} src with
  | ROk (d1, r1, _), ROk (d2, r2, _) => d1 = d2 /\ r1 = r2
  | RErr e1, RErr e2 => e1 = e2
  | RPanic e1, RPanic e2 => e1 = e2
  | _, _ => False
  end.
Proof. exact reset_eq_fresh. Qed.

(** unconditional: for every decoder state reachable from a new decoder through any sequence of the public operations
    (set_max_window, add_dict, reset/init, force_dict, decode_blocks with any strategy, collect, read,
    collect_to_writer with any sink), with whatever frames -- valid, truncated, corrupted -- were fed before *)
Theorem C07_reused_decoder_equals_fresh : forall d src, reachable d ->
  match fdec_reset d src,
        fdec_reset {| fd_state := None; fd_dicts := fd_dicts d; fd_max_window := fd_max_window d |} src with
  | ROk (d1, r1, _), ROk (d2, r2, _) => d1 = d2 /\ r1 = r2
  | RErr e1, RErr e2 => e1 = e2
  | RPanic e1, RPanic e2 => e1 = e2
  | _, _ => False
  end.
Proof. exact reused_decoder_equals_fresh. Qed.

Theorem C07_alphabet_invariant_of_reachable_states : forall d, reachable d -> state_alphabets_ok d.
Proof. exact reachable_alphabets. Qed.

Print Assumptions C07_reused_decoder_equals_fresh.
Print Assumptions C07_alphabet_invariant_of_reachable_states.
Print Assumptions C07_scratch_reset_eq_new.
Print Assumptions C07_reset_eq_fresh.
