(** Finite sweeps lifted to universally quantified statements (the bound is always in the statement). *)
From Coq Require Import ZArith List Bool Lia.
Import ListNotations.
Open Scope Z_scope.

Definition zrange (lo : Z) (n : nat) : list Z := map (fun i => lo + Z.of_nat i) (seq 0 n).

Lemma in_zrange lo n z : lo <= z < lo + Z.of_nat n -> In z (zrange lo n).
Proof.
  intros H. unfold zrange. apply in_map_iff. exists (Z.to_nat (z - lo)). split; [lia|].
  apply in_seq. lia.
Qed.

Lemma forallb_zrange (f : Z -> bool) lo n :
  forallb f (zrange lo n) = true -> forall z, lo <= z < lo + Z.of_nat n -> f z = true.
Proof. intros H z Hz. rewrite forallb_forall in H. apply H, in_zrange, Hz. Qed.

(** tail-recursive sweep for big ranges (no intermediate list) *)
Fixpoint sweep_from (f : Z -> bool) (lo : Z) (n : nat) : bool :=
  match n with
  | O => true
  | S n' => if f lo then sweep_from f (lo + 1) n' else false
  end.

Lemma sweep_from_spec f n : forall lo, sweep_from f lo n = true ->
  forall z, lo <= z < lo + Z.of_nat n -> f z = true.
Proof.
  induction n as [|n IH]; intros lo H z Hz; [lia|].
  cbn [sweep_from] in H. destruct (f lo) eqn:E; [|discriminate].
  destruct (Z.eq_dec z lo) as [->|Hne]; [exact E|].
  apply (IH (lo + 1) H). lia.
Qed.

(** sweeping a range whose size is given as a Z/positive (avoids big nat literals in sources) *)
Definition sweep (f : Z -> bool) (lo hi : Z) : bool := sweep_from f lo (Z.to_nat (hi - lo)).
Lemma sweep_spec f lo hi : sweep f lo hi = true -> forall z, lo <= z < hi -> f z = true.
Proof. intros H z Hz. apply (sweep_from_spec f _ lo H). lia. Qed.
