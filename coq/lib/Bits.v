(** Bit-level facts used by the header lemmas: disjoint [lor] is [+]; masks are [mod]. *)
From Coq Require Import ZArith Lia.
Open Scope Z_scope.

Lemma land_low_shifted a b k : 0 <= k -> 0 <= a < 2 ^ k -> Z.land a (b * 2 ^ k) = 0.
Proof.
  intros Hk Ha. apply Z.bits_inj'. intros n Hn.
  rewrite Z.land_spec, Z.bits_0.
  destruct (Z.lt_ge_cases n k) as [Hlt|Hge].
  - rewrite Z.mul_pow2_bits_low by lia. apply Bool.andb_false_r.
  - assert (Z.testbit a n = false) as ->; [|reflexivity].
    destruct (Z.eq_dec a 0) as [->|Hnz]; [apply Z.bits_0|].
    apply Z.bits_above_log2; [lia|].
    apply Z.lt_le_trans with k; [|lia]. apply Z.log2_lt_pow2; lia.
Qed.

Lemma lor_low_shifted a b k : 0 <= k -> 0 <= a < 2 ^ k -> Z.lor a (b * 2 ^ k) = a + b * 2 ^ k.
Proof.
  intros Hk Ha. rewrite <- Z.lxor_lor by (apply land_low_shifted; assumption).
  symmetry. apply Z.add_nocarry_lxor. apply land_low_shifted; assumption.
Qed.

Lemma land_ones_mod a k : 0 <= k -> Z.land a (2 ^ k - 1) = a mod 2 ^ k.
Proof. intros Hk. replace (2 ^ k - 1) with (Z.ones k) by (rewrite Z.ones_equiv; lia). apply Z.land_ones, Hk. Qed.
