(** Extraction of the executable models to OCaml (ExtrOcamlBasic only: bool, option, list, prod, unit, sumbool, sumor
    are mapped to OCaml's; nat, positive, N, Z, string stay Coq datatypes).  No Extract Constant of ours. *)
Require Extraction.
Require Import ExtrOcamlBasic.
Require Import Zrs.lib.RsPrelude Zrs.model.BitIO Zrs.model.FseDec Zrs.model.HufDec Zrs.model.BlockDec Zrs.model.FrameDec Zrs.model.Matcher Zrs.model.FrameEnc Zrs.model.IoNoStd Zrs.model.BitRev64 Zrs.model.SeqEnc Zrs.model.FseEnc Zrs.model.SeqSection Zrs.model.BlockEnc Zrs.model.FseNorm Zrs.model.WeightEnc Zrs.model.HufCounts Zrs.model.LitComp.
Extraction Language OCaml.
Extraction "model.ml"
  decode_dict fdec_new fdec_set_max_window fdec_reset fdec_add_dict fdec_force_dict fdec_is_finished
  fdec_decode_blocks fdec_collect fdec_can_collect fdec_collect_to_writer fdec_read fdec_hashed
  fdec_decode_from_to fdec_decode_all stream_read budget_step
  fse_build_decoder fse_build_from_probabilities fse_new huf_build_decoder huf_new
  Zrs.model.Headers.read_frame_header
  mgd_new mgd_window_size commit_space mgd_start mgd_skip mgd_reset compress_frame_oracle
  io_read_exact io_take_read io_write_all brr_new brr_run rbr_run decode_reencode huf_stream_model huf_describe_and_decode desc_bytes dist_okb read_probabilities decode_rewrite_section rewrite_raw_block fastest_first_block rewrite_blocks norm_counts weights_rewrite build_from_counts weights_from_counts lit_chain literals_part.
