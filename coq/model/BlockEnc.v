(** A compressed block whose literals go out raw, as [compress_block] (encoding/blocks/compressed.rs) lays it out:
    raw-literals header (type 0, size format 3, 20-bit length), the literal bytes, the sequence count, the mode byte
    0xA8 and the sequences section; or a zero sequence count.  Plus the inverse direction used by the correspondence
    check: take a real block apart with the decoder model and write it again with this model. *)
Require Import Zrs.lib.RsPrelude Zrs.gen.Generated Zrs.model.Headers Zrs.model.BitIO Zrs.model.FseDec Zrs.model.HufDec Zrs.model.BlockDec.
Require Import Zrs.model.BitStream Zrs.model.SeqEnc Zrs.model.FseEnc Zrs.model.SeqSection Zrs.model.Matcher Zrs.model.LitEnc Zrs.model.SeqNorm.
Open Scope Z_scope.

(** what [compress_block] makes of the match finder's sequences: one literal buffer, and (literal length, match length,
    offset + 3) per match -- the raw offset is always coded as a new offset (value above 3) *)
Definition mseq_lits (s : mseq) : list Z := match s with MLit l => l | MTriple l _ _ => l end.
Definition mseqs_lits (ms : list mseq) : list Z := concat (map mseq_lits ms).
Definition mseqs_seqs (ms : list mseq) : list sequence :=
  flat_map (fun s => match s with
                     | MLit _ => []
                     | MTriple l off ml => [{| sq_ll := zlen l; sq_ml := Z.of_nat ml; sq_of := Z.of_nat off + 3 |}]
                     end) ms.

Definition raw_lit_header (n : Z) : list Z := [12 + 16 * (n mod 16); (n / 16) mod 256; n / 4096].

Definition block_raw_lits (lits : list Z) (dl do dm : dist) (seqs : list sequence) : res (list Z) :=
  match seqs with
  | [] => ROk (raw_lit_header (zlen lits) ++ lits ++ [0])
  | _ =>
      let* (u, sn) := encode_seqnum (Z.of_nat (length seqs)) [] in
      let* sec := section_bytes dl do dm seqs in
      ROk (raw_lit_header (zlen lits) ++ lits ++ sn ++ MODES_ALL_ENCODED :: sec)
  end.

(** a real block body with raw literals: decoded distributions, literals and sequences, written again *)
Definition rewrite_raw_block (body : list Z) : res (bool * list Z) :=
  let* (used, ty, regen, comp, streams) := lit_header_parse body in
  if negb (ty =? 0) then RErr "not raw literals" else
  let lits := take_z regen (drop_z used body) in
  let raw2 := drop_z (used + regen) body in
  let* (used_seq, nseq, modes) := sequences_header_parse 0 None raw2 in
  if nseq =? 0 then
    let* again := block_raw_lits lits (0, []) (0, []) (0, []) [] in ROk (true, again)
  else
    let* (s2, seqs) := decode_sequences nseq modes (drop_z used_seq raw2) fse_scratch_new in
    let dl := dist_of (fs_ll s2) in let do := dist_of (fs_of s2) in let dm := dist_of (fs_ml s2) in
    let* again := block_raw_lits lits dl do dm seqs in
    ROk (section_hyps_b dl do dm seqs, again).

(** the first block of a frame at level Fastest, from the data: the match finder model on [data], the literal buffer and
    triples [compress_block] makes of its report, the distributions read out of the real block [body]; the result must
    be [body] again (correspondence check) *)
Definition fastest_first_block (window : nat) (data body : list Z) : res (bool * list Z) :=
  let* d1 := commit_space (mgd_new window 1) data in
  let* (ms, d2) := mgd_start d1 in
  let lits := mseqs_lits ms in
  let seqs := mseqs_seqs ms in
  let* (used, ty, regen, comp, streams) := lit_header_parse body in
  if negb (ty =? 0) then RErr "not raw literals" else
  let raw2 := drop_z (used + regen) body in
  let* (used_seq, nseq, modes) := sequences_header_parse 0 None raw2 in
  if nseq =? 0 then
    let* again := block_raw_lits lits (0, []) (0, []) (0, []) seqs in ROk (true, again)
  else
    let* (s2, _) := decode_sequences nseq modes (drop_z used_seq raw2) fse_scratch_new in
    let dl := dist_of (fs_ll s2) in let do := dist_of (fs_of s2) in let dm := dist_of (fs_ml s2) in
    let* again := block_raw_lits lits dl do dm seqs in
    ROk (section_hyps_b dl do dm seqs, again).

(** the sequences part of a block: a zero count, or count, mode byte and section *)
Definition seq_part (dl do dm : dist) (seqs : list sequence) : res (list Z) :=
  match seqs with
  | [] => ROk [0]
  | _ =>
      let* (u, sn) := encode_seqnum (Z.of_nat (length seqs)) [] in
      let* sec := section_bytes dl do dm seqs in
      ROk (sn ++ MODES_ALL_ENCODED :: sec)
  end.

(** the code as a table over the byte values *)
Definition codes_of_dec (t : huf_table) : list hcode := map (fun n => code_of_dec t (Z.of_nat n)) (seq 0 256).
Definition code_of_list (codes : list hcode) (s : Z) : hcode := nth (Z.to_nat s) codes (0, O).

Definition huf_side_b (t : huf_table) (code : Z -> hcode) (lits : list Z) : bool :=
  let mn := Z.to_nat (ht_max_bits t) in
  let '(a, b, c, d) := split4 lits in
  table_side_b t mn && (16 <=? length lits)%nat &&
  forallb (fun s => code_ok_b mn code s && resolves_b t mn code s) (nodup Z.eq_dec lits) &&
  (zlen (hstream code a) <? 65536) && (zlen (hstream code b) <? 65536) && (zlen (hstream code c) <? 65536).

Definition dist_eqb (a b : dist) : bool := (fst a =? fst b) && (if list_eq_dec Z.eq_dec (snd a) (snd b) then true else false).
Definition dists_eqb (a b : dist * dist * dist) : bool :=
  let '(a1, a2, a3) := a in let '(b1, b2, b3) := b in dist_eqb a1 b1 && dist_eqb a2 b2 && dist_eqb a3 b3.

(** any compressed block of the compressor (raw or Huffman-coded literals; all sequence tables FSE-coded): taken apart
    with the decoder model from the Huffman table [ht] the decoder holds, and written again with the encoder models.
    Returns the decoder's new Huffman table, whether the side conditions of the block theorems hold, and the bytes *)
Definition rewrite_block (ht : huf_table) (body : list Z) : res (huf_table * bool * list Z) :=
  let* (used, ty, regen, comp, streams) := lit_header_parse body in
  let upper := match comp with Some x => x | None => if ty =? 1 then 1 else regen end in
  let payload := take_z upper (drop_z used body) in
  let* (ht', lits, used_lit) := decode_literals {| ls_type := ty; ls_regen := regen; ls_comp := comp; ls_streams := streams |} ht payload in
  let rest := drop_z (used + upper) body in
  let* (used_seq, nseq, modes) := sequences_header_parse 0 None rest in
  let* (hs, dl, do, dm, seqs) :=
    (if nseq =? 0 then ROk (true, (0, []), (0, []), (0, []), [])
     else
       let* (s2, seqs) := decode_sequences nseq modes (drop_z used_seq rest) fse_scratch_new in
       let dl := dist_of (fs_ll s2) in let do := dist_of (fs_of s2) in let dm := dist_of (fs_ml s2) in
       ROk (section_hyps_b dl do dm seqs && dists_eqb (norm_model seqs) (dl, do, dm), dl, do, dm, seqs)) in
  let* sp := seq_part dl do dm seqs in
  if ty =? 0 then ROk (ht', hs, raw_lit_header (zlen lits) ++ lits ++ sp)
  else if (ty =? 2) || (ty =? 3) then
    let* desc := (if ty =? 2 then let* (t, u) := huf_build_decoder ht payload in ROk (take_z u payload) else ROk []) in
    let code := code_of_list (codes_of_dec ht') in
    ROk (ht', hs && huf_side_b ht' code lits && (zlen payload <? zlen lits), huf_lit_section ty desc code lits ++ sp)
  else RErr "RLE literals".

(** all compressed blocks of a frame in order: [true] iff every block is reproduced with its side conditions *)
Fixpoint rewrite_blocks (ht : huf_table) (bodies : list (list Z)) : res (list (bool * bool)) :=
  match bodies with
  | [] => ROk []
  | b :: t =>
      let* (ht', h, again) := rewrite_block ht b in
      let* r := rewrite_blocks ht' t in
      ROk ((h, if list_eq_dec Z.eq_dec again b then true else false) :: r)
  end.
