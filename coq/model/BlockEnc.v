(** A compressed block whose literals go out raw, as [compress_block] (encoding/blocks/compressed.rs) lays it out:
    raw-literals header (type 0, size format 3, 20-bit length), the literal bytes, the sequence count, the mode byte
    0xA8 and the sequences section; or a zero sequence count.  Plus the inverse direction used by the correspondence
    check: take a real block apart with the decoder model and write it again with this model. *)
Require Import Zrs.lib.RsPrelude Zrs.gen.Generated Zrs.model.Headers Zrs.model.BitIO Zrs.model.FseDec Zrs.model.HufDec Zrs.model.BlockDec.
Require Import Zrs.model.BitStream Zrs.model.SeqEnc Zrs.model.FseEnc Zrs.model.SeqSection Zrs.model.Matcher.
Open Scope Z_scope.

(** what [compress_block] makes of the match finder's sequences: one literal buffer, and (literal length, match length,
    offset + 3) per match -- the raw offset is always coded as a new offset (value above 3) *)
Definition mseq_lits (s : mseq) : list Z := match s with MLit l => l | MTriple l _ _ => l end.
Definition mseqs_lits (ms : list mseq) : list Z := concat (map mseq_lits ms).
Definition mseqs_seqs (ms : list mseq) : list sequence :=
  flat_map (fun s => match s with
                     | MLit _ => []
                     | MTriple l off ml => [{| sq_ll := zlen l; sq_ml := Z.of_nat ml; sq_of := Z.of_nat off + 3 |}]
                     end) ms.

Definition raw_lit_header (n : Z) : list Z := [12 + 16 * (n mod 16); (n / 16) mod 256; n / 4096].

Definition block_raw_lits (lits : list Z) (dl do dm : dist) (seqs : list sequence) : res (list Z) :=
  match seqs with
  | [] => ROk (raw_lit_header (zlen lits) ++ lits ++ [0])
  | _ =>
      let* (u, sn) := encode_seqnum (Z.of_nat (length seqs)) [] in
      let* sec := section_bytes dl do dm seqs in
      ROk (raw_lit_header (zlen lits) ++ lits ++ sn ++ MODES_ALL_ENCODED :: sec)
  end.

(** a real block body with raw literals: decoded distributions, literals and sequences, written again *)
Definition rewrite_raw_block (body : list Z) : res (bool * list Z) :=
  let* (used, ty, regen, comp, streams) := lit_header_parse body in
  if negb (ty =? 0) then RErr "not raw literals" else
  let lits := take_z regen (drop_z used body) in
  let raw2 := drop_z (used + regen) body in
  let* (used_seq, nseq, modes) := sequences_header_parse 0 None raw2 in
  if nseq =? 0 then
    let* again := block_raw_lits lits (0, []) (0, []) (0, []) [] in ROk (true, again)
  else
    let* (s2, seqs) := decode_sequences nseq modes (drop_z used_seq raw2) fse_scratch_new in
    let dl := dist_of (fs_ll s2) in let do := dist_of (fs_of s2) in let dm := dist_of (fs_ml s2) in
    let* again := block_raw_lits lits dl do dm seqs in
    ROk (section_hyps_b dl do dm seqs, again).

(** the first block of a frame at level Fastest, from the data: the match finder model on [data], the literal buffer and
    triples [compress_block] makes of its report, the distributions read out of the real block [body]; the result must
    be [body] again (correspondence check) *)
Definition fastest_first_block (window : nat) (data body : list Z) : res (bool * list Z) :=
  let* d1 := commit_space (mgd_new window 1) data in
  let* (ms, d2) := mgd_start d1 in
  let lits := mseqs_lits ms in
  let seqs := mseqs_seqs ms in
  let* (used, ty, regen, comp, streams) := lit_header_parse body in
  if negb (ty =? 0) then RErr "not raw literals" else
  let raw2 := drop_z (used + regen) body in
  let* (used_seq, nseq, modes) := sequences_header_parse 0 None raw2 in
  if nseq =? 0 then
    let* again := block_raw_lits lits (0, []) (0, []) (0, []) seqs in ROk (true, again)
  else
    let* (s2, _) := decode_sequences nseq modes (drop_z used_seq raw2) fse_scratch_new in
    let dl := dist_of (fs_ll s2) in let do := dist_of (fs_of s2) in let dm := dist_of (fs_ml s2) in
    let* again := block_raw_lits lits dl do dm seqs in
    ROk (section_hyps_b dl do dm seqs, again).
