(** Model of the literals part of [compress_block] and of [compress_literals] (encoding/blocks/compressed.rs) with
    [HuffmanEncoder::write_table] / [encode4x] and [HuffmanTable::can_encode] (huff0/huff0_encoder.rs): the decision
    between raw and Huffman-coded literals, between a new table and the table of an earlier block (treeless), the two
    forms of the weight description, and the table the compressor remembers.  The compressor's state is the list of
    (code, number of bits) per symbol, as in the source. *)
Require Import Zrs.lib.RsPrelude Zrs.gen.Generated Zrs.model.Headers Zrs.model.BitIO Zrs.model.BitStream Zrs.model.FseDec Zrs.model.HufDec Zrs.model.BlockDec Zrs.model.SeqEnc Zrs.model.FseEnc Zrs.model.FseNorm Zrs.model.WeightEnc Zrs.model.LitEnc Zrs.model.BlockEnc Zrs.model.HufEnc Zrs.model.HufCounts.
Open Scope Z_scope.

Definition codes_t := list (Z * Z).

(** [literals_vec.iter().all(|x| *x == literals_vec[0])] *)
Definition single_symbol (lits : list Z) : bool := match lits with [] => true | x :: t => forallb (Z.eqb x) t end.

(** [self.can_encode(other)]: the sum of the differences of the code lengths, unless [other] has a code where [self]
    has none *)
Fixpoint can_encode_loop (self other : codes_t) (sum : Z) : option Z :=
  match other, self with
  | o :: ot, s :: st =>
      if negb (snd o =? 0) && (snd s =? 0) then None
      else can_encode_loop st ot (sum + Z.abs (snd o - snd s))
  | _, _ => Some sum
  end.
Definition can_encode (self other : codes_t) : option Z :=
  if (length self <? length other)%nat then None else can_encode_loop self other 0.

(** [write_table]: all weights but the last; FSE-compressed above 16 weights *)
Definition write_table_model (codes : codes_t) : res (list Z) :=
  let weights := removelast (enc_weights codes) in
  if (16 <? length weights)%nat then
    let* (al, probs) := norm_counts (weight_hist weights) 6 true in
    match desc_bytes al probs with
    | None => RPanic "table description"
    | Some d =>
        let* D := fse_build_from_probabilities (fse_new 255) al probs in
        let stream := stream_bytes (weight_fields (enc_of_dec D) weights) in
        let hb := zlen d + zlen stream in
        if 128 <=? hb then RPanic "assertion failed: encoded_len < 128" else ROk (hb :: d ++ stream)
    end
  else ROk (direct_desc weights).

(** the literals part of a block: header, payload and the table remembered afterwards *)
Definition literals_part (last : option codes_t) (lits : list Z) : res (list Z * list Z * option codes_t) :=
  let n := zlen lits in
  if (n <=? 1024) || single_symbol lits then ROk (raw_lit_header n, lits, last)
  else
    let* fresh := build_from_data lits in
    let '(codes, new_table) :=
      match last with
      | Some t => match can_encode t fresh with
                  | Some diff => if 5 <? diff then (fresh, true) else (t, false)
                  | None => (fresh, true)
                  end
      | None => (fresh, true)
      end in
    if 262144 <=? n then RPanic "not implemented: too many literals" else
    let* desc := (if new_table then write_table_model codes else ROk []) in
    let '(a, b, c, _) := split4 lits in
    if (65535 <? zlen (hstream (code_fn codes) a)) || (65535 <? zlen (hstream (code_fn codes) b)) || (65535 <? zlen (hstream (code_fn codes) c))
    then RPanic "assertion failed: size <= u16::MAX" else
    let payload := desc ++ huf4_bytes (code_fn codes) lits in
    let header := huf_lit_header (if new_table then 2 else 3) n (zlen payload) in
    if n <=? zlen header + zlen payload then ROk (raw_lit_header n, lits, last)
    else ROk (header, payload, if new_table then Some fresh else last).

(** *** correspondence: the blocks of a real frame at level Fastest in order.  The decoder model takes the literals out
    of every compressed block (carrying its Huffman table along); [literals_part], carrying the compressor's remembered
    table along, must write exactly the literals section of the real block.  An RLE block leaves the remembered table
    alone, a block stored raw forgets it ([compress_fastest]). *)
Inductive blk := BRle | BRaw | BComp (body : list Z).
Fixpoint list_eqb_z (a b : list Z) : bool :=
  match a, b with [], [] => true | x :: a', y :: b' => (x =? y) && list_eqb_z a' b' | _, _ => false end.
Fixpoint lit_chain (ht : huf_table) (last : option codes_t) (bs : list blk) : res (list (bool * Z * list Z)) :=
  match bs with
  | [] => ROk []
  | BRle :: t => lit_chain ht last t
  | BRaw :: t => lit_chain ht None t
  | BComp body :: t =>
      let* (used, ty, regen, comp, streams) := lit_header_parse body in
      let upper := match comp with Some x => x | None => if ty =? 1 then 1 else regen end in
      let payload := take_z upper (drop_z used body) in
      let* (ht', lits, _) := decode_literals {| ls_type := ty; ls_regen := regen; ls_comp := comp; ls_streams := streams |} ht payload in
      let* (hdr, pl, last') := literals_part last lits in
      let* r := lit_chain ht' last' t in
      ROk ((list_eqb_z (hdr ++ pl) (take_z (used + upper) body), ty, hdr) :: r)
  end.
