(** model: [common_prefix_len] of the source is [mismatch_chunks::<8>]: compare whole chunks of N bytes while both
    slices still have one and the chunks are equal, then continue byte by byte from there.  The matcher model uses
    the byte-wise [common_prefix]; here the chunked routine is modelled as written and proved equal to it for every
    chunk length N > 0 and all slices. *)
Require Import Zrs.lib.RsPrelude Zrs.model.Matcher.
Open Scope nat_scope.

Fixpoint zlist_eqb (a b : list Z) : bool :=
  match a, b with
  | [], [] => true
  | x :: a', y :: b' => (x =? y)%Z && zlist_eqb a' b'
  | _, _ => false
  end.

(** [zip(xs.chunks_exact(N), ys.chunks_exact(N)).take_while(|(x, y)| x == y).count()]; fuel: a slice of length n has
    at most n chunks *)
Fixpoint equal_chunks (N fuel : nat) (xs ys : list Z) : nat :=
  match fuel with
  | O => O
  | S f =>
      if (N <=? length xs) && (N <=? length ys) && zlist_eqb (firstn N xs) (firstn N ys)
      then S (equal_chunks N f (skipn N xs) (skipn N ys)) else O
  end.

Definition mismatch_chunks (N : nat) (xs ys : list Z) : nat :=
  let off := equal_chunks N (length xs) xs ys * N in
  off + common_prefix (skipn off xs) (skipn off ys).

Definition common_prefix_len (a b : list Z) : nat := mismatch_chunks 8 a b.

