(** Backward bit streams as the compressor writes them: fields (value, width) appended least significant bit first,
    a single 1 bit, zeros up to the byte boundary; packed into bytes. *)
Require Import Zrs.lib.RsPrelude Zrs.model.BitIO.
Open Scope Z_scope.

Fixpoint bytes_of_bits (l : list bit) (fuel : nat) : list Z :=
  match fuel with
  | O => []
  | S f => match l with [] => [] | _ => bits_val_lsb (firstn 8 l) :: bytes_of_bits (skipn 8 l) f end
  end.

Definition field := (Z * nat)%type.
Definition fields_bits (fs : list field) : list bit := flat_map (fun f => byte_bits_lsb (snd f) (fst f)) fs.
(** what the writers do at the end: a 1 bit, then zeros up to the byte boundary (a whole byte 0x01 if already aligned) *)
Definition stream_bits (fs : list field) : list bit :=
  let b := fields_bits fs in b ++ true :: repeat false (7 - length b mod 8).
Definition stream_bytes (fs : list field) : list Z := bytes_of_bits (stream_bits fs) (S (length (stream_bits fs))).
