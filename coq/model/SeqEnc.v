(** The compressor's sequences bit stream, as an executable model: the encoder's FSE tables are derived from the
    decoding tables (an encoder state of symbol [s] is a decoding-table entry with that symbol; [start_state] is the
    one with the smallest baseline, [next_state s idx] the one whose range contains [idx]) and the fields are written
    in the order of [encode_sequences] (encoding/blocks/compressed.rs).  [reencode] maps the decoded sequences of a
    block back to the bit stream: the check compares it byte for byte with what the real compressor wrote. *)
Require Import Zrs.lib.RsPrelude Zrs.gen.Generated Zrs.model.BitIO Zrs.model.BitStream Zrs.model.FseDec Zrs.model.HufDec Zrs.model.BlockDec.
Open Scope Z_scope.

Record enc_state := { es_index : Z; es_bits : nat; es_base : Z }.
Record enc_table := { et_start : Z -> enc_state; et_next : Z -> Z -> enc_state; et_log : nat }.
Definition es0 : enc_state := {| es_index := 0; es_bits := O; es_base := 0 |}.

(** search the decoding table *)
Fixpoint find_entry (l : list fse_entry) (i : Z) (p : fse_entry -> bool) : option (Z * fse_entry) :=
  match l with
  | [] => None
  | e :: t => if p e then Some (i, e) else find_entry t (i + 1) p
  end.
Fixpoint min_base (l : list fse_entry) (i : Z) (sym : Z) (best : option (Z * fse_entry)) : option (Z * fse_entry) :=
  match l with
  | [] => best
  | e :: t =>
      let best := if e_sym e =? sym
                  then match best with
                       | Some (_, b) => if e_base e <? e_base b then Some (i, e) else best
                       | None => Some (i, e)
                       end
                  else best in
      min_base t (i + 1) sym best
  end.
Definition to_state (x : option (Z * fse_entry)) : enc_state :=
  match x with
  | Some (i, e) => {| es_index := i; es_bits := Z.to_nat (e_bits e); es_base := e_base e |}
  | None => es0
  end.
Definition enc_of_dec (D : fse_table) : enc_table :=
  {| et_start := fun sym => to_state (min_base (t_decode D) 0 sym None);
     et_next := fun sym idx => to_state (find_entry (t_decode D) 0
                                 (fun e => (e_sym e =? sym) && (e_base e <=? idx) && (idx <? e_base e + 2 ^ e_bits e)));
     et_log := Z.to_nat (t_acc_log D) |}.

Record cseq := { c_ll : Z; a_ll : Z; n_ll : nat; c_ml : Z; a_ml : Z; n_ml : nat; c_of : Z; a_of : Z }.

Definition extras (q : cseq) : list field := [(a_ll q, n_ll q); (a_ml q, n_ml q); (a_of q, Z.to_nat (c_of q))].

Section Enc.
  Variables (Ell Eml Eof : enc_table).
  Fixpoint enc_body (qs : list cseq) : Z * Z * Z * list field :=
    match qs with
    | [] => (0, 0, 0, [])
    | [q] => (es_index (et_start Ell (c_ll q)), es_index (et_start Eml (c_ml q)), es_index (et_start Eof (c_of q)), extras q)
    | q :: rest =>
        let '(sl, sm, so, fs) := enc_body rest in
        let nof := et_next Eof (c_of q) so in
        let nml := et_next Eml (c_ml q) sm in
        let nll := et_next Ell (c_ll q) sl in
        (es_index nll, es_index nml, es_index nof,
         fs ++ [(so - es_base nof, es_bits nof); (sm - es_base nml, es_bits nml); (sl - es_base nll, es_bits nll)] ++ extras q)
    end.
  Definition enc_fields (qs : list cseq) : list field :=
    let '(sl, sm, so, fs) := enc_body qs in
    fs ++ [(sm, et_log Eml); (so, et_log Eof); (sl, et_log Ell)].
End Enc.

(** value -> code mapping of the compressor (generated functions) *)
Definition to_cseq (s : sequence) : res cseq :=
  let* (cl, al, nl) := encode_literal_length (sq_ll s) in
  let* (cm, am, nm) := encode_match_len (sq_ml s) in
  let '(co, ao, no) := encode_offset (sq_of s) in
  ROk {| c_ll := cl; a_ll := al; n_ll := Z.to_nat nl; c_ml := cm; a_ml := am; n_ml := Z.to_nat nm; c_of := co; a_of := ao |}.

Fixpoint map_res {A B} (f : A -> res B) (l : list A) : res (list B) :=
  match l with
  | [] => ROk []
  | x :: t => let* y := f x in let* r := map_res f t in ROk (y :: r)
  end.

(** the bit stream the compressor writes for [seqs] with the tables of [s] *)
Definition reencode (s : fse_scratch) (seqs : list sequence) : res (list Z) :=
  let* qs := map_res to_cseq seqs in
  ROk (stream_bytes (enc_fields (enc_of_dec (fs_ll s)) (enc_of_dec (fs_ml s)) (enc_of_dec (fs_of s)) qs)).

(** decode a sequences section (after the count and mode bytes were parsed by the caller) and encode it again:
    returns (sequences as (ll, ml, of) triples, original bit stream, re-encoded bit stream) *)
Definition decode_reencode (num_sequences : Z) (modes : Z) (source : list Z) : res (list sequence * list Z * list Z) :=
  let* (s, bytes_read) := maybe_update_fse_tables (Some modes) source fse_scratch_new in
  let* (s2, seqs) := decode_sequences num_sequences (Some modes) source fse_scratch_new in
  let* again := reencode s2 seqs in
  ROk (seqs, drop_z bytes_read source, again).

(** the compressor's Huffman literal stream for [data] given its (code, number of bits) table: the codes last symbol
    first ([HuffmanEncoder::encode_stream]); executable counterpart of [huf_stream_bytes] in proofs/C13_Stream.v *)
Definition huf_stream_model (codes : list (Z * nat)) (data : list Z) : list Z :=
  stream_bytes (map (fun s => nth (Z.to_nat s) codes (0, O)) (rev data)).

(** build the decoding table from a description and decode one stream that follows it *)
Definition huf_describe_and_decode (encoded : list Z) : res (Z * list Z) :=
  let* (t, used) := huf_build_decoder huf_new encoded in
  let* out_rev := huf_decode_stream t (drop_z used encoded) [] true in
  ROk (used, rev' out_rev).
