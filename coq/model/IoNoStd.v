(** Model of the crate's own I/O layer used without the standard library (io_nostd.rs): [Read::io_read_exact],
    [Read::read_to_end], [Take], [Read for &[u8]], [Write::io_write_all], [Write for &mut [u8]] and [Vec<u8>].
    An inner reader / writer is a script: what each successive call does. *)
Require Import Zrs.lib.RsPrelude.
Open Scope Z_scope.

(** one call of [read] on the inner reader: deliver at most [n+1] bytes, be interrupted, or fail *)
Inductive rcall := RChunk (n : nat) | RInterrupted | RFail.
Record sreader := { sr_data : list Z; sr_script : list rcall }.

Inductive ioerr := EInterrupted | EOther | EUnexpectedEof | EWriteZero.

(** [read(buf)] with [space = buf.len()]: after the script is exhausted the reader delivers as much as fits *)
Definition sr_read (r : sreader) (space : nat) : (list Z + ioerr) * sreader :=
  match sr_script r with
  | [] => (inl (firstn space (sr_data r)), {| sr_data := skipn space (sr_data r); sr_script := [] |})
  | RChunk n :: t =>
      let k := Nat.min space (S n) in
      (inl (firstn k (sr_data r)), {| sr_data := skipn k (sr_data r); sr_script := t |})
  | RInterrupted :: t => (inr EInterrupted, {| sr_data := sr_data r; sr_script := t |})
  | RFail :: t => (inr EOther, {| sr_data := sr_data r; sr_script := t |})
  end.

(** [Read for &[u8]] *)
Definition slice_read (s : list Z) (space : nat) : list Z * list Z :=
  let size := Nat.min (length s) space in (firstn size s, skipn size s).

(** [io_read_exact]: the buffer is filled front to back; returns the bytes placed in the buffer so far as well *)
Fixpoint io_read_exact (fuel : nat) (r : sreader) (need : nat) (got : list Z) : (list Z * option ioerr) * sreader :=
  match need with
  | O => ((got, None), r)
  | _ =>
      match fuel with
      | O => ((got, Some EOther), r)       (* not reached: see [read_exact_fuel] *)
      | S f =>
          match sr_read r need with
          | (inl [], r') => ((got, Some EUnexpectedEof), r')
          | (inl bytes, r') => io_read_exact f r' (need - length bytes) (got ++ bytes)
          | (inr EInterrupted, r') => io_read_exact f r' need got
          | (inr e, r') => ((got, Some e), r')
          end
      end
  end.

(** [Take] *)
Record taker := { tk_inner : sreader; tk_limit : Z }.
Definition io_take_read (t : taker) (space : nat) : (list Z + ioerr) * taker :=
  if tk_limit t =? 0 then (inl [], t)
  else
    let at_most := Z.to_nat (Z.min (tk_limit t) (Z.of_nat space)) in
    match sr_read (tk_inner t) at_most with
    | (inl bytes, r') => (inl bytes, {| tk_inner := r'; tk_limit := tk_limit t - Z.of_nat (length bytes) |})
    | (inr e, r') => (inr e, {| tk_inner := r'; tk_limit := tk_limit t |})
    end.

(** [read_to_end] through a [Take] with a 16 KiB scratch buffer: errors (including Interrupted) abort *)
Fixpoint io_take_read_to_end (fuel : nat) (t : taker) (out : list Z) : (list Z * option ioerr) * taker :=
  match fuel with
  | O => ((out, Some EOther), t)
  | S f =>
      match io_take_read t (Z.to_nat 16384) with
      | (inl [], t') => ((out, None), t')
      | (inl bytes, t') => io_take_read_to_end f t' (out ++ bytes)
      | (inr e, t') => ((out, Some e), t')
      end
  end.

(** writers: each call accepts at most [n+1] bytes ([WChunk]), zero bytes ([WZero]), is interrupted or fails *)
Inductive wcall := WChunk (n : nat) | WZero | WInterrupted | WFail.
Record swriter := { sw_out : list Z; sw_script : list wcall }.
Definition sw_write (w : swriter) (buf : list Z) : (nat + ioerr) * swriter :=
  match sw_script w with
  | [] => (inl (length buf), {| sw_out := sw_out w ++ buf; sw_script := [] |})
  | WChunk n :: t => let k := Nat.min (length buf) (S n) in
                     (inl k, {| sw_out := sw_out w ++ firstn k buf; sw_script := t |})
  | WZero :: t => (inl O, {| sw_out := sw_out w; sw_script := t |})
  | WInterrupted :: t => (inr EInterrupted, {| sw_out := sw_out w; sw_script := t |})
  | WFail :: t => (inr EOther, {| sw_out := sw_out w; sw_script := t |})
  end.

Fixpoint io_write_all (fuel : nat) (w : swriter) (buf : list Z) : option ioerr * swriter :=
  match buf with
  | [] => (None, w)
  | _ =>
      match fuel with
      | O => (Some EOther, w)
      | S f =>
          match sw_write w buf with
          | (inl O, w') => (Some EWriteZero, w')
          | (inl n, w') => io_write_all f w' (skipn n buf)
          | (inr EInterrupted, w') => io_write_all f w' buf
          | (inr e, w') => (Some e, w')
          end
      end
  end.

(** [Write for &mut [u8]]: a fixed-size target *)
Definition slice_write (room : nat) (data : list Z) : nat := Nat.min (length data) room.
