(** Model of ruzstd/src/huff0/huff0_decoder.rs: weight reading (direct and FSE-compressed), canonical table
    construction, and the decoder's state machine. *)
Require Import Zrs.lib.RsPrelude Zrs.model.BitIO Zrs.model.FseDec.
Open Scope Z_scope.

Definition MAX_MAX_NUM_BITS := 11.

Record huf_entry := { h_sym : Z; h_bits : Z }.
Definition hentry0 := {| h_sym := 0; h_bits := 0 |}.

Record huf_table := {
  ht_decode : list huf_entry;
  ht_len : Z;              (* = length ht_decode, kept alongside for O(1) bounds checks *)
  ht_weights : list Z;
  ht_max_bits : Z;
  ht_bits : list Z;
  ht_bit_ranks : list Z;
  ht_rank_indexes : list Z;
  ht_fse : fse_table;
}.
Definition huf_new : huf_table :=
  {| ht_decode := []; ht_len := 0; ht_weights := []; ht_max_bits := 0; ht_bits := []; ht_bit_ranks := [];
     ht_rank_indexes := []; ht_fse := fse_new 255 |}.
Definition huf_reset (t : huf_table) : huf_table :=
  {| ht_decode := []; ht_len := 0; ht_weights := []; ht_max_bits := 0; ht_bits := []; ht_bit_ranks := [];
     ht_rank_indexes := []; ht_fse := fse_reset (ht_fse t) |}.
(** [reinit_from] copies everything except [bit_ranks] (left cleared by [reset]) *)
Definition huf_reinit_from (t other : huf_table) : huf_table :=
  {| ht_decode := ht_decode other; ht_len := ht_len other; ht_weights := ht_weights other; ht_max_bits := ht_max_bits other;
     ht_bits := ht_bits other; ht_bit_ranks := []; ht_rank_indexes := ht_rank_indexes other;
     ht_fse := fse_reinit_from (ht_fse t) (ht_fse other) |}.

(** the two interleaved FSE states decoding the weights; [ws_rev]: weights decoded so far, newest first *)
Fixpoint fse_weights_loop (fuel : nat) (t : fse_table) (s1 s2 : fse_entry) (br : rbr) (ws_rev : list Z) (n : Z)
  : res (list Z) :=
  match fuel with
  | O => RPanic "fuel"
  | S f =>
      let ws_rev := e_sym s1 :: ws_rev in
      let* (s1, br) := fse_update_state t s1 br in
      if rbr_bits_remaining br <=? -1 then ROk (e_sym s2 :: ws_rev)
      else
        let ws_rev := e_sym s2 :: ws_rev in
        let* (s2, br) := fse_update_state t s2 br in
        if rbr_bits_remaining br <=? -1 then ROk (e_sym s1 :: ws_rev)
        else if 255 <? n + 2 then RErr "TooManyWeights"
        else fse_weights_loop f t s1 s2 br ws_rev (n + 2)
  end.

Fixpoint direct_weights (n : nat) (idx : Z) (raw : list Z) : list Z :=
  match n with
  | O => []
  | S k => (if idx mod 2 =? 0 then nth_z raw (idx / 2) / 16 else nth_z raw (idx / 2) mod 16)
           :: direct_weights k (idx + 1) raw
  end.

(** returns (weights, fse table left in the Huffman table, bytes read) *)
Definition read_weights (t : huf_table) (source : list Z) : res (list Z * fse_table * Z) :=
  match source with
  | [] => RErr "SourceIsEmpty"
  | header :: fse_stream =>
      if header <? 128 then
        if Z.of_nat (length fse_stream) <? header then RErr "NotEnoughBytesForWeights"
        else
          let* (ft, used) := fse_build_decoder (ht_fse t) fse_stream 6 in
          if header <? used then RErr "FSETableUsedTooManyBytes"
          else
            let compressed_length := header - used in
            let cw := skipn (Z.to_nat used) fse_stream in
            if Z.of_nat (length cw) <? compressed_length then RErr "NotEnoughBytesToDecompressWeights"
            else
              let cw := firstn (Z.to_nat compressed_length) cw in
              let br := rbr_new cw in
              match rbr_skip_padding br with
              | None => RErr "ExtraPadding"
              | Some br =>
                  let* (s1, br) := fse_init_state ft br in
                  let* (s2, br) := fse_init_state ft br in
                  let* ws_rev := fse_weights_loop (S (8 * length cw + 256)) ft s1 s2 br [] 0 in
                  let bits_read := 8 + (used + compressed_length) * 8 in
                  ROk (rev ws_rev, ft, bits_read / 8)
              end
      else
        let num_weights := header - 127 in
        let bytes_needed := if num_weights mod 2 =? 0 then num_weights / 2 else num_weights / 2 + 1 in
        if Z.of_nat (length fse_stream) <? bytes_needed then RErr "NotEnoughBytesInSource"
        else
          let ws := direct_weights (Z.to_nat num_weights) 0 fse_stream in
          let bits_read := 8 + 4 * num_weights in
          ROk (ws, ht_fse t, if bits_read mod 8 =? 0 then bits_read / 8 else bits_read / 8 + 1)
  end.

Fixpoint weight_sum (ws : list Z) (acc : Z) : res Z :=
  match ws with
  | [] => ROk acc
  | w :: t => if MAX_MAX_NUM_BITS <? w then RErr "WeightBiggerThanMaxNumBits"
              else weight_sum t (acc + (if 0 <? w then 2 ^ (w - 1) else 0))
  end.

Definition is_pow2 (x : Z) : bool := (0 <? x) && (2 ^ Z.log2 x =? x).

Fixpoint count_ranks (bits : list Z) (ranks : list Z) : res (list Z) :=
  match bits with
  | [] => ROk ranks
  | b :: t => if Z.of_nat (length ranks) <=? b then RPanic "index out of bounds"
              else count_ranks t (upd ranks (Z.to_nat b) (nth_z ranks b + 1))
  end.

(** rank_indexes[bits-1] = rank_indexes[bits] + bit_ranks[bits] * 2^(max_bits - bits), for bits = max .. 1 *)
Fixpoint rank_idx_loop (n : nat) (bits : Z) (max_bits : Z) (ranks idxs : list Z) : list Z :=
  match n with
  | O => idxs
  | S k =>
      let idxs := upd idxs (Z.to_nat (bits - 1)) (nth_z idxs bits + nth_z ranks bits * 2 ^ (max_bits - bits)) in
      rank_idx_loop k (bits - 1) max_bits ranks idxs
  end.

(** write [e] into [n] consecutive entries starting at [base] (bounds are checked once by the caller) *)
Fixpoint fill_range (n : nat) (base : Z) (e : huf_entry) (dec : list huf_entry) : list huf_entry :=
  match n with
  | O => dec
  | S k => fill_range k (base + 1) e (upd dec (Z.to_nat base) e)
  end.

Fixpoint assign_codes (bits : list Z) (symbol : Z) (max_bits : Z) (idxs : list Z) (dec : list huf_entry)
  : res (list Z * list huf_entry) :=
  match bits with
  | [] => ROk (idxs, dec)
  | b :: t =>
      if b =? 0 then assign_codes t (symbol + 1) max_bits idxs dec
      else
        if Z.of_nat (length idxs) <=? b then RPanic "index out of bounds" else
        let base := nth_z idxs b in
        let len := 2 ^ (max_bits - b) in
        let idxs := upd idxs (Z.to_nat b) (base + len) in
        if 2 ^ max_bits <? base + len then RPanic "index out of bounds" else
        let dec := fill_range (Z.to_nat len) base {| h_sym := symbol mod 256; h_bits := b |} dec in
        assign_codes t (symbol + 1) max_bits idxs dec
  end.

Fixpoint hentries0 (n : nat) : list huf_entry := match n with O => [] | S k => hentry0 :: hentries0 k end.

(** [build_table_from_weights]; the previous decode vector [dec0] was cleared by [build_decoder], so
    [resize] creates exactly 2^max_bits dummy entries *)
Definition build_table_from_weights (ws : list Z) : res (list huf_entry * Z * list Z * list Z * list Z) :=
  let* wsum := weight_sum ws 0 in
  if wsum =? 0 then RErr "MissingWeights"
  else
    let max_bits := highest_bit_set wsum in
    let left_over := 2 ^ max_bits - wsum in
    if negb (is_pow2 left_over) then RErr "LeftoverIsNotAPowerOf2"
    else
      let last_weight := highest_bit_set left_over in
      let bits := map (fun w => if 0 <? w then max_bits + 1 - w else 0) ws ++ [max_bits + 1 - last_weight] in
      if MAX_MAX_NUM_BITS <? max_bits then RErr "MaxBitsTooHigh"
      else
        let* ranks := count_ranks bits (zeros (Z.to_nat (max_bits + 1))) in
        let dec := hentries0 (Z.to_nat (2 ^ max_bits)) in
        let idxs := rank_idx_loop (Z.to_nat max_bits) max_bits max_bits ranks (zeros (Z.to_nat (max_bits + 1))) in
        if negb (nth_z idxs 0 =? 2 ^ max_bits) then RPanic "assert rank_indexes[0] == decode.len()"
        else
          let* (idxs, dec) := assign_codes bits 0 max_bits idxs dec in
          ROk (dec, max_bits, bits, ranks, idxs).

(** [HuffmanTable::build_decoder]: returns the table and the number of bytes used *)
Definition huf_build_decoder (t : huf_table) (source : list Z) : res (huf_table * Z) :=
  let* (ws, ft, bytes) := read_weights t source in
  let* (dec, max_bits, bits, ranks, idxs) := build_table_from_weights ws in
  ROk ({| ht_decode := dec; ht_len := 2 ^ max_bits; ht_weights := ws; ht_max_bits := max_bits; ht_bits := bits; ht_bit_ranks := ranks;
          ht_rank_indexes := idxs; ht_fse := ft |}, bytes).

(** *** the decoder: [state] indexes the table *)
Definition nth_h (l : list huf_entry) (i : Z) : huf_entry := nth (Z.to_nat i) l hentry0.

Definition huf_init_state (t : huf_table) (br : rbr) : Z * rbr := rbr_get_bits br (ht_max_bits t).

Definition huf_decode_symbol (t : huf_table) (state : Z) : res Z :=
  if ht_len t <=? state then RPanic "index out of bounds"
  else ROk (h_sym (nth_h (ht_decode t) state)).

Definition huf_next_state (t : huf_table) (state : Z) (br : rbr) : res (Z * rbr) :=
  if ht_len t <=? state then RPanic "index out of bounds"
  else
    let nb := h_bits (nth_h (ht_decode t) state) in
    let '(new_bits, br) := rbr_get_bits br nb in
    let len := ht_len t in
    (* (state << num_bits) & (len - 1) | new_bits ; len is a power of two *)
    ROk (Z.lor (Z.land (state * 2 ^ nb) (len - 1)) new_bits, br).

(** decode one stream into [out_rev] (newest first) *)
Fixpoint huf_stream_loop (fuel : nat) (t : huf_table) (state : Z) (br : rbr) (out_rev : list Z) : res (list Z * rbr) :=
  match fuel with
  | O => RPanic "fuel"
  | S f =>
      if - ht_max_bits t <? rbr_bits_remaining br then
        let* sym := huf_decode_symbol t state in
        let* (state, br) := huf_next_state t state br in
        huf_stream_loop f t state br (sym :: out_rev)
      else ROk (out_rev, br)
  end.

Definition huf_decode_stream (t : huf_table) (stream : list Z) (out_rev : list Z) (check_end : bool)
  : res (list Z) :=
  let br := rbr_new stream in
  match rbr_skip_padding br with
  | None => RErr "ExtraPadding"
  | Some br =>
      let '(state, br) := huf_init_state t br in
      let* (out_rev, br) := huf_stream_loop (S (8 * length stream + 16)) t state br out_rev in
      if check_end && negb (rbr_bits_remaining br =? - ht_max_bits t) then RErr "BitstreamReadMismatch"
      else ROk out_rev
  end.
