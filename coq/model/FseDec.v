(** Model of ruzstd/src/fse/fse_decoder.rs: reading a normalised distribution, building the decoding table,
    and the state machine of one FSE decoder.  Loops are recursion on fuel (the theorems give the bound). *)
Require Import Zrs.lib.RsPrelude Zrs.model.BitIO.
Open Scope Z_scope.

Record fse_entry := { e_base : Z; e_bits : Z; e_sym : Z }.
Definition entry0 : fse_entry := {| e_base := 0; e_bits := 0; e_sym := 0 |}.

Record fse_table := {
  t_max_symbol : Z;
  t_decode : list fse_entry;
  t_acc_log : Z;
  t_probs : list Z;
  t_counter : list Z;
}.
Definition fse_new (max_symbol : Z) : fse_table :=
  {| t_max_symbol := max_symbol; t_decode := []; t_acc_log := 0; t_probs := []; t_counter := [] |}.
(** [reset]: everything but max_symbol *)
Definition fse_reset (t : fse_table) : fse_table := fse_new (t_max_symbol t).
(** [reinit_from]: copies the other table's contents, keeps its own max_symbol *)
Definition fse_reinit_from (t other : fse_table) : fse_table :=
  {| t_max_symbol := t_max_symbol t; t_decode := t_decode other; t_acc_log := t_acc_log other;
     t_probs := t_probs other; t_counter := t_counter other |}.

Definition ACC_LOG_OFFSET := 5.

Fixpoint zeros (n : nat) : list Z := match n with O => [] | S k => 0 :: zeros k end.

(** the zero-run loop: 2-bit repeat flags *)
Fixpoint skip_zero_runs (fuel : nat) (br : fbr) (probs_rev : list Z) : res (fbr * list Z) :=
  match fuel with
  | O => RPanic "fuel"
  | S f =>
      let* (skip, br') := fbr_get_bits br 2 in
      let probs_rev := zeros (Z.to_nat skip) ++ probs_rev in
      if skip =? 3 then skip_zero_runs f br' probs_rev else ROk (br', probs_rev)
  end.

(** one probability value: a field of [bits] or [bits - 1] bits depending on the value *)
Definition read_value (br : fbr) (max_remaining : Z) : res (Z * fbr) :=
  let bits_to_read := highest_bit_set max_remaining in
  let* (unchecked, br1) := fbr_get_bits br bits_to_read in
  let low_threshold := (2 ^ bits_to_read - 1) - max_remaining in
  let mask := 2 ^ (bits_to_read - 1) - 1 in
  let small := unchecked mod 2 ^ (bits_to_read - 1) in
  if small <? low_threshold then
    let* b := fbr_return_bits br1 1 in ROk (small, b)
  else if mask <? unchecked then ROk (unchecked - low_threshold, br1)
  else ROk (unchecked, br1).

(** main loop of [read_probabilities]; [probs_rev] is the probability vector, last symbol first *)
Fixpoint read_probs_loop (fuel : nat) (br : fbr) (sum counter : Z) (probs_rev : list Z) : res (fbr * Z * list Z) :=
  match fuel with
  | O => RPanic "fuel"
  | S f =>
      if counter <? sum then
        let* (value, br2) := read_value br (sum - counter + 1) in
        let prob := value - 1 in
        let probs_rev := prob :: probs_rev in
        if prob =? 0 then
          let* (br3, probs_rev) := skip_zero_runs f br2 probs_rev in
          read_probs_loop f br3 sum counter probs_rev
        else if 0 <? prob then read_probs_loop f br2 sum (counter + prob) probs_rev
        else if prob =? -1 then read_probs_loop f br2 sum (counter + 1) probs_rev
        else RPanic "assert prob == -1"
      else ROk (br, counter, probs_rev)
  end.

(** returns (accuracy_log, probabilities, bytes read) *)
Definition read_probabilities (max_symbol : Z) (source : list Z) (max_log : Z) : res (Z * list Z * Z) :=
  let br := fbr_new source in
  let* (v, br) := fbr_get_bits br 4 in
  let acc_log := ACC_LOG_OFFSET + v in
  if max_log <? acc_log then RErr "AccLogTooBig"
  else if acc_log =? 0 then RErr "AccLogIsZero"
  else
    let sum := 2 ^ acc_log in
    let* (br, counter, probs_rev) := read_probs_loop (S (8 * length source)) br sum 0 [] in
    if negb (counter =? sum) then RErr "ProbabilityCounterMismatch"
    else if max_symbol + 1 <? Z.of_nat (length probs_rev) then RErr "TooManySymbols"
    else
      let bits := fbr_bits_read br in
      let bytes := if bits mod 8 =? 0 then bits / 8 else bits / 8 + 1 in
      ROk (acc_log, rev probs_rev, bytes).

(** *** table construction *)
Definition next_position (p table_size : Z) : Z :=
  (p + (table_size / 2 + table_size / 8 + 3)) mod table_size.

Definition calc_baseline_and_numbits (total num_states_symbol state_number : Z) : Z * Z :=
  if num_states_symbol =? 0 then (0, 0)
  else
    let slices := if 2 ^ (highest_bit_set num_states_symbol - 1) =? num_states_symbol
                  then num_states_symbol else 2 ^ (highest_bit_set num_states_symbol) in
    let double := slices - num_states_symbol in
    let single := num_states_symbol - double in
    let width := total / slices in
    let nbits := highest_bit_set width - 1 in
    if state_number <? double then (single * width + state_number * width * 2, nbits + 1)
    else ((state_number - double) * width, nbits).

Fixpoint upd {A} (l : list A) (i : nat) (v : A) : list A :=
  match l, i with
  | [], _ => []
  | _ :: t, O => v :: t
  | h :: t, S i' => h :: upd t i' v
  end.
Definition nth_e (l : list fse_entry) (i : Z) : fse_entry := nth (Z.to_nat i) l entry0.

(** place the "less than one" symbols at the top of the table *)
Fixpoint place_negative (probs : list Z) (symbol : Z) (acc_log : Z) (neg_idx : Z) (dec : list fse_entry)
  : res (Z * list fse_entry) :=
  match probs with
  | [] => ROk (neg_idx, dec)
  | p :: t =>
      if p =? -1 then
        if neg_idx <=? 0 then RPanic "attempt to subtract with overflow" else
        let neg_idx := neg_idx - 1 in
        place_negative t (symbol + 1) acc_log neg_idx
          (upd dec (Z.to_nat neg_idx) {| e_base := 0; e_bits := acc_log; e_sym := symbol mod 256 |})
      else place_negative t (symbol + 1) acc_log neg_idx dec
  end.

(** skip positions occupied by the negative symbols *)
Fixpoint skip_taken (fuel : nat) (position neg_idx size : Z) : res Z :=
  match fuel with
  | O => RPanic "fuel"
  | S f => if neg_idx <=? position then skip_taken f (next_position position size) neg_idx size else ROk position
  end.

Fixpoint spread_one (n : nat) (symbol position neg_idx size : Z) (dec : list fse_entry) : res (Z * list fse_entry) :=
  match n with
  | O => ROk (position, dec)
  | S k =>
      if Z.of_nat (length dec) <=? position then RPanic "index out of bounds" else
      let e := nth_e dec position in
      let dec := upd dec (Z.to_nat position) {| e_base := e_base e; e_bits := e_bits e; e_sym := symbol |} in
      let* position := skip_taken (S (Z.to_nat size)) (next_position position size) neg_idx size in
      spread_one k symbol position neg_idx size dec
  end.

Fixpoint spread (probs : list Z) (symbol position neg_idx size : Z) (dec : list fse_entry) : res (list fse_entry) :=
  match probs with
  | [] => ROk dec
  | p :: t =>
      if p <=? 0 then spread t (symbol + 1) position neg_idx size dec
      else
        let* (position, dec) := spread_one (Z.to_nat p) (symbol mod 256) position neg_idx size dec in
        spread t (symbol + 1) position neg_idx size dec
  end.

Definition nth_z (l : list Z) (i : Z) : Z := nth (Z.to_nat i) l 0.

(** baselines and bit counts in increasing state order *)
Fixpoint assign (n : nat) (idx size acc_log : Z) (probs : list Z) (counter : list Z) (dec : list fse_entry)
  : res (list Z * list fse_entry) :=
  match n with
  | O => ROk (counter, dec)
  | S k =>
      let e := nth_e dec idx in
      let symbol := e_sym e in
      if Z.of_nat (length probs) <=? symbol then RPanic "index out of bounds" else
      let prob := nth_z probs symbol in
      let count := nth_z counter symbol in
      (* prob as u32: a negative probability would wrap; the entries below negative_idx all have prob >= 1 *)
      let '(bl, nb) := calc_baseline_and_numbits size (if prob <? 0 then prob + 2 ^ 32 else prob) count in
      if acc_log <? nb then RPanic "assert nb <= accuracy_log" else
      let counter := upd counter (Z.to_nat symbol) (count + 1) in
      let dec := upd dec (Z.to_nat idx) {| e_base := bl; e_bits := nb; e_sym := symbol |} in
      assign k (idx + 1) size acc_log probs counter dec
  end.

Fixpoint entries0 (n : nat) : list fse_entry := match n with O => [] | S k => entry0 :: entries0 k end.

(** [build_decoding_table] on (max_symbol, accuracy_log, probabilities) *)
Definition build_decoding_table (max_symbol acc_log : Z) (probs : list Z) : res (list fse_entry * list Z) :=
  if max_symbol + 1 <? Z.of_nat (length probs) then RErr "TooManySymbols"
  else
    let size := 2 ^ acc_log in
    let dec := entries0 (Z.to_nat size) in
    let* (neg_idx, dec) := place_negative probs 0 acc_log size dec in
    let* dec := spread probs 0 0 neg_idx size dec in
    let counter := zeros (length probs) in
    let* (counter, dec) := assign (Z.to_nat neg_idx) 0 size acc_log probs counter dec in
    ROk (dec, counter).

(** [FSETable::build_decoder]: returns the new table and the number of bytes read *)
Definition fse_build_decoder (t : fse_table) (source : list Z) (max_log : Z) : res (fse_table * Z) :=
  let* (acc_log, probs, bytes) := read_probabilities (t_max_symbol t) source max_log in
  let* (dec, counter) := build_decoding_table (t_max_symbol t) acc_log probs in
  ROk ({| t_max_symbol := t_max_symbol t; t_decode := dec; t_acc_log := acc_log; t_probs := probs;
          t_counter := counter |}, bytes).

Definition fse_build_from_probabilities (t : fse_table) (acc_log : Z) (probs : list Z) : res fse_table :=
  if acc_log =? 0 then RErr "AccLogIsZero"
  else
    let* (dec, counter) := build_decoding_table (t_max_symbol t) acc_log probs in
    ROk {| t_max_symbol := t_max_symbol t; t_decode := dec; t_acc_log := acc_log; t_probs := probs;
           t_counter := counter |}.

(** number of states; equals [length (t_decode t)] for every table the builders produce (0 for an empty table) *)
Definition t_len (t : fse_table) : Z := if t_acc_log t =? 0 then 0 else 2 ^ t_acc_log t.

(** *** one decoder *)
Definition fse_dec_new (t : fse_table) : fse_entry := match t_decode t with e :: _ => e | [] => entry0 end.

Definition fse_init_state (t : fse_table) (br : rbr) : res (fse_entry * rbr) :=
  if t_acc_log t =? 0 then RErr "TableIsUninitialized"
  else
    let '(v, br) := rbr_get_bits br (t_acc_log t) in
    if t_len t <=? v then RPanic "index out of bounds"
    else ROk (nth_e (t_decode t) v, br).

Definition fse_update_state (t : fse_table) (st : fse_entry) (br : rbr) : res (fse_entry * rbr) :=
  let '(add, br) := rbr_get_bits br (e_bits st) in
  let new_state := e_base st + add in
  if t_len t <=? new_state then RPanic "index out of bounds"
  else ROk (nth_e (t_decode t) new_state, br).
