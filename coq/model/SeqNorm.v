(** The three distributions [compress_block] codes a block's sequences with: the histogram of the literal-length,
    offset and match-length codes ([build_table_from_data]: counts up to the largest code that occurs), normalised
    ([build_table_from_counts], model/FseNorm.v) for the table sizes 9 / 8 / 9. *)
Require Import Zrs.lib.RsPrelude Zrs.gen.Generated Zrs.model.BitIO Zrs.model.FseDec Zrs.model.HufDec Zrs.model.BlockDec.
Require Import Zrs.model.SeqEnc Zrs.model.FseNorm Zrs.model.SeqSection.
Open Scope Z_scope.

Fixpoint count_code (c : Z) (codes : list Z) : Z :=
  match codes with [] => 0 | x :: t => (if x =? c then 1 else 0) + count_code c t end.
Definition max_code (codes : list Z) : Z := fold_right Z.max 0 codes.
Definition code_hist (codes : list Z) : list Z :=
  map (fun k => count_code (Z.of_nat k) codes) (seq 0 (S (Z.to_nat (max_code codes)))).

Definition dist_from (codes : list Z) (max_log : Z) : dist :=
  match norm_counts (code_hist codes) max_log true with ROk d => d | _ => (0, []) end.

Definition norm_model (seqs : list sequence) : dist * dist * dist :=
  match map_res to_cseq seqs with
  | ROk qs => (dist_from (map c_ll qs) LL_MAX_LOG, dist_from (map c_of qs) OF_MAX_LOG, dist_from (map c_ml qs) ML_MAX_LOG)
  | _ => ((0, []), (0, []), (0, []))
  end.
