(** Observation functions over the ring-buffer model for the correspondence run: per operation the tuple
    (cap, head, tail, len, free, contents) and the arguments of every [copy_bytes_overshooting] call. *)
From Coq Require Import String Arith Bool Lia ZArith List.
Import ListNotations.
Require Import Zrs.model.RingBuffer.
Open Scope Z_scope.

Definition zn := Z.of_nat.

(** arguments (src_off, src_len, dst_off, dst_len, copy_at_least) of the calls one unchecked copy makes *)
Definition calls_within (s : rb) (start n : nat) : list (list Z) :=
  let c := cap s in let h := head s in let t := tail s in
  if (h <? t)%nat then
    let after_tail := Nat.min n (c - t) in
    [zn (h + start); zn (t - h - start); zn t; zn (c - t); zn after_tail] ::
    (if (after_tail <? n)%nat
     then [[zn (h + start + after_tail); zn (t - h - start - after_tail); 0; zn h; zn (n - after_tail)]] else [])
  else if (c <? h + start)%nat then
    let start' := ((h + start) mod c)%nat in
    [[zn start'; zn (t - start'); zn t; zn (h - t); zn n]]
  else
    let after_start := Nat.min n (c - h - start) in
    [zn (h + start); zn (c - h - start); zn t; zn (h - t); zn after_start] ::
    (if (after_start <? n)%nat
     then [[0; zn t; zn (t + after_start); zn (h - t - after_start); zn (n - after_start)]] else []).

Definition obs (s : rb) : list Z :=
  [zn (cap s); zn (head s); zn (tail s); zn (len s); zn (free s)] ++ abs s.

Definition reader_bytes (avail : nat) : list Z := map (fun i => (zn i * 7 + 3) mod 256) (seq 0 avail).

(** decode an operation given as integers; returns the op, and for the two copy ops the calls it will make *)
Definition dec_op (k : nat) (s : rb) (o : list Z) : out rb * list (list Z) :=
  let a := Z.to_nat (nth 1 o 0) in let b := Z.to_nat (nth 2 o 0) in
  match nth 0 o 0 with
  | 0 => (extend s (skipn 1 o), [])
  | 1 => (extend_and_fill s (nth 1 o 0) b, [])
  | 2 => (drop_first_n s a, [])
  | 3 => (reserve s a, [])
  | 4 => (Done (clear s), [])
  | 5 => if (len s <? a + b)%nat then (Panic "start + len > self.len()", [])
         else match reserve s b with
              | Done s1 => (extend_from_within_unchecked k s1 a b, calls_within s1 a b)
              | r => (r, [])
              end
  | 6 => (extend_from_within_unchecked k s a b, calls_within s a b)
  | 7 =>
      (* extend_from_reader(n = a) from a reader holding b bytes *)
      let n := a in
      match reserve s n with
      | Done s1 =>
          let fill1 := Nat.min (snd (free_lens s1)) n in
          let d := reader_bytes b in
          let r1 := if (fill1 <=? b)%nat then Some (firstn fill1 d) else None in
          let r2 := if (n <=? b)%nat then Some (skipn fill1 (firstn n d)) else None in
          (bind (extend_from_reader s n r1 r2) (fun p => Done (fst p)), [])
      | r => (r, [])
      end
  | _ => (Panic "bad op", [])
  end.

(** per op: state observation ++ [-7] ++ flattened calls (each 5 numbers); [-1] after a panic, [-2] after a fault *)
Fixpoint trace (k : nat) (s : rb) (ops : list (list Z)) : list (list Z) :=
  match ops with
  | [] => []
  | o :: t =>
      match dec_op k s o with
      | (Done s', calls) => (obs s' ++ [-7] ++ concat calls) :: trace k s' t
      | (Panic _, _) => [[-1]]
      | (Fault _, _) => [[-2]]
      end
  end.

Fixpoint list_eqb (a b : list Z) : bool :=
  match a, b with
  | [], [] => true
  | x :: a', y :: b' => (x =? y) && list_eqb a' b'
  | _, _ => false
  end.
Fixpoint lists_eqb (a b : list (list Z)) : bool :=
  match a, b with
  | [], [] => true
  | x :: a', y :: b' => list_eqb x y && lists_eqb a' b'
  | _, _ => false
  end.

(** indices of the cases whose model trace differs from the implementation's, with the model's trace *)
Fixpoint ring_mismatches (i : Z) (k : nat) (cases : list (list (list Z) * list (list Z))) : list (Z * list (list Z)) :=
  match cases with
  | [] => []
  | (ops, expected) :: t =>
      let r := trace k new_rb ops in
      if lists_eqb r expected then ring_mismatches (i + 1) k t else (i, r) :: ring_mismatches (i + 1) k t
  end.
