(** The FSE-compressed Huffman weights as the compressor writes them ([FSEEncoder::encode_interleaved] in
    fse/fse_encoder.rs, called from [HuffmanEncoder::write_table]): two interleaved FSE states sharing one table.  The
    encoder's state for every position, the transition fields in the order the decoder reads them, and the field list
    the compressor writes (the reverse).  Theorems: proofs/C13_WeightStream.v. *)
Require Import Zrs.lib.RsPrelude Zrs.model.BitIO Zrs.model.BitStream Zrs.model.FseDec Zrs.model.HufDec Zrs.model.BlockDec Zrs.model.SeqEnc Zrs.model.FseEnc.
Open Scope Z_scope.

(** the last two symbols start a chain, every other symbol continues the chain of the symbol two places later *)
Fixpoint sts (E : enc_table) (data : list Z) : list enc_state :=
  match data with
  | [] => []
  | x :: t =>
      let r := sts E t in
      (match r with _ :: s2 :: _ => et_next E x (es_index s2) | _ => et_start E x end) :: r
  end.

(** the transition fields in the order the decoder reads them *)
Fixpoint tfields (s : list enc_state) : list field :=
  match s with
  | s0 :: t => match t with _ :: s2 :: _ => (es_index s2 - es_base s0, es_bits s0) :: tfields t | _ => [] end
  | [] => []
  end.

(** what the compressor writes (the reverse of the reading order): transitions, then the two final state indexes *)
Definition weight_fields (E : enc_table) (data : list Z) : list field :=
  match sts E data with
  | (s0 :: s1 :: _) as S => rev ((es_index s0, et_log E) :: (es_index s1, et_log E) :: tfields S)
  | _ => []
  end.

(** executable round trip used by the correspondence run: given what the real compressor wrote for [data] (table
    description + stream), read the description with the decoder model, write the stream again with the encoder derived
    from that table, and decode the whole with [read_weights] behind a header byte.
    Returns (bytes of the description, stream as the model writes it, weights the decoder model reads back) *)
Definition weights_rewrite (real : list Z) (data : list Z) : res (Z * list Z * list Z) :=
  let* (D, used) := fse_build_decoder (fse_new 255) real 6 in
  let stream := stream_bytes (weight_fields (enc_of_dec D) data) in
  let* (ws, _, _) := read_weights huf_new (zlen real :: real) in
  ROk (used, stream, ws).

(** *** the two forms of the weight description ([HuffmanEncoder::write_table]) *)
(** direct: one header byte 127 + number of weights, then 4-bit fields, two per byte, the first in the high half *)
Fixpoint pack_weights (ws : list Z) : list Z :=
  match ws with
  | [] => []
  | [w] => [w * 16]
  | w1 :: w2 :: t => (w1 * 16 + w2) :: pack_weights t
  end.
Definition direct_desc (ws : list Z) : list Z := (Z.of_nat (length ws) + 127) :: pack_weights ws.

(** FSE-compressed: the histogram of the weights up to the largest one goes to the normaliser *)
Definition zmax_list (l : list Z) : Z := fold_right Z.max 0 l.
Definition occ (s : Z) (l : list Z) : Z := Z.of_nat (count_occ Z.eq_dec l s).
Definition weight_hist (data : list Z) : list Z := map (fun n => occ (Z.of_nat n) data) (seq 0 (S (Z.to_nat (zmax_list data)))).
