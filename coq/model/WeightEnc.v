(** The FSE-compressed Huffman weights as the compressor writes them ([FSEEncoder::encode_interleaved] in
    fse/fse_encoder.rs, called from [HuffmanEncoder::write_table]): two interleaved FSE states sharing one table.  The
    encoder's state for every position, the transition fields in the order the decoder reads them, and the field list
    the compressor writes (the reverse).  Theorems: proofs/C13_WeightStream.v. *)
Require Import Zrs.lib.RsPrelude Zrs.model.BitIO Zrs.model.BitStream Zrs.model.FseDec Zrs.model.HufDec Zrs.model.BlockDec Zrs.model.SeqEnc Zrs.model.FseEnc.
Open Scope Z_scope.

(** the last two symbols start a chain, every other symbol continues the chain of the symbol two places later *)
Fixpoint sts (E : enc_table) (data : list Z) : list enc_state :=
  match data with
  | [] => []
  | x :: t =>
      let r := sts E t in
      (match r with _ :: s2 :: _ => et_next E x (es_index s2) | _ => et_start E x end) :: r
  end.

(** the transition fields in the order the decoder reads them *)
Fixpoint tfields (s : list enc_state) : list field :=
  match s with
  | s0 :: t => match t with _ :: s2 :: _ => (es_index s2 - es_base s0, es_bits s0) :: tfields t | _ => [] end
  | [] => []
  end.

(** what the compressor writes (the reverse of the reading order): transitions, then the two final state indexes *)
Definition weight_fields (E : enc_table) (data : list Z) : list field :=
  match sts E data with
  | (s0 :: s1 :: _) as S => rev ((es_index s0, et_log E) :: (es_index s1, et_log E) :: tfields S)
  | _ => []
  end.

(** executable round trip used by the correspondence run: given what the real compressor wrote for [data] (table
    description + stream), read the description with the decoder model, write the stream again with the encoder derived
    from that table, and decode the whole with [read_weights] behind a header byte.
    Returns (bytes of the description, stream as the model writes it, weights the decoder model reads back) *)
Definition weights_rewrite (real : list Z) (data : list Z) : res (Z * list Z * list Z) :=
  let* (D, used) := fse_build_decoder (fse_new 255) real 6 in
  let stream := stream_bytes (weight_fields (enc_of_dec D) data) in
  let* (ws, _, _) := read_weights huf_new (zlen real :: real) in
  ROk (used, stream, ws).
