(** The concrete machine of [BitReaderReversed] (bit_io/bit_reader_reverse.rs): a 64-bit container refilled from
    the source in whole bytes, an index into the source, the number of consumed container bits, and the count of bits
    read past the beginning of the source.  u8/u64/usize operations that can overflow or index out of range are
    explicit panics.  The abstract reader [rbr] of BitIO.v is what the rest of the decoder model uses; this file is
    tied to the real reader and to [rbr] by execution, and its counters are related to [rbr]'s by theorem. *)
Require Import Zrs.lib.RsPrelude Zrs.model.BitIO.
Open Scope Z_scope.

Record brr := { b_index : Z; b_consumed : Z; b_extra : Z; b_src : list Z; b_cont : Z }.

Definition brr_new (src : list Z) : brr :=
  {| b_index := Z.of_nat (length src); b_consumed := 64; b_extra := 0; b_src := src; b_cont := 0 |}.

Definition brr_bits_remaining (r : brr) : Z := b_index r * 8 + (64 - b_consumed r) - b_extra r.

Definition take8 (l : list Z) : list Z := firstn 8 l.
Definition shl64 (x n : Z) : Z := (x * 2 ^ n) mod 2 ^ 64.

Definition brr_refill (r : brr) : res brr :=
  let bytes_consumed := b_consumed r / 8 in
  if bytes_consumed =? 0 then ROk r
  else if bytes_consumed <=? b_index r then
    let idx := b_index r - bytes_consumed in
    if Z.of_nat (length (b_src r)) <? idx + 8 then RPanic "range end index 8 out of range for slice"
    else ROk {| b_index := idx; b_consumed := b_consumed r mod 8; b_extra := b_extra r; b_src := b_src r;
                b_cont := le_val (take8 (skipn (Z.to_nat idx) (b_src r))) |}
  else if 0 <? b_index r then
    let cont := le_val (take8 (b_src r)) in
    let consumed := b_consumed r - 8 * b_index r in
    if consumed <? 0 then RPanic "attempt to subtract with overflow"
    else if 64 <=? consumed then RPanic "attempt to shift left with overflow"
    else ROk {| b_index := 0; b_consumed := 0; b_extra := b_extra r + consumed; b_src := b_src r;
                b_cont := shl64 cont consumed |}
  else if b_consumed r <? 64 then
    ROk {| b_index := 0; b_consumed := 0; b_extra := b_extra r + b_consumed r; b_src := b_src r;
           b_cont := shl64 (b_cont r) (b_consumed r) |}
  else
    ROk {| b_index := 0; b_consumed := 0; b_extra := b_extra r + b_consumed r; b_src := b_src r; b_cont := 0 |}.

Definition brr_peek (r : brr) (n : Z) : res Z :=
  if n =? 0 then ROk 0
  else if 64 <=? n then RPanic "attempt to shift left with overflow"
  else
    let shift_by := 64 - b_consumed r - n in
    if shift_by <? 0 then RPanic "attempt to subtract with overflow"
    else ROk ((b_cont r / 2 ^ shift_by) mod 2 ^ n).

Definition brr_consume (r : brr) (n : Z) : res brr :=
  if 255 <? b_consumed r + n then RPanic "attempt to add with overflow"
  else ROk {| b_index := b_index r; b_consumed := b_consumed r + n; b_extra := b_extra r; b_src := b_src r; b_cont := b_cont r |}.

Definition brr_get_bits (r : brr) (n : Z) : res (Z * brr) :=
  if 255 <? b_consumed r + n then RPanic "attempt to add with overflow" else
  let* r := (if 64 <? b_consumed r + n then brr_refill r else ROk r) in
  let* v := brr_peek r n in
  let* r := brr_consume r n in
  ROk (v, r).

Definition brr_peek_triple (r : brr) (sum n1 n2 n3 : Z) : res (Z * Z * Z) :=
  if sum =? 0 then ROk (0, 0, 0)
  else
    let sh := 64 - b_consumed r - sum in
    if sh <? 0 then RPanic "attempt to subtract with overflow" else
    let all := b_cont r / 2 ^ sh in
    ROk ((all / 2 ^ (n3 + n2)) mod 2 ^ n1, (all / 2 ^ n3) mod 2 ^ n2, all mod 2 ^ n3).

Definition brr_get_bits_triple (r : brr) (n1 n2 n3 : Z) : res (Z * Z * Z * brr) :=
  let sum := n1 + n2 + n3 in
  if 255 <? sum then RPanic "attempt to add with overflow" else
  if sum <=? 56 then
    let* r := brr_refill r in
    let* t := brr_peek_triple r sum n1 n2 n3 in
    let* r := brr_consume r sum in
    ROk (t, r)
  else
    let* (v1, r) := brr_get_bits r n1 in
    let* (v2, r) := brr_get_bits r n2 in
    let* (v3, r) := brr_get_bits r n3 in
    ROk (v1, v2, v3, r).

(** a script of reads: [inl n] = get_bits n, [inr (n1,n2,n3)] = get_bits_triple; returns the values and the counter
    after each read *)
Fixpoint brr_run (r : brr) (ops : list (Z + Z * Z * Z)) : res (list (list Z * Z)) :=
  match ops with
  | [] => ROk []
  | inl n :: t => let* (v, r) := brr_get_bits r n in let* rest := brr_run r t in ROk (([v], brr_bits_remaining r) :: rest)
  | inr (n1, n2, n3) :: t =>
      let* (v, r) := brr_get_bits_triple r n1 n2 n3 in
      let '(v1, v2, v3) := v in
      let* rest := brr_run r t in ROk (([v1; v2; v3], brr_bits_remaining r) :: rest)
  end.

Fixpoint rbr_run (r : rbr) (ops : list (Z + Z * Z * Z)) : list (list Z * Z) :=
  match ops with
  | [] => []
  | inl n :: t => let '(v, r) := rbr_get_bits r n in ([v], rbr_bits_remaining r) :: rbr_run r t
  | inr (n1, n2, n3) :: t =>
      let '(v1, v2, v3, r) := rbr_get_bits_triple r n1 n2 n3 in ([v1; v2; v3], rbr_bits_remaining r) :: rbr_run r t
  end.
