(** Bit-level readers of ruzstd (bit_io/bit_reader.rs, bit_io/bit_reader_reverse.rs), abstract semantics:
    streams are lists of bits.  The concrete 64-bit container machine of [BitReaderReversed] is modelled
    separately (model/BitRev64.v) and proved to refine [rbr] below. *)
Require Import Zrs.lib.RsPrelude.
Open Scope Z_scope.

Definition bit := bool.
Definition b2z (b : bit) : Z := if b then 1 else 0.

(** bits of one byte, least significant first *)
Fixpoint byte_bits_lsb (n : nat) (x : Z) : list bit :=
  match n with O => [] | S n' => Z.odd x :: byte_bits_lsb n' (x / 2) end.
Definition bits_of_bytes_lsb (l : list Z) : list bit := flat_map (byte_bits_lsb 8) l.

Fixpoint bits_val_lsb (l : list bit) : Z :=
  match l with [] => 0 | b :: t => b2z b + 2 * bits_val_lsb t end.
(** first bit read is the most significant *)
Fixpoint bits_val_msb_acc (acc : Z) (l : list bit) : Z :=
  match l with [] => acc | b :: t => bits_val_msb_acc (2 * acc + b2z b) t end.
Definition bits_val_msb (l : list bit) : Z := bits_val_msb_acc 0 l.

(** *** forward reader (BitReader): LSB-first over the bytes; [past] holds the consumed bits, newest first *)
Record fbr := { f_past : list bit; f_rest : list bit }.
Definition fbr_new (src : list Z) : fbr := {| f_past := []; f_rest := bits_of_bytes_lsb src |}.
Definition fbr_bits_read (r : fbr) : Z := Z.of_nat (length (f_past r)).
Definition fbr_bits_left (r : fbr) : Z := Z.of_nat (length (f_rest r)).

Definition fbr_get_bits (r : fbr) (n : Z) : res (Z * fbr) :=
  if 64 <? n then RErr "TooManyBits"
  else if fbr_bits_left r <? n then RErr "NotEnoughRemainingBits"
  else
    let k := Z.to_nat n in
    let taken := firstn k (f_rest r) in
    ROk (bits_val_lsb taken, {| f_past := rev_append taken (f_past r); f_rest := skipn k (f_rest r) |}).

Definition fbr_return_bits (r : fbr) (n : Z) : res fbr :=
  if fbr_bits_read r <? n then RPanic "Cant return this many bits"
  else
    let k := Z.to_nat n in
    ROk {| f_past := skipn k (f_past r); f_rest := rev_append (firstn k (f_past r)) (f_rest r) |}.

(** *** reversed reader (BitReaderReversed): starts at the most significant bit of the last byte; after the
    beginning of the source it yields zero bits and counts them ([bits_remaining] goes negative) *)
Definition byte_bits_msb (x : Z) : list bit := rev (byte_bits_lsb 8 x).
Definition bits_of_bytes_rev (l : list Z) : list bit := flat_map byte_bits_msb (rev' l).

Record rbr := { r_rest : list bit; r_left : Z (* = length r_rest *); r_extra : Z }.
Definition rbr_new (src : list Z) : rbr :=
  {| r_rest := bits_of_bytes_rev src; r_left := 8 * Z.of_nat (length src); r_extra := 0 |}.
Definition rbr_bits_remaining (r : rbr) : Z := r_left r - r_extra r.

Definition rbr_get_bits (r : rbr) (n : Z) : Z * rbr :=
  if n <=? 0 then (0, r)
  else if n <=? r_left r then
    let k := Z.to_nat n in
    (bits_val_msb (firstn k (r_rest r)), {| r_rest := skipn k (r_rest r); r_left := r_left r - n; r_extra := r_extra r |})
  else
    (* the available bits are the high part of the value, zeros fill the low part *)
    let missing := n - r_left r in
    (bits_val_msb (r_rest r) * 2 ^ missing, {| r_rest := []; r_left := 0; r_extra := r_extra r + missing |}).

Definition rbr_get_bits_triple (r : rbr) (n1 n2 n3 : Z) : Z * Z * Z * rbr :=
  let '(v1, r1) := rbr_get_bits r n1 in
  let '(v2, r2) := rbr_get_bits r1 n2 in
  let '(v3, r3) := rbr_get_bits r2 n3 in
  (v1, v2, v3, r3).

(** the "skip the zero padding and the first 1 bit" loop shared by all reversed streams:
    returns None when more than 8 bits were skipped *)
Fixpoint skip_padding (fuel : nat) (r : rbr) (skipped : Z) : option rbr :=
  match fuel with
  | O => None
  | S f =>
      let '(v, r') := rbr_get_bits r 1 in
      let skipped := skipped + 1 in
      if (v =? 1) || (8 <? skipped) then (if 8 <? skipped then None else Some r')
      else skip_padding f r' skipped
  end.
Definition rbr_skip_padding (r : rbr) : option rbr := skip_padding 10 r 0.

(** highest_bit_set(x) = 32 - leading_zeros(x), for x > 0 *)
Definition highest_bit_set (x : Z) : Z := Z.log2 x + 1.
