(** Model of the size-relevant logic of the raw-content dictionary builder (dictionary/mod.rs, cover.rs):
    the small-source path, the sizing arithmetic (segment size, number of segments, sample size, epoch info) with
    every division and assertion explicit, and the final selection of segments.  Sampling and scoring are
    abstracted: the pool of candidate segments is an arbitrary list (scores ascending, as the min-heap hands them
    out). *)
Require Import Zrs.lib.RsPrelude.
Open Scope Z_scope.

Definition K : Z := 16.

(** [Err] = a panic (division by zero, failed assertion) *)
Definition checked_div (a b : Z) : res Z := if b =? 0 then RPanic "attempt to divide by zero" else ROk (a / b).

Definition compute_epoch_info (segment_size max_dict_size num_kmers : Z) : res (Z * Z) :=
  let min_epoch_size := 10000 in
  let* q := checked_div max_dict_size segment_size in
  let num_epochs := Z.max 1 q in
  let* epoch_size := checked_div num_kmers num_epochs in
  if min_epoch_size <=? epoch_size then
    if epoch_size * num_epochs <=? num_kmers then ROk (num_epochs, epoch_size)
    else RPanic "assertion failed: epoch_size * num_epochs <= num_kmers"
  else
    let epoch_size := Z.min min_epoch_size num_kmers in
    let* num_epochs := checked_div num_kmers epoch_size in
    ROk (num_epochs, epoch_size).

(** the arithmetic at the head of [create_raw_dict_from_source] for [source_size >= 16]:
    returns (segment_size, sample_size, epoch_size) *)
Definition sizing (source_size dict_size : Z) : res (Z * Z * Z) :=
  let segment_size := Z.min 2048 source_size in
  let* num_segments := checked_div source_size segment_size in
  let* per := checked_div source_size (2 * num_segments) in
  let* s := checked_div source_size (Z.min per 256) in
  let sample_size := Z.max 16 s in
  if sample_size <? 16 then RPanic "Reservoirs cannot be below 16 bytes in size" else
  let* (_, epoch_size) := compute_epoch_info segment_size dict_size (source_size / K) in
  let* _ := checked_div source_size epoch_size in
  ROk (segment_size, sample_size, epoch_size).

(** the pool is written lowest score first; segments are dropped from that end while the total exceeds the
    requested size *)
Fixpoint total (pool : list (list Z)) : Z := match pool with [] => 0 | s :: t => Z.of_nat (length s) + total t end.
Fixpoint prune (pool : list (list Z)) (tot dict_size : Z) : list (list Z) :=
  if dict_size <? tot then
    match pool with
    | [] => []
    | s :: t => prune t (tot - Z.of_nat (length s)) dict_size
    end
  else pool.

Definition build_dict (source : list Z) (source_size dict_size : Z) (pool : list (list Z)) : res (list Z) :=
  if source_size <? 16 then ROk (firstn (Z.to_nat dict_size) source)
  else
    let* _ := sizing source_size dict_size in
    ROk (concat (prune pool (total pool) dict_size)).
