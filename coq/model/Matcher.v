(** Model of the built-in match finder (encoding/match_generator.rs): SuffixStore, WindowEntry, MatchGenerator
    (next_sequence, add_suffixes_till, skip_matching, add_data, reserve, reset) and the pooling of
    MatchGeneratorDriver (commit_space / reset).  Indices are [nat], bytes and hashes [Z].  Every slice expression
    of the Rust code that can panic is an explicit [RPanic] here.  The window is kept newest entry first (the head is
    Rust's [window.last()]). *)
Require Import Zrs.lib.RsPrelude.
Open Scope Z_scope.

(** *** SuffixStore: [slots] as a function from key to the stored index (the +1/-1 NonZero encoding is invisible) *)
Record sstore := { ss_get : Z -> option nat; ss_log : Z; ss_cap : Z }.

Definition POLY : Z := 0xCF3BCCDCAB.
Definition wmul64 (a b : Z) : Z := (a * b) mod 2 ^ 64.
Definition hkey (log cap : Z) (suffix : list Z) : Z :=
  let b i := nth i suffix 0 in
  let s0 := wmul64 (b 0%nat * 2 ^ 24) POLY in
  let s1 := wmul64 (b 1%nat * 2 ^ 32) POLY in
  let s2 := wmul64 (b 2%nat * 2 ^ 40) POLY in
  let s3 := wmul64 (b 3%nat * 2 ^ 48) POLY in
  let s4 := wmul64 (b 4%nat * 2 ^ 56) POLY in
  let index := Z.lxor (Z.lxor (Z.lxor (Z.lxor s0 s1) s2) s3) s4 in
  (Z.shiftr index (64 - log)) mod cap.

Definition ss_new (cap : Z) : sstore := {| ss_get := fun _ => None; ss_log := Z.log2 cap; ss_cap := cap |}.
Definition ss_key (s : sstore) (suffix : list Z) : Z := hkey (ss_log s) (ss_cap s) suffix.
Definition ss_lookup (s : sstore) (suffix : list Z) : option nat := ss_get s (ss_key s suffix).
(** [if !contains_key(key) { insert(key, idx) }] *)
Definition ss_insert_if_absent (s : sstore) (suffix : list Z) (idx : nat) : sstore :=
  let k := ss_key s suffix in
  match ss_get s k with
  | Some _ => s
  | None => {| ss_get := fun k' => if k' =? k then Some idx else ss_get s k'; ss_log := ss_log s; ss_cap := ss_cap s |}
  end.

Record wentry := { we_data : list Z; we_suf : sstore; we_base : nat }.

Record mg := {
  mg_max : nat;               (* max_window_size *)
  mg_win : list wentry;       (* newest first *)
  mg_wsize : nat;             (* window_size *)
  mg_sidx : nat;              (* suffix_idx *)
  mg_last : nat;              (* last_idx_in_sequence *)
}.
Definition mg_new (max : nat) : mg := {| mg_max := max; mg_win := []; mg_wsize := 0; mg_sidx := 0; mg_last := 0 |}.

Inductive mseq := MLit (lits : list Z) | MTriple (lits : list Z) (off len : nat).

Fixpoint common_prefix (a b : list Z) : nat :=
  match a, b with
  | x :: a', y :: b' => if x =? y then S (common_prefix a' b') else O
  | _, _ => O
  end.

Definition MIN_MATCH : nat := 5.

(** one window entry of the candidate loop *)
Definition entry_cand (is_last : bool) (e : wentry) (sidx : nat) (cur : list Z) : res (option (nat * nat)) :=
  match ss_lookup (we_suf e) (firstn MIN_MATCH cur) with
  | None => ROk None
  | Some mi =>
      if is_last && (sidx <? mi)%nat then RPanic "slice index starts after its end"
      else if (length (we_data e) <? mi)%nat then RPanic "range start index out of range for slice"
      else
        let mslice := if is_last then firstn (sidx - mi) (skipn mi (we_data e)) else skipn mi (we_data e) in
        let ml := common_prefix mslice cur in
        if (MIN_MATCH <=? ml)%nat then ROk (Some ((we_base e + sidx - mi)%nat, ml)) else ROk None
  end.

Definition cand_better (c : option (nat * nat)) (off ml : nat) : option (nat * nat) :=
  match c with
  | None => Some (off, ml)
  | Some (o, m) => if (m <? ml)%nat || ((ml =? m)%nat && (off <? o)%nat) then Some (off, ml) else Some (o, m)
  end.

Fixpoint find_cand (es : list (bool * wentry)) (sidx : nat) (cur : list Z) (c : option (nat * nat))
  : res (option (nat * nat)) :=
  match es with
  | [] => ROk c
  | (is_last, e) :: t =>
      match entry_cand is_last e sidx cur with
      | ROk None => find_cand t sidx cur c
      | ROk (Some (o, m)) => find_cand t sidx cur (cand_better c o m)
      | RErr x => RErr x
      | RPanic x => RPanic x
      end
  end.

(** the entries in Rust's iteration order (oldest first), the newest tagged as the last one *)
Definition tagged (win : list wentry) : list (bool * wentry) :=
  match win with
  | [] => []
  | e0 :: older => rev (map (pair false) older) ++ [(true, e0)]
  end.

(** register the 5-byte windows of [slice] (which starts at index [pos] of the entry's data) *)
Fixpoint add_suf (cnt : nat) (slice : list Z) (pos : nat) (s : sstore) : sstore :=
  match cnt with
  | O => s
  | S c =>
      match slice with
      | [] => s
      | _ :: t => add_suf c t (S pos) (ss_insert_if_absent s (firstn MIN_MATCH slice) pos)
      end
  end.

Definition add_suffixes_till (e : wentry) (sidx idx : nat) : res wentry :=
  let d := we_data e in
  if (length d <? MIN_MATCH)%nat then ROk e
  else if (idx <? sidx)%nat || (length d <? idx)%nat then RPanic "slice index out of range"
  else
    let slice := firstn (idx - sidx) (skipn sidx d) in
    ROk {| we_data := d; we_suf := add_suf (length slice - (MIN_MATCH - 1)) slice sidx (we_suf e); we_base := we_base e |}.

Definition set_cur (st : mg) (e0 : wentry) (older : list wentry) (sidx last : nat) : mg :=
  {| mg_max := mg_max st; mg_win := e0 :: older; mg_wsize := mg_wsize st; mg_sidx := sidx; mg_last := last |}.

(** [next_sequence]: the outer [loop] runs once per position without a match; [fuel] bounds it *)
Fixpoint next_seq (fuel : nat) (st : mg) : res (option mseq * mg) :=
  match fuel with
  | O => RPanic "fuel"
  | S f =>
      match mg_win st with
      | [] => RPanic "called `Option::unwrap()` on a `None` value"
      | e0 :: older =>
          let d := we_data e0 in
          let len := length d in
          let sidx := mg_sidx st in
          let last := mg_last st in
          if (len <=? sidx)%nat then
            if negb (last =? sidx)%nat then
              if (len <? last)%nat then RPanic "range start index out of range for slice"
              else ROk (Some (MLit (skipn last d)), set_cur st e0 older sidx sidx)
            else ROk (None, st)
          else
            let cur := skipn sidx d in
            if (length cur <? MIN_MATCH)%nat then
              if (len <? last)%nat then RPanic "range start index out of range for slice"
              else ROk (Some (MLit (skipn last d)), set_cur st e0 older len len)
            else
              match find_cand (tagged (mg_win st)) sidx cur None with
              | RErr x => RErr x
              | RPanic x => RPanic x
              | ROk (Some (off, ml)) =>
                  let* e0' := add_suffixes_till e0 sidx (sidx + ml) in
                  if (sidx <? last)%nat then RPanic "slice index starts after its end"
                  else ROk (Some (MTriple (firstn (sidx - last) (skipn last d)) off ml),
                            set_cur st e0' older (sidx + ml) (sidx + ml))
              | ROk None =>
                  let e0' := {| we_data := d; we_suf := ss_insert_if_absent (we_suf e0) (firstn MIN_MATCH cur) sidx;
                                we_base := we_base e0 |} in
                  next_seq f (set_cur st e0' older (S sidx) last)
              end
      end
  end.

(** [start_matching]: [while next_sequence(..) {}] *)
Fixpoint start_loop (fuel : nat) (st : mg) (acc : list mseq) : res (list mseq * mg) :=
  match fuel with
  | O => RPanic "fuel"
  | S f =>
      let len := match mg_win st with e0 :: _ => length (we_data e0) | [] => O end in
      let* (r, st') := next_seq (S (len - mg_sidx st)) st in
      match r with
      | None => ROk (rev' acc, st')
      | Some sq => start_loop f st' (sq :: acc)
      end
  end.
Definition start_matching (st : mg) : res (list mseq * mg) :=
  let len := match mg_win st with e0 :: _ => length (we_data e0) | [] => O end in
  start_loop (S (S len)) st [].

Definition skip_matching (st : mg) : res mg :=
  match mg_win st with
  | [] => RPanic "called `Option::unwrap()` on a `None` value"
  | e0 :: older =>
      let len := length (we_data e0) in
      let* e0' := add_suffixes_till e0 (mg_sidx st) len in
      ROk (set_cur st e0' older len len)
  end.

(** [reserve]: evict the oldest entries ([window.remove(0)]); works on the window oldest first and returns the kept
    entries (oldest first), the new window size and the evicted entries (oldest first) *)
Fixpoint evict (oldest_first : list wentry) (wsize amount max : nat) (evicted : list wentry)
  : res (list wentry * nat * list wentry) :=
  if (max <? wsize + amount)%nat then
    match oldest_first with
    | [] => RPanic "removal index (is 0) should be < len (is 0)"
    | oldest :: t =>
        if (wsize <? length (we_data oldest))%nat then RPanic "attempt to subtract with overflow"
        else evict t (wsize - length (we_data oldest)) amount max (evicted ++ [oldest])
    end
  else ROk (oldest_first, wsize, evicted).

Definition add_base (n : nat) (e : wentry) : wentry :=
  {| we_data := we_data e; we_suf := we_suf e; we_base := (we_base e + n)%nat |}.

Definition add_data (st : mg) (data : list Z) (suf : sstore) : res (mg * list wentry) :=
  let ready := match mg_win st with [] => true | e0 :: _ => (mg_sidx st =? length (we_data e0))%nat end in
  if negb ready then RPanic "assertion failed: self.window.is_empty() || self.suffix_idx == last.data.len()"
  else if (mg_max st <? length data)%nat then RPanic "assertion failed: self.max_window_size >= amount"
  else
    let* (kept, wsize, evicted) := evict (rev (mg_win st)) (mg_wsize st) (length data) (mg_max st) [] in
    let win := rev kept in
    let win := match win with [] => [] | e0 :: _ => map (add_base (length (we_data e0))) win end in
    ROk ({| mg_max := mg_max st; mg_win := {| we_data := data; we_suf := suf; we_base := 0 |} :: win;
            mg_wsize := (wsize + length data)%nat; mg_sidx := 0; mg_last := 0 |}, evicted).

Definition mg_reset (st : mg) : mg * list wentry :=
  ({| mg_max := mg_max st; mg_win := []; mg_wsize := 0; mg_sidx := 0; mg_last := 0 |}, rev (mg_win st)).

(** *** MatchGeneratorDriver: pooling of suffix stores (a pooled store is empty; only its size matters) *)
Record mgd := { md_gen : mg; md_pool : list Z (* capacities of pooled stores *) }.
Definition mgd_new (slice_size max_slices : nat) : mgd := {| md_gen := mg_new (max_slices * slice_size); md_pool := [] |}.

Fixpoint pool_take (pool : list Z) (want_log : Z) : option (Z * list Z) :=
  match pool with
  | [] => None
  | c :: t => if want_log <=? Z.log2 c then Some (c, t)
              else match pool_take t want_log with Some (x, t') => Some (x, c :: t') | None => None end
  end.

Definition commit_space (d : mgd) (space : list Z) : res mgd :=
  let requested := Z.max 1024 (npot (Z.of_nat (length space))) in
  let '(cap, pool) := match pool_take (md_pool d) (Z.log2 requested) with
                      | Some (c, p) => (c, p)
                      | None => (requested, md_pool d)
                      end in
  let* (g, evicted) := add_data (md_gen d) space (ss_new cap) in
  ROk {| md_gen := g; md_pool := pool ++ map (fun e => ss_cap (we_suf e)) evicted |}.

Definition mgd_reset (d : mgd) : mgd :=
  let '(g, freed) := mg_reset (md_gen d) in
  {| md_gen := g; md_pool := md_pool d ++ map (fun e => ss_cap (we_suf e)) freed |}.

Definition mgd_start (d : mgd) : res (list mseq * mgd) :=
  let* (sq, g) := start_matching (md_gen d) in ROk (sq, {| md_gen := g; md_pool := md_pool d |}).
Definition mgd_skip (d : mgd) : res mgd :=
  let* g := skip_matching (md_gen d) in ROk {| md_gen := g; md_pool := md_pool d |}.
Definition mgd_window_size (d : mgd) : Z := Z.of_nat (mg_max (md_gen d)).
