(** Model of the code-shape part of ruzstd/src/huff0/huff0_encoder.rs: the weights the compressor assigns depend only
    on the NUMBER of distinct symbols ([distribute_weights], [redistribute_weights]) and on their rank by count; the
    canonical code is then built from the weights ([build_from_weights]). *)
Require Import Zrs.lib.RsPrelude.
Open Scope Z_scope.

Fixpoint repeat_zz (v : Z) (n : nat) : list Z := match n with O => [] | S k => v :: repeat_zz v k end.

(** [distribute_weights amount]; loop on fuel (at most [amount] rounds) *)
Fixpoint distribute_loop (fuel : nat) (amount : Z) (ws : list Z) (target counter : Z) : list Z :=
  match fuel with
  | O => ws
  | S f =>
      if Z.of_nat (length ws) <? amount then
        let add_new := 2 ^ (counter - target) in
        let space := amount - Z.of_nat (length ws) in
        let '(target, add_new) := if space <? add_new then (counter, 1) else (target, add_new) in
        distribute_loop f amount (ws ++ repeat_zz target (Z.to_nat add_new)) target (counter + 1)
      else ws
  end.
Definition distribute_weights (amount : Z) : res (list Z) :=
  if (amount <? 2) || (256 <? amount) then RPanic "assert amount in 2..=256"
  else ROk (distribute_loop (Z.to_nat amount) amount [1; 1] 1 2).

Definition sum_pow (ws : list Z) : Z := fold_right (fun w acc => 2 ^ w + acc) 0 ws.

(** raise the low weights to [d]; returns (weights, added) *)
Fixpoint raise_low (ws : list Z) (d : Z) : list Z * Z :=
  match ws with
  | [] => ([], 0)
  | w :: t =>
      let '(t', a) := raise_low t d in
      if w <? d then (d :: t', a + (2 ^ d - 2 ^ w)) else (w :: t', a)
  end.

(** one round of the "reduce until equalled out" loop: index of the highest weight w (first occurrence) among the
    prefix before the first weight with 2^(w-1) > added *)
Fixpoint pick (ws : list Z) (idx : nat) (added : Z) (cur_w : Z) (cur_i : nat) : Z * nat :=
  match ws with
  | [] => (cur_w, cur_i)
  | w :: t => if added <? 2 ^ (w - 1) then (cur_w, cur_i)
              else if cur_w <? w then pick t (S idx) added w idx else pick t (S idx) added cur_w cur_i
  end.
Fixpoint upd_n (l : list Z) (i : nat) (v : Z) : list Z :=
  match l, i with
  | [], _ => []
  | _ :: t, O => v :: t
  | h :: t, S i' => h :: upd_n t i' v
  end.
Fixpoint reduce_loop (fuel : nat) (ws : list Z) (added : Z) : res (list Z) :=
  match fuel with
  | O => RPanic "fuel"
  | S f =>
      if 0 <? added then
        let '(w, i) := pick ws 0 added 0 0%nat in
        if w <=? 0 then RPanic "shift underflow" else
        reduce_loop f (upd_n ws i (nth i ws 0 - 1)) (added - 2 ^ (w - 1))
      else ROk ws
  end.

Definition redistribute_weights (ws : list Z) (max_num_bits : Z) : res (list Z) :=
  let sum_log := Z.log2 (sum_pow ws) in
  if sum_log <? max_num_bits then ROk ws
  else
    let d := sum_log - max_num_bits + 1 in
    let '(ws1, added) := raise_low ws d in
    let* ws2 := reduce_loop (Z.to_nat 4096) ws1 added in   (* at most sum-of-weights rounds *)
    match ws2 with
    | w0 :: _ => if 1 <? w0 then ROk (map (fun w => w - (w0 - 1)) ws2) else ROk ws2
    | [] => RPanic "index out of bounds"
    end.

(** the weight multiset for [n] distinct symbols, smallest first (as produced before the assignment by rank) *)
Definition shape (n : Z) : res (list Z) :=
  let* ws := distribute_weights n in
  redistribute_weights ws (Z.log2 n + 2).

(** *** canonical codes from weights ([build_from_weights]); result: per symbol (code, num_bits) *)
Definition kraft (ws : list Z) : Z := fold_right (fun w acc => (if 0 <? w then 2 ^ (w - 1) else 0) + acc) 0 ws.
Definition is_pow2z (x : Z) : bool := (0 <? x) && (2 ^ Z.log2 x =? x).

(** insertion into the list sorted by (weight, symbol) *)
Fixpoint insert_sorted (e : Z * Z) (l : list (Z * Z)) : list (Z * Z) :=
  match l with
  | [] => [e]
  | h :: t => if (snd e <? snd h) || ((snd e =? snd h) && (fst e <? fst h)) then e :: l else h :: insert_sorted e t
  end.
Fixpoint sorted_entries (ws : list Z) (sym : Z) : list (Z * Z) :=
  match ws with
  | [] => []
  | w :: t => let r := sorted_entries t (sym + 1) in if 0 <? w then insert_sorted (sym, w) r else r
  end.

Fixpoint assign_enc (es : list (Z * Z)) (max_bits cur_code cur_weight cur_bits : Z) (codes : list (Z * Z)) : list (Z * Z) :=
  match es with
  | [] => codes
  | (sym, w) :: t =>
      let '(cur_code, cur_bits, cur_weight) :=
        if negb (cur_weight =? w) then (cur_code / 2 ^ (w - cur_weight), max_bits - w + 1, w)
        else (cur_code, cur_bits, cur_weight) in
      assign_enc t max_bits (cur_code + 1) cur_weight cur_bits
                 (firstn (Z.to_nat sym) codes ++ [(cur_code, cur_bits)] ++ skipn (S (Z.to_nat sym)) codes)
  end.

Definition enc_build_from_weights (ws : list Z) : res (list (Z * Z)) :=
  let k := kraft ws in
  if negb (is_pow2z k) then RPanic "This is an internal error"
  else
    let max_bits := Z.log2 k in
    ROk (assign_enc (sorted_entries ws 0) max_bits 0 0 0 (map (fun _ => (0, 0)) ws)).

(** the weights the table writer derives back from the code lengths ([HuffmanEncoder::weights]) *)
Definition enc_weights (codes : list (Z * Z)) : list Z :=
  let mx := fold_right (fun c acc => Z.max (snd c) acc) 0 codes in
  map (fun c => if snd c =? 0 then 0 else mx - snd c + 1) codes.
