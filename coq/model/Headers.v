(** Hand models of the header readers that involve I/O and loops (tied to the code by correspondence);
    all arithmetic is delegated to the *generated* definitions, so Tie 1 covers it. *)
Require Import Zrs.lib.RsPrelude Zrs.gen.Generated.
Open Scope Z_scope.

(** [BlockDecoder::read_block_header] (block_decoder.rs): 3 bytes -> (last, type, decompressed_size, content_size) *)
Definition read_block_header (b0 b1 b2 : Z) : res (bool * Z * Z * Z) :=
  let* ty := block_type b0 in
  if ty =? 3 then RErr "FoundReservedBlock"
  else
    let* size := block_content_size b0 b1 b2 in
    let decompressed := if (ty =? 0) || (ty =? 1) then size else 0 in
    let content := if ty =? 1 then 1 else size in
    ROk (is_last b0, ty, decompressed, content).

(** [read_frame_header] (frame.rs) over a byte list; [read_exact] failing = not enough bytes *)
Record frame_header := { fh_desc : Z; fh_wd : Z; fh_dict_id : option Z; fh_fcs : Z }.

Inductive fh_result :=
| FhOk (h : frame_header) (bytes_read : Z)
| FhSkip (magic len : Z)
| FhErr (e : string)
| FhPanic (e : string).

Definition take (n : nat) (src : list Z) : option (list Z * list Z) :=
  if Nat.ltb (length src) n then None else Some (firstn n src, skipn n src).

Definition read_frame_header (src : list Z) : fh_result :=
  match take 4 src with
  | None => FhErr "MagicNumberReadError"
  | Some (m, r1) =>
      let magic := le_val m in
      if (407710288 <=? magic) && (magic <=? 407710303) then     (* 0x184D2A50 ..= 0x184D2A5F *)
        match take 4 r1 with
        | None => FhErr "FrameDescriptorReadError"
        | Some (l, _) => FhSkip magic (le_val l)
        end
      else if negb (magic =? MAGIC_NUM) then FhErr "BadMagicNumber"
      else
        match take 1 r1 with
        | None => FhErr "FrameDescriptorReadError"
        | Some (dl, r2) =>
            let d := znth dl 0 in
            let wd_step := if single_segment_flag d then Some (0, r2, 0)
                           else match take 1 r2 with
                                | None => None
                                | Some (w, r3) => Some (znth w 0, r3, 1)
                                end in
            match wd_step with
            | None => FhErr "WindowDescriptorReadError"
            | Some (wd, r3, n_wd) =>
                match dictionary_id_bytes d with
                | RErr e => FhErr e
                | RPanic e => FhPanic e
                | ROk did_len =>
                    match take (Z.to_nat did_len) r3 with
                    | None => FhErr "DictionaryIdReadError"
                    | Some (db, r4) =>
                        let did := le_val db in
                        let dict_id := if (did_len =? 0) || (did =? 0) then None else Some did in
                        match frame_content_size_bytes d with
                        | RErr e => FhErr e
                        | RPanic e => FhPanic e
                        | ROk fcs_len =>
                            match take (Z.to_nat fcs_len) r4 with
                            | None => FhErr "FrameContentSizeReadError"
                            | Some (fb, _) =>
                                let fcs := le_val fb in
                                let fcs := if fcs_len =? 2 then fcs + 256 else fcs in
                                FhOk {| fh_desc := d; fh_wd := wd; fh_dict_id := dict_id; fh_fcs := fcs |}
                                     (4 + 1 + n_wd + did_len + fcs_len)
                            end
                        end
                    end
                end
            end
        end
  end.

Definition fh_window_size (h : frame_header) : res Z := window_size (fh_wd h) (fh_desc h) (fh_fcs h).

(** [LiteralsSection::parse_from_header] (blocks/literals_section.rs).  The first two [BitReader::get_bits(2)]
    calls read bits 0-1 and 2-3 of byte 0 and fail on an empty slice; the per-format field assembly follows the
    source line by line. Result: (bytes used, type, regenerated_size, compressed_size, num_streams) *)
Definition lit_header_parse (raw : list Z) : res (Z * Z * Z * option Z * option Z) :=
  match raw with
  | [] => RErr "GetBitsError"
  | r0 :: _ =>
      let* ls_type := literals_section_type (r0 mod 4) in
      let size_format := (r0 / 4) mod 4 in
      let* need := header_bytes_needed r0 in
      if Z.of_nat (length raw) <? need then RErr "NotEnoughBytes"
      else
        let r1 := znth raw 1 in let r2 := znth raw 2 in let r3 := znth raw 3 in let r4 := znth raw 4 in
        if (ls_type =? 1) || (ls_type =? 0) then
          if (size_format =? 0) || (size_format =? 2) then ROk (1, ls_type, r0 / 8, None, None)
          else if size_format =? 1 then ROk (2, ls_type, r0 / 16 + r1 * 16, None, None)
          else ROk (3, ls_type, r0 / 16 + r1 * 16 + r2 * 4096, None, None)
        else
          let streams := if size_format =? 0 then 1 else 4 in
          if (size_format =? 0) || (size_format =? 1) then
            ROk (3, ls_type, r0 / 16 + (r1 mod 64) * 16, Some (r1 / 64 + r2 * 4), Some streams)
          else if size_format =? 2 then
            ROk (4, ls_type, r0 / 16 + r1 * 16 + (r2 mod 4) * 4096, Some (r2 / 4 + r3 * 64), Some streams)
          else
            ROk (5, ls_type, r0 / 16 + r1 * 16 + (r2 mod 64) * 4096, Some (r2 / 64 + r3 * 4 + r4 * 1024), Some streams)
  end.
