(** The Huffman-coded literals section as the compressor writes it (encoding/blocks/compressed.rs [compress_literals],
    huff0/huff0_encoder.rs [encode4x]): header (type 2 = with table description, 3 = treeless; size format 2 or 3;
    regenerated and compressed size), the table description (taken as given bytes), a 6-byte jump table and four
    backward bit streams over the four quarters of the literals.  Plus the encoder's code derived from a decoding
    table, and decidable side conditions for the round-trip theorem (proofs/C13_LitSection.v). *)
Require Import Zrs.lib.RsPrelude Zrs.gen.Generated Zrs.model.Headers Zrs.model.BitIO Zrs.model.FseDec Zrs.model.HufDec Zrs.model.BlockDec.
Require Import Zrs.model.BitStream.
Open Scope Z_scope.

Definition hcode := (Z * nat)%type.       (* value, number of bits *)

(** the compressor's table: (code, number of bits) per symbol *)
Definition code_fn (codes : list (Z * Z)) (s : Z) : hcode := (fst (nth (Z.to_nat s) codes (0, 0)), Z.to_nat (snd (nth (Z.to_nat s) codes (0, 0)))).

Definition quarter (n : nat) : nat := ((n + 3) / 4)%nat.
Definition split4 (lits : list Z) : list Z * list Z * list Z * list Z :=
  let s := quarter (length lits) in
  (firstn s lits, firstn s (skipn s lits), firstn s (skipn (2 * s) lits), skipn (3 * s) lits).

Definition hstream (code : Z -> hcode) (data : list Z) : list Z := stream_bytes (map code (rev data)).
Definition le16 (n : Z) : list Z := [n mod 256; n / 256].

Definition huf4_bytes (code : Z -> hcode) (lits : list Z) : list Z :=
  let '(a, b, c, d) := split4 lits in
  let s1 := hstream code a in let s2 := hstream code b in let s3 := hstream code c in let s4 := hstream code d in
  le16 (zlen s1) ++ le16 (zlen s2) ++ le16 (zlen s3) ++ s1 ++ s2 ++ s3 ++ s4.

(** header of a compressed-literals section: 4 bytes (size format 2, 14-bit sizes) below 16384 literals, else 5 bytes
    (size format 3, 18-bit sizes) *)
Definition lit_header_value (ty regen comp : Z) : Z * nat :=
  if regen <? 16384 then (ty + 4 * 2 + 16 * regen + 16 * 16384 * comp, 4%nat)
  else (ty + 4 * 3 + 16 * regen + 16 * 262144 * comp, 5%nat).
Fixpoint le_bytes (n : nat) (v : Z) : list Z := match n with O => [] | S k => v mod 256 :: le_bytes k (v / 256) end.
Definition huf_lit_header (ty regen comp : Z) : list Z :=
  let '(v, n) := lit_header_value ty regen comp in le_bytes n v.

(** the section: [desc] is the table description (empty for a treeless section) *)
Definition huf_lit_section (ty : Z) (desc : list Z) (code : Z -> hcode) (lits : list Z) : list Z :=
  let payload := desc ++ huf4_bytes code lits in
  huf_lit_header ty (zlen lits) (zlen payload) ++ payload.

(** the encoder's code for a symbol, derived from the decoding table: the first index decoding to the symbol gives the
    code word (its leading [bits] bits) *)
Fixpoint find_sym (l : list huf_entry) (i : Z) (s : Z) : option (Z * huf_entry) :=
  match l with
  | [] => None
  | e :: t => if h_sym e =? s then Some (i, e) else find_sym t (i + 1) s
  end.
Definition code_of_dec (t : huf_table) (s : Z) : hcode :=
  match find_sym (ht_decode t) 0 s with
  | Some (i, e) => (i / 2 ^ (ht_max_bits t - h_bits e), Z.to_nat (h_bits e))
  | None => (0, O)
  end.

(** decidable side conditions: the code of [s] is well-formed, and every table index whose leading bits are the code
    word of [s] decodes to [s] with that length *)
Definition code_ok_b (mn : nat) (code : Z -> hcode) (s : Z) : bool :=
  (1 <=? snd (code s))%nat && (snd (code s) <=? mn)%nat && (0 <=? fst (code s)) && (fst (code s) <? 2 ^ Z.of_nat (snd (code s))).
Definition resolves_b (t : huf_table) (mn : nat) (code : Z -> hcode) (s : Z) : bool :=
  let n := snd (code s) in
  let lo := fst (code s) * 2 ^ Z.of_nat (mn - n) in
  forallb (fun k => let e := nth_h (ht_decode t) (lo + Z.of_nat k) in (h_sym e =? s) && (h_bits e =? Z.of_nat n))
          (seq 0 (Z.to_nat (2 ^ Z.of_nat (mn - n)))).
Definition table_side_b (t : huf_table) (mn : nat) : bool :=
  (ht_max_bits t =? Z.of_nat mn) && (1 <=? mn)%nat && (ht_len t =? 2 ^ Z.of_nat mn).
