(** Model of [HuffmanTable::build_from_data] / [build_from_counts] (ruzstd/src/huff0/huff0_encoder.rs): the histogram
    of the literals up to the largest byte, the weight multiset for the number of symbols that occur ([shape]), and
    the assignment of those weights by rank: the indices are stably sorted by count, symbols that do not occur get
    weight 0, the others take the weights of the shape from the smallest on. *)
Require Import Zrs.lib.RsPrelude Zrs.model.HufEnc.
Open Scope Z_scope.

(** insertion behind every entry whose count is not larger: inserting the entries in index order is a stable sort,
    as [sort_by_key] is *)
Fixpoint ins_count (e : nat * Z) (l : list (nat * Z)) : list (nat * Z) :=
  match l with
  | [] => [e]
  | h :: t => if snd h <=? snd e then h :: ins_count e t else e :: l
  end.
Fixpoint enumerate_from (i : nat) (l : list Z) : list (nat * Z) :=
  match l with [] => [] | c :: t => (i, c) :: enumerate_from (S i) t end.
Definition counts_sorted (counts : list Z) : list (nat * Z) :=
  fold_left (fun acc e => ins_count e acc) (enumerate_from 0 counts) [].

(** [stack]: the shape, smallest weight first ([weights.reverse()] followed by [pop()] takes them in this order) *)
Fixpoint assign_rank (sorted : list (nat * Z)) (stack : list Z) (W : list Z) : res (list Z) :=
  match sorted with
  | [] => ROk W
  | (idx, c) :: t =>
      if c =? 0 then assign_rank t stack (upd_n W idx 0)
      else match stack with
           | [] => RPanic "called Option::unwrap() on a None value"
           | w :: st => assign_rank t st (upd_n W idx w)
           end
  end.

Definition weights_from_counts (counts : list Z) : res (list Z) :=
  if 256 <? Z.of_nat (length counts) then RPanic "assert counts.len() <= 256"
  else
    let n := Z.of_nat (length (filter (fun c => negb (c =? 0)) counts)) in
    let* sh := shape n in
    assign_rank (counts_sorted counts) sh (map (fun _ => 0) counts).

Definition build_from_counts (counts : list Z) : res (list (Z * Z)) :=
  let* W := weights_from_counts counts in enc_build_from_weights W.

(** the histogram [counts[..=max]] of [build_from_data] *)
Definition count_z (s : Z) (data : list Z) : Z := Z.of_nat (length (filter (Z.eqb s) data)).
Definition counts_of_data (data : list Z) : list Z :=
  let mx := fold_right Z.max 0 data in
  map (fun s => count_z (Z.of_nat s) data) (seq 0 (S (Z.to_nat mx))).
Definition build_from_data (data : list Z) : res (list (Z * Z)) := build_from_counts (counts_of_data data).

Definition weights_from_data (data : list Z) : res (list Z) := weights_from_counts (counts_of_data data).
