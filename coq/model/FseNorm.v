(** The compressor's histogram normaliser ([build_table_from_counts], fse/fse_encoder.rs): shift so that the smallest
    count becomes 1, scale down if the largest exceeds the number of symbols, choose the accuracy log, then either give
    the surplus to the (last) largest probability or take the excess off the (first) smallest probabilities above 1;
    finally move probability off a symbol that holds more than half of the table ([avoid_0_numbit]). *)
Require Import Zrs.lib.RsPrelude Zrs.model.BitIO Zrs.model.FseDec.
Open Scope Z_scope.

Definition zsum (l : list Z) : Z := fold_right Z.add 0 l.
Definition zmaxl (l : list Z) : Z := fold_right Z.max 0 l.

(** index of the LAST maximum ([Iterator::max] returns the last of equal maxima) *)
Fixpoint last_max_from (l : list Z) (i : nat) (best : nat) (bv : Z) : nat :=
  match l with
  | [] => best
  | x :: t => if bv <=? x then last_max_from t (S i) i x else last_max_from t (S i) best bv
  end.
Definition last_max_idx (l : list Z) : nat :=
  match l with [] => O | x :: t => last_max_from t 1 O x end.

(** index of the FIRST minimum among the elements above 1 ([Iterator::min] returns the first of equal minima) *)
Fixpoint first_min_gt1_from (l : list Z) (i : nat) (best : option (nat * Z)) : option (nat * Z) :=
  match l with
  | [] => best
  | x :: t =>
      if 1 <? x then
        match best with
        | Some (_, bv) => if x <? bv then first_min_gt1_from t (S i) (Some (i, x)) else first_min_gt1_from t (S i) best
        | None => first_min_gt1_from t (S i) (Some (i, x))
        end
      else first_min_gt1_from t (S i) best
  end.

Fixpoint shrink (fuel : nat) (probs : list Z) (diff : Z) : res (list Z) :=
  if diff <=? 0 then ROk probs else
  match fuel with
  | O => RPanic "fuel"
  | S f =>
      match first_min_gt1_from probs 0 None with
      | None => RPanic "called `Option::unwrap()` on a `None` value"
      | Some (i, m) =>
          let decrease := Z.min (m - 1) diff in
          shrink f (upd probs i (m - decrease)) (diff - decrease)
      end
  end.

Fixpoint first_idx_of (l : list Z) (v : Z) (i : nat) : option nat :=
  match l with [] => None | x :: t => if x =? v then Some i else first_idx_of t v (S i) end.

Definition norm_counts (counts : list Z) (max_log : Z) (avoid : bool) : res (Z * list Z) :=
  let n := Nat.max (length counts) 2 in
  let probs := counts ++ zeros (n - length counts) in
  let min_count := fold_left (fun m c => if (0 <? c) && ((c <? m) || (m =? 0)) then c else m) counts 0 in
  if min_count =? 0 then RPanic "attempt to subtract with overflow" else
  let probs := map (fun p => if 0 <? p then p - (min_count - 1) else p) probs in
  let max_prob := zmaxl probs in
  let probs := if (0 <? max_prob) && (Z.of_nat n <? max_prob)
               then let divisor := max_prob / Z.of_nat n in map (fun p => if 0 <? p then Z.max (p / divisor) 1 else p) probs
               else probs in
  let sum := zsum probs in
  if sum <=? 0 then RPanic "assertion failed: sum > 0" else
  let acc_log := Z.min (Z.max (Z.log2 sum + 1) 5) max_log in
  let* probs :=
    (if sum <? 2 ^ acc_log then
       let i := last_max_idx probs in ROk (upd probs i (nth i probs 0 + (2 ^ acc_log - sum)))
     else shrink (Z.to_nat (sum - 2 ^ acc_log)) probs (sum - 2 ^ acc_log)) in
  let i := last_max_idx probs in
  let mx := nth i probs 0 in
  if avoid && (2 ^ (acc_log - 1) <? mx) then
    let redistribute := mx - 2 ^ (acc_log - 1) in
    let probs := upd probs i (mx - redistribute) in
    let mx := mx - redistribute in
    let others := filter (fun x => negb (x =? mx)) probs in
    match others with
    | [] => RPanic "called `Option::unwrap()` on a `None` value"
    | _ =>
        let second := nth (last_max_idx others) others 0 in
        match first_idx_of probs second 0 with
        | None => RPanic "called `Option::unwrap()` on a `None` value"
        | Some j =>
            if mx <? nth j probs 0 + redistribute then RPanic "assertion failed: *second_max <= max"
            else ROk (acc_log, upd probs j (nth j probs 0 + redistribute))
        end
    end
  else ROk (acc_log, probs).
