(** Model of the frame-level compressor (encoding/frame_compressor.rs [compress], encoding/levels/fastest.rs
    [compress_fastest], encoding/frame_header.rs for the header shape the compressor emits).  The block header
    writer is the translator-generated [block_header_serialize].  The encoder of one compressed block
    ([compress_block]: literals section, sequences section, matcher) is a parameter here: [cblock] maps the encoder
    state and the block to the body bytes and the new state; the RLE path ([commit_space]+[skip_matching]), the
    raw fall-back and the per-frame reset are the parameters [cskip], [cfallback], [creset].  The source reader may
    fragment its reads arbitrarily ([rd_script]). *)
Require Import Zrs.lib.RsPrelude Zrs.gen.Generated.
Open Scope Z_scope.

Inductive level := LUncompressed | LFastest.

(** a reader that hands out at most [S n] bytes per call, for the successive [n] of its script, then everything *)
Record reader := { rd_data : list Z; rd_script : list nat }.
Definition rd_read (r : reader) (space : nat) : list Z * reader :=
  let want := match rd_script r with [] => space | n :: _ => Nat.min space (S n) end in
  (firstn want (rd_data r), {| rd_data := skipn want (rd_data r); rd_script := tl (rd_script r) |}).

(** the ['read_loop]: fill the block buffer until it is full ([last_block = false]) or the source is exhausted *)
Fixpoint fill_block (fuel : nat) (slice : nat) (acc : list Z) (r : reader) : res (list Z * bool * reader) :=
  match fuel with
  | O => RPanic "fuel"
  | S f =>
      let '(got, r') := rd_read r (slice - length acc) in
      match got with
      | [] => ROk (acc, true, r')
      | _ => let acc' := acc ++ got in
             if (length acc' =? slice)%nat then ROk (acc', false, r') else fill_block f slice acc' r'
      end
  end.

(** FrameHeader::serialize for the header the compressor builds: no content size, not single segment, no
    dictionary, window size present *)
Definition window_descriptor (wsize : Z) : Z :=
  let log := Z.log2 (npot wsize) in
  let exponent := if 10 <? log then log - 10 else 1 in
  (exponent * 8) mod 256.
Definition frame_header_bytes (wsize : Z) (checksum : bool) : list Z :=
  le_bytes 4 MAGIC_NUM ++ [if checksum then 4 else 0] ++ [window_descriptor wsize].

Definition all_same (l : list Z) : bool := match l with [] => true | x :: t => forallb (Z.eqb x) t end.

Section Compressor.
  Variable cstate : Type.
  Variable cblock : cstate -> list Z -> list Z * cstate.
  Variable cskip : cstate -> list Z -> cstate.
  Variable cfallback : cstate -> cstate.
  Variable creset : cstate -> cstate.

  Definition block_bytes (ty : Z) (size : nat) (last : bool) (payload : list Z) : res (list Z) :=
    let* (_, hdr) := block_header_serialize ty (Z.of_nat size) last [] in ROk (hdr ++ payload).

  (** compress_fastest *)
  Definition enc_block_fastest (cs : cstate) (last : bool) (blk : list Z) : res (list Z * cstate) :=
    let size := length blk in
    if all_same blk then
      let* b := block_bytes 1 size last [nth 0 blk 0] in ROk (b, cskip cs blk)
    else
      let '(body, cs') := cblock cs blk in
      if (size <=? length body)%nat || (MAX_BLOCK_SIZE <? Z.of_nat (length body)) then
        let* b := block_bytes 0 size last blk in ROk (b, cfallback cs')
      else
        let* b := block_bytes 2 (length body) last body in ROk (b, cs').

  Definition enc_block (lv : level) (cs : cstate) (last : bool) (blk : list Z) : res (list Z * cstate) :=
    match lv with
    | LUncompressed => let* b := block_bytes 0 (length blk) last blk in ROk (b, cs)
    | LFastest => enc_block_fastest cs last blk
    end.

  (** the block loop of [compress]; [out] accumulates what was written to the drain *)
  Fixpoint compress_loop (fuel : nat) (lv : level) (slice : nat) (cs : cstate) (r : reader) (out : list Z)
    : res (list Z * cstate * reader) :=
    match fuel with
    | O => RPanic "fuel"
    | S f =>
        let* (blk, last, r') := fill_block (S slice) slice [] r in
        match blk with
        | [] => let* b := block_bytes 0 0 true [] in ROk (out ++ b, cs, r')
        | _ =>
            let* (b, cs') := enc_block lv cs last blk in
            if last then ROk (out ++ b, cs', r') else compress_loop f lv slice cs' r' (out ++ b)
        end
    end.

  (** [compress]: reset, header, blocks, checksum of everything read ([hash32] is XXH64's low 32 bits,
      little endian; present iff the hash feature is on) *)
  Definition compress_frame (lv : level) (slice : nat) (wsize : Z) (hash32 : option (list Z -> list Z))
             (cs : cstate) (r : reader) : res (list Z * cstate * reader) :=
    let cs := creset cs in
    (* the declared window is at least the maximum block size (repair of finding F11) *)
    let hdr := frame_header_bytes (Z.max wsize MAX_BLOCK_SIZE) (is_some hash32) in
    let* (out, cs', r') := compress_loop (S (length (rd_data r))) lv slice cs r hdr in
    ROk (out ++ match hash32 with Some h => h (rd_data r) | None => [] end, cs', r').
End Compressor.

(** executable instance for the correspondence check: the compressed-block encoder is an oracle that replays the
    bodies observed in the real frame, in order (a block that the real compressor stored raw gets a body as long
    as the block, which makes the model fall back too) *)
Definition oracle_state := list (list Z).
Definition oracle_cblock (cs : oracle_state) (blk : list Z) : list Z * oracle_state :=
  match cs with [] => (blk, []) | b :: t => (b, t) end.
Definition compress_frame_oracle (lv : level) (slice : nat) (wsize : Z) (hash32 : option (list Z))
           (bodies : oracle_state) (data : list Z) (script : list nat) : res (list Z) :=
  let* (out, _, _) := compress_frame oracle_state oracle_cblock (fun cs _ => cs) (fun cs => cs) (fun cs => cs)
                        lv slice wsize (match hash32 with Some h => Some (fun _ => h) | None => None end)
                        bodies {| rd_data := data; rd_script := script |} in
  ROk out.
