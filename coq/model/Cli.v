(** Model of the decision logic of the command-line tool (cli/src/main.rs): the mapping of the level option to a
    library level or a refusal, the order "refuse before the output file is created", and the derivation of default
    output names ([add_extension] for compress, [file_stem] for decompress) on plain file names. *)
Require Import Zrs.lib.RsPrelude Zrs.model.FrameEnc.
Require Import Ascii.
Open Scope Z_scope.

Definition DEFAULT_LEVEL : Z := 1.

Inductive cli_level := CliLevel (l : level) | CliRefuse.

(** [compress]'s [match level] (a u8); [None] = option not given *)
Definition cli_map_level (opt : option Z) : cli_level :=
  let level := match opt with Some l => l | None => DEFAULT_LEVEL end in
  if level =? 0 then CliLevel LUncompressed
  else if level =? 1 then CliLevel LFastest
  else CliRefuse.

(** what compress does to the file system, in order *)
Inductive cli_event := EvOpenInput | EvCreateOutput | EvWriteFrame | EvFail.
Definition cli_compress_events (opt : option Z) (input_exists : bool) : list cli_event :=
  match cli_map_level opt with
  | CliRefuse => [EvFail]
  | CliLevel _ => if input_exists then [EvOpenInput; EvCreateOutput; EvWriteFrame] else [EvOpenInput; EvFail]
  end.

(** file names as lists of characters, without directory part *)
Definition dot : ascii := "."%char.
Definition add_extension (name ext : list ascii) : list ascii := name ++ ext.

(** [Path::file_stem]: the name up to its last dot, unless that dot is the first character or there is none *)
Fixpoint last_dot (s : list ascii) (pos : nat) (found : option nat) : option nat :=
  match s with
  | [] => found
  | c :: t => last_dot t (S pos) (if Ascii.eqb c dot then Some pos else found)
  end.
Definition file_stem (name : list ascii) : list ascii :=
  match last_dot name 0 None with
  | Some (S k) => firstn (S k) name
  | _ => name
  end.
Definition zst_ext : list ascii := [dot; "z"%char; "s"%char; "t"%char].
