(** A whole sequences section as the compressor writes it (encoding/blocks/compressed.rs, all three tables "FSE
    compressed", mode byte 0xA8): three table descriptions (literal lengths, offsets, match lengths) and the backward
    bit stream; plus the decidable side conditions of the section round-trip theorem (proofs/C12_Section.v). *)
Require Import Zrs.lib.RsPrelude Zrs.gen.Generated Zrs.model.BitIO Zrs.model.FseDec Zrs.model.HufDec Zrs.model.BlockDec.
Require Import Zrs.model.BitStream Zrs.model.SeqEnc Zrs.model.FseEnc.
Open Scope Z_scope.

Definition MODES_ALL_ENCODED : Z := 168.

Definition is_some_b {A} (o : option A) : bool := match o with Some _ => true | None => false end.

(** every state index is covered by a state of [sym], and [sym] has a state at all *)
Definition covers_b (D : fse_table) (sym : Z) : bool :=
  is_some_b (min_base (t_decode D) 0 sym None) &&
  forallb (fun n => let idx := Z.of_nat n in
                    is_some_b (find_entry (t_decode D) 0 (fun e => (e_sym e =? sym) && (e_base e <=? idx) && (idx <? e_base e + 2 ^ e_bits e))))
          (seq 0 (Z.to_nat (t_len D))).

Definition table_wf_b (D : fse_table) : bool :=
  (Z.of_nat (length (t_decode D)) =? t_len D) && forallb (fun e => 0 <=? e_bits e) (t_decode D) && (0 <? t_acc_log D).

Definition dist := (Z * list Z)%type.
Definition dist_of (t : fse_table) : dist := (t_acc_log t, t_probs t).
Definition build_table (max_symbol : Z) (d : dist) : res fse_table :=
  fse_build_from_probabilities (fse_new max_symbol) (fst d) (snd d).

Definition section_bytes (dl do dm : dist) (seqs : list sequence) : res (list Z) :=
  let* qs := map_res to_cseq seqs in
  let* Dll := build_table MAX_LITERAL_LENGTH_CODE dl in
  let* Dof := build_table MAX_OFFSET_CODE do in
  let* Dml := build_table MAX_MATCH_LENGTH_CODE dm in
  match desc_bytes (fst dl) (snd dl), desc_bytes (fst do) (snd do), desc_bytes (fst dm) (snd dm) with
  | Some a, Some b, Some c =>
      ROk (a ++ b ++ c ++ stream_bytes (enc_fields (enc_of_dec Dll) (enc_of_dec Dml) (enc_of_dec Dof) qs))
  | _, _, _ => RErr "description"
  end.

(** value ranges in which the code tables are total *)
Definition seq_range_b (s : sequence) : bool :=
  (0 <=? sq_ll s) && (sq_ll s <=? 131071) && (3 <=? sq_ml s) && (sq_ml s <=? 131074) && (1 <=? sq_of s) && (sq_of s <? 2 ^ 32).

Definition dist_side_b (d : dist) (max_log max_symbol : Z) : bool :=
  dist_okb (fst d) (snd d) && (5 <=? fst d) && (fst d <=? max_log) && (Z.of_nat (length (snd d)) <=? max_symbol + 1).

Definition section_hyps_b (dl do dm : dist) (seqs : list sequence) : bool :=
  match map_res to_cseq seqs, build_table MAX_LITERAL_LENGTH_CODE dl, build_table MAX_OFFSET_CODE do,
        build_table MAX_MATCH_LENGTH_CODE dm with
  | ROk qs, ROk Dll, ROk Dof, ROk Dml =>
      dist_side_b dl LL_MAX_LOG MAX_LITERAL_LENGTH_CODE && dist_side_b do OF_MAX_LOG MAX_OFFSET_CODE &&
      dist_side_b dm ML_MAX_LOG MAX_MATCH_LENGTH_CODE &&
      table_wf_b Dll && table_wf_b Dof && table_wf_b Dml &&
      forallb (fun q => covers_b Dll (c_ll q) && covers_b Dml (c_ml q) && covers_b Dof (c_of q)) qs &&
      negb (match seqs with [] => true | _ => false end) && forallb seq_range_b seqs
  | _, _, _, _ => false
  end.

(** decode a section with the decoder model, write it again from the decoded distributions and sequences *)
Definition decode_rewrite_section (num_sequences : Z) (source : list Z) : res (bool * list Z) :=
  let* (s2, seqs) := decode_sequences num_sequences (Some MODES_ALL_ENCODED) source fse_scratch_new in
  let dl := dist_of (fs_ll s2) in let do := dist_of (fs_of s2) in let dm := dist_of (fs_ml s2) in
  let* again := section_bytes dl do dm seqs in
  ROk (section_hyps_b dl do dm seqs, again).
