(** Canonical (class, integers) views of generated functions and small hand models, used by the correspondence
    cases the checks write.  class: 0 = ok, 1 = Err, 2 = panic (also: overflow in a debug build), 3 = skip *)
Require Import Zrs.lib.RsPrelude Zrs.gen.Generated Zrs.model.Headers.
Open Scope Z_scope.

Definition canon := (Z * list Z)%type.
Definition c_res {A} (safe : bool) (f : A -> list Z) (r : res A) : canon :=
  match r with
  | ROk a => if safe then (0, f a) else (2, [])
  | RErr _ => (1, [])
  | RPanic _ => (2, [])
  end.
Definition ob (b : bool) : Z := if b then 1 else 0.
Definition oz (o : option Z) : Z := match o with Some x => x | None => -1 end.
Definition a0 (l : list Z) := znth l 0.
Definition a1 (l : list Z) := znth l 1.
Definition a2 (l : list Z) := znth l 2.
Definition a3 (l : list Z) := znth l 3.
Definition a4 (l : list Z) := znth l 4.

Definition g_ll_code l := c_res (lookup_ll_code_safe (a0 l)) (fun '(b, n) => [b; n]) (lookup_ll_code (a0 l)).
Definition g_ml_code l := c_res (lookup_ml_code_safe (a0 l)) (fun '(b, n) => [b; n]) (lookup_ml_code (a0 l)).
Definition g_enc_ll l := c_res (encode_literal_length_safe (a0 l)) (fun '(c, a, n) => [c; a; n]) (encode_literal_length (a0 l)).
Definition g_enc_ml l := c_res (encode_match_len_safe (a0 l)) (fun '(c, a, n) => [c; a; n]) (encode_match_len (a0 l)).
Definition g_enc_of l : canon :=
  if encode_offset_safe (a0 l) then let '(c, a, n) := encode_offset (a0 l) in (0, [c; a; n]) else (2, []).
Definition g_offhist l : canon :=
  if do_offset_history_safe (a0 l) (a1 l) [a2 l; a3 l; a4 l]
  then let '(r, h) := do_offset_history (a0 l) (a1 l) [a2 l; a3 l; a4 l] in (0, r :: h) else (2, []).
Definition g_seqnum l := c_res (encode_seqnum_safe (a0 l) []) (fun '(_, b) => b) (encode_seqnum (a0 l) []).
Definition g_seqhdr l :=
  c_res (sequences_header_parse_safe 0 None l)
        (fun '(u, n, m) => [u; n; match m with Some x => x / 4 | None => -1 end]) (sequences_header_parse 0 None l).
Definition g_minsize l : canon := (0, [find_min_size (a0 l)]).
Definition g_blkhdr l :=
  c_res true (fun '(last, ty, d, c) => [ob last; ty; d; c; 3]) (read_block_header (a0 l) (a1 l) (a2 l)).
Definition g_blkser l :=
  c_res (block_header_serialize_safe (a0 l) (a1 l) (negb (a2 l =? 0)) [])
        (fun '(_, b) => b) (block_header_serialize (a0 l) (a1 l) (negb (a2 l =? 0)) []).
Definition g_maxwin l : canon := (0, [snd (set_max_window_size (a0 l))]).
Definition g_framehdr l : canon :=
  match read_frame_header l with
  | FhOk h n =>
      (0, [n; fh_desc h;
           match fh_window_size h with ROk w => w | _ => -1 end;
           oz (fh_dict_id h); fh_fcs h; ob (content_checksum_flag (fh_desc h))])
  | FhSkip m len => (3, [m; len])
  | FhErr _ => (1, [])
  | FhPanic _ => (2, [])
  end.
Definition g_lithdr l :=
  c_res true (fun '(u, t, r, c, s) => [u; t; r; oz c; oz s]) (lit_header_parse l).
Definition g_lithdr_need l := c_res (header_bytes_needed_safe (a0 l)) (fun n => [n]) (header_bytes_needed (a0 l)).

(** comparison of a batch of cases against the results the implementation gave *)
Fixpoint list_eqb (a b : list Z) : bool :=
  match a, b with
  | [], [] => true
  | x :: a', y :: b' => (x =? y) && list_eqb a' b'
  | _, _ => false
  end.
Definition canon_eqb (a b : canon) : bool := (fst a =? fst b) && list_eqb (snd a) (snd b).
(** returns the (index, model result) of every disagreeing case *)
Fixpoint mismatches_from (i : Z) (f : list Z -> canon) (cases : list (list Z * canon)) : list (Z * canon) :=
  match cases with
  | [] => []
  | (x, y) :: t =>
      let r := f x in
      if canon_eqb r y then mismatches_from (i + 1) f t else (i, r) :: mismatches_from (i + 1) f t
  end.
Definition mismatches := mismatches_from 0.
