(** Model of the frame layer: dictionary parsing (dictionary.rs), FrameDecoder with all its entry points
    (frame_decoder.rs), the drain paths of DecodeBuffer (decode_buffer.rs) on the abstract byte queue, and the
    streaming front end (streaming_decoder.rs).  A compressed source is the list of its remaining bytes
    ([read_exact] either delivers exactly n bytes or fails: any fragmentation of the underlying reader is
    invisible through read_exact). *)
Require Import Zrs.lib.RsPrelude Zrs.gen.Generated Zrs.model.Headers Zrs.model.BitIO Zrs.model.FseDec Zrs.model.HufDec
               Zrs.model.BlockDec.
Open Scope Z_scope.

(** *** dictionaries *)
Record dictionary := { d_id : Z; d_fse : fse_scratch; d_huf : huf_table; d_content : list Z; d_hist : list Z }.

Definition decode_dict (raw : list Z) : res dictionary :=
  if zlen raw <? 8 then RErr "NotEnoughBytes"
  else if negb (le_val (take_z 4 raw) =? 3962610743) then RErr "BadMagicNum"
  else
    let id := le_val (take_z 4 (drop_z 4 raw)) in
    let t0 := drop_z 8 raw in
    let* (huf, huf_size) := huf_build_decoder huf_new t0 in
    if zlen t0 <? huf_size then RErr "NotEnoughBytes" else
    let t1 := drop_z huf_size t0 in
    let* (of, of_size) := fse_build_decoder (fse_new MAX_OFFSET_CODE) t1 OF_MAX_LOG in
    if zlen t1 <? of_size then RErr "NotEnoughBytes" else
    let t2 := drop_z of_size t1 in
    let* (ml, ml_size) := fse_build_decoder (fse_new MAX_MATCH_LENGTH_CODE) t2 ML_MAX_LOG in
    if zlen t2 <? ml_size then RErr "NotEnoughBytes" else
    let t3 := drop_z ml_size t2 in
    let* (ll, ll_size) := fse_build_decoder (fse_new MAX_LITERAL_LENGTH_CODE) t3 LL_MAX_LOG in
    if zlen t3 <? ll_size then RErr "NotEnoughBytes" else
    let t4 := drop_z ll_size t3 in
    if zlen t4 <? 12 then RErr "NotEnoughBytes" else
    ROk {| d_id := id;
           d_fse := {| fs_of := of; fs_of_rle := None; fs_ll := ll; fs_ll_rle := None; fs_ml := ml; fs_ml_rle := None |};
           d_huf := huf; d_content := drop_z 12 t4;
           d_hist := [le_val (take_z 4 t4); le_val (take_z 4 (drop_z 4 t4)); le_val (take_z 4 (drop_z 8 t4))] |}.

(** *** per-frame state *)
Record fstate := {
  fr_header : frame_header;
  fr_scratch : scratch;
  fr_finished : bool;
  fr_blocks : Z;
  fr_bytes_read : Z;
  fr_checksum : option Z;
  fr_using_dict : option Z;
}.

Record fdec := { fd_state : option fstate; fd_dicts : list dictionary; fd_max_window : Z }.
Definition fdec_new : fdec := {| fd_state := None; fd_dicts := []; fd_max_window := DEFAULT_MAX_WINDOW_SIZE |}.
Definition fdec_set_max_window (d : fdec) (m : Z) : fdec :=
  {| fd_state := fd_state d; fd_dicts := fd_dicts d; fd_max_window := snd (set_max_window_size m) |}.

Definition scratch_new (window : Z) : scratch :=
  {| sc_huf := huf_new; sc_fse := fse_scratch_new; sc_buf := db_new window; sc_hist := [1; 4; 8] |}.
(** [DecoderScratch::reset], field by field as in scratch.rs *)
Definition scratch_reset (s : scratch) (window : Z) : scratch :=
  {| sc_huf := huf_reset (sc_huf s); sc_fse := fse_scratch_reset (sc_fse s);
     sc_buf := db_reset (sc_buf s) window; sc_hist := [1; 4; 8] |}.
Definition scratch_init_from_dict (s : scratch) (d : dictionary) : scratch :=
  {| sc_huf := huf_reinit_from (sc_huf s) (d_huf d); sc_fse := fse_scratch_reinit_from (sc_fse s) (d_fse d);
     sc_buf := {| db_rev := db_rev (sc_buf s); db_len := db_len (sc_buf s); db_dict := d_content d;
                  db_window := db_window (sc_buf s); db_total_out := db_total_out (sc_buf s);
                  db_hashed_rev := db_hashed_rev (sc_buf s) |};
     sc_hist := d_hist d |}.

(** events that matter for C11: the order of header read, window check and the window-sized reservation *)
Inductive event := EvHeader | EvWindowOk (w : Z) | EvReserve (n : Z).

(** common front part of FrameDecoderState::new / ::reset: header, window, limit *)
Definition frame_front (src : list Z) (max_window : Z) : res (frame_header * Z * Z * list Z) + (Z * Z) :=
  match read_frame_header src with
  | FhSkip m len => inr (m, len)
  | FhErr e => inl (RErr e)
  | FhPanic e => inl (RPanic e)
  | FhOk h n =>
      inl (let* w := fh_window_size h in
           let* _ := check_window_size w max_window in
           ROk (h, n, w, drop_z n src))
  end.

(** [FrameDecoder::reset] / [init]: returns decoder, remaining source, events.  A skippable frame is the error
    value [RErr "SkipFrame"]; [skip_info] gives its fields to decode_all. *)
Definition fdec_reset (d : fdec) (src : list Z) : res (fdec * list Z * list event) :=
  match frame_front src (fd_max_window d) with
  | inr _ => RErr "SkipFrame"
  | inl (RErr e) => RErr e
  | inl (RPanic e) => RPanic e
  | inl (ROk (h, n, w, rest)) =>
      let '(sc, evs) :=
        match fd_state d with
        | Some s => (scratch_reset (fr_scratch s) w, [EvHeader; EvWindowOk w; EvReserve w])
        | None => (scratch_new w, [EvHeader; EvWindowOk w])
        end in
      let st := {| fr_header := h; fr_scratch := sc; fr_finished := false; fr_blocks := 0; fr_bytes_read := n;
                   fr_checksum := None; fr_using_dict := None |} in
      match fh_dict_id h with
      | Some id =>
          match find (fun dd => d_id dd =? id) (fd_dicts d) with
          | None =>
              (* the state was already replaced when the dictionary lookup fails *)
              RErr "DictNotProvided"
          | Some dd =>
              ROk ({| fd_state := Some {| fr_header := h; fr_scratch := scratch_init_from_dict sc dd; fr_finished := false;
                                           fr_blocks := 0; fr_bytes_read := n; fr_checksum := None;
                                           fr_using_dict := Some id |};
                      fd_dicts := fd_dicts d; fd_max_window := fd_max_window d |}, rest, evs)
          end
      | None => ROk ({| fd_state := Some st; fd_dicts := fd_dicts d; fd_max_window := fd_max_window d |}, rest, evs)
      end
  end.

(** BTreeMap::insert replaces an entry with the same id *)
Definition fdec_add_dict (d : fdec) (dd : dictionary) : fdec :=
  {| fd_state := fd_state d; fd_dicts := dd :: filter (fun x => negb (d_id x =? d_id dd)) (fd_dicts d);
     fd_max_window := fd_max_window d |}.

Definition fdec_force_dict (d : fdec) (id : Z) : res fdec :=
  match fd_state d with
  | None => RErr "NotYetInitialized"
  | Some s =>
      match find (fun dd => d_id dd =? id) (fd_dicts d) with
      | None => RErr "DictNotProvided"
      | Some dd =>
          ROk {| fd_state := Some {| fr_header := fr_header s; fr_scratch := scratch_init_from_dict (fr_scratch s) dd;
                                     fr_finished := fr_finished s; fr_blocks := fr_blocks s;
                                     fr_bytes_read := fr_bytes_read s; fr_checksum := fr_checksum s;
                                     fr_using_dict := Some id |};
                 fd_dicts := fd_dicts d; fd_max_window := fd_max_window d |}
      end
  end.

Definition checksum_flag (s : fstate) : bool := content_checksum_flag (fh_desc (fr_header s)).

Definition st_is_finished (s : fstate) : bool :=
  if checksum_flag s then fr_finished s && is_some (fr_checksum s) else fr_finished s.
Definition fdec_is_finished (d : fdec) : bool := match fd_state d with None => true | Some s => st_is_finished s end.

(** *** decode_blocks *)
Inductive strategy := SAll | SUptoBlocks (n : Z) | SUptoBytes (n : Z).

Definition set_scratch (s : fstate) (sc : scratch) (bytes blocks : Z) : fstate :=
  {| fr_header := fr_header s; fr_scratch := sc; fr_finished := fr_finished s; fr_blocks := fr_blocks s + blocks;
     fr_bytes_read := fr_bytes_read s + bytes; fr_checksum := fr_checksum s; fr_using_dict := fr_using_dict s |}.

Definition finish (s : fstate) (bytes : Z) (ck : option Z) : fstate :=
  {| fr_header := fr_header s; fr_scratch := fr_scratch s; fr_finished := true; fr_blocks := fr_blocks s;
     fr_bytes_read := fr_bytes_read s + bytes; fr_checksum := ck; fr_using_dict := fr_using_dict s |}.

Definition read_block_header_src (src : list Z) : res (bool * Z * Z * Z * list Z) :=
  match read_exact 3 src with
  | None => RErr "ReadError"
  | Some (hb, rest) =>
      let* (last, ty, dsize, csize) := read_block_header (nth_z hb 0) (nth_z hb 1) (nth_z hb 2) in
      ROk (last, ty, dsize, csize, rest)
  end.

(** returns (state, remaining source); an error leaves the caller with the error only (the frame is lost) *)
Fixpoint decode_blocks_loop (fuel : nat) (s : fstate) (src : list Z) (strat : strategy) (len_before blocks_before : Z)
  : res (fstate * list Z) :=
  match fuel with
  | O => RPanic "fuel"
  | S f =>
      let* (last, ty, dsize, csize, src) := read_block_header_src src in
      let s := set_scratch s (fr_scratch s) 3 0 in
      let* (sc, nbytes, src) := decode_block_content ty dsize csize (fr_scratch s) src in
      let s := set_scratch s sc nbytes 1 in
      if last then
        if checksum_flag s then
          match read_exact 4 src with
          | None => RErr "FailedToReadChecksum"
          | Some (ck, src) => ROk (finish s 4 (Some (le_val ck)), src)
          end
        else ROk (finish s 0 (fr_checksum s), src)
      else
        let stop :=
          match strat with
          | SAll => false
          | SUptoBlocks n => n <=? fr_blocks s - blocks_before
          | SUptoBytes n => n <=? db_len (sc_buf (fr_scratch s)) - len_before
          end in
        if stop then ROk (s, src) else decode_blocks_loop f s src strat len_before blocks_before
  end.

Definition fdec_with_state (d : fdec) (s : fstate) : fdec :=
  {| fd_state := Some s; fd_dicts := fd_dicts d; fd_max_window := fd_max_window d |}.

(** every iteration reads at least the 3 header bytes: fuel = |src| / 3 + 2 is never exhausted *)
Definition fdec_decode_blocks (d : fdec) (src : list Z) (strat : strategy) : res (fdec * list Z * bool) :=
  match fd_state d with
  | None => RErr "NotYetInitialized"
  | Some s =>
      let* (s', rest) := decode_blocks_loop (S (S (length src))) s src strat (db_len (sc_buf (fr_scratch s))) (fr_blocks s) in
      ROk (fdec_with_state d s', rest, fr_finished s')
  end.

(** *** drain paths of the decode buffer *)
Definition db_can_drain_to_window (b : dbuf) : option Z :=
  if db_window b <? db_len b then Some (db_len b - db_window b) else None.

(** remove the [n] oldest bytes, feeding them to the hasher: returns (bytes, buffer) *)
Definition db_take_front (b : dbuf) (n : Z) : list Z * dbuf :=
  let keep := db_len b - n in
  let out := rev' (drop_z keep (db_rev b)) in
  (out, {| db_rev := take_z keep (db_rev b); db_len := keep; db_dict := db_dict b; db_window := db_window b;
           db_total_out := db_total_out b; db_hashed_rev := rev_append out (db_hashed_rev b) |}).

(** sinks: an arbitrary state machine; per [write] call it is offered [n] bytes and either accepts some
    (clamped to 1..n), returns Ok(0), or fails *)
Inductive sink_resp := SAccept (n : Z) | SZero | SFail.

Section Sink.
  Variable St : Type.
  Variable sstep : St -> Z -> sink_resp * St.

  (** [write_all_bytes]: returns (written, ok?, sink state) *)
  Fixpoint write_all_bytes (fuel : nat) (st : St) (buflen written : Z) : Z * bool * St :=
    match fuel with
    | O => (written, true, st)
    | S f =>
        if written <? buflen then
          match sstep st (buflen - written) with
          | (SAccept n, st') => write_all_bytes f st' buflen (written + Z.min (Z.max n 1) (buflen - written))
          | (SZero, st') => (written, true, st')
          | (SFail, st') => (written, false, st')
          end
        else (written, true, st)
    end.

  (** [drain_to amount] through a sink; [split] is where the ring buffer's first slice ends (any value >= 1:
      an oracle).  returns (bytes handed to the sink, buffer, ok?, sink state) *)
  Definition db_drain_to_sink (b : dbuf) (amount split : Z) (st : St) : list Z * dbuf * bool * St :=
    if amount =? 0 then ([], b, true, st)
    else
      let s1 := if db_len b =? 0 then 0 else Z.min (Z.max split 1) (db_len b) in
      let n1 := Z.min s1 amount in
      let n2 := Z.min (db_len b - s1) (amount - n1) in
      if n1 =? 0 then ([], b, true, st)
      else
        let '(w1, ok1, st) := write_all_bytes (S (Z.to_nat n1)) st n1 0 in
        if negb ok1 then let '(out, b') := db_take_front b w1 in (out, b', false, st)
        else if (w1 =? n1) && negb (n2 =? 0) then
          let '(w2, ok2, st) := write_all_bytes (S (Z.to_nat n2)) st n2 0 in
          let '(out, b') := db_take_front b (w1 + w2) in (out, b', ok2, st)
        else let '(out, b') := db_take_front b w1 in (out, b', true, st).
End Sink.

(** a concrete family used by the correspondence runs: at most [chunk] bytes per call, [budget] bytes in total,
    then Ok(0) ([mode] = 0) or an error ([mode] = 1) *)
Definition budget_sink := (Z * Z * Z)%type.
Definition budget_step (st : budget_sink) (offered : Z) : sink_resp * budget_sink :=
  let '(chunk, budget, mode) := st in
  if budget <=? 0 then (if mode =? 0 then SZero else SFail, st)
  else let w := Z.min (Z.min (Z.max chunk 1) budget) offered in (SAccept w, (chunk, budget - w, mode)).

(** draining into memory (collect / read / read_all): the closure always takes everything *)
Definition db_drain_amount (b : dbuf) (amount : Z) : list Z * dbuf := db_take_front b (Z.min amount (db_len b)).

Definition db_drain_all (b : dbuf) : list Z * dbuf :=
  let '(out, b') := db_take_front b (db_len b) in (out, b').

(** Read for DecodeBuffer (window retaining) and read_all *)
Definition db_read (b : dbuf) (target_len : Z) : list Z * dbuf :=
  let max_amount := match db_can_drain_to_window b with Some x => x | None => 0 end in
  db_drain_amount b (Z.min max_amount target_len).
Definition db_read_all (b : dbuf) (target_len : Z) : list Z * dbuf :=
  db_drain_amount b (Z.min (db_len b) target_len).

Definition st_set_buf (s : fstate) (b : dbuf) : fstate :=
  {| fr_header := fr_header s;
     fr_scratch := {| sc_huf := sc_huf (fr_scratch s); sc_fse := sc_fse (fr_scratch s); sc_buf := b;
                      sc_hist := sc_hist (fr_scratch s) |};
     fr_finished := fr_finished s; fr_blocks := fr_blocks s; fr_bytes_read := fr_bytes_read s;
     fr_checksum := fr_checksum s; fr_using_dict := fr_using_dict s |}.
Definition st_buf (s : fstate) : dbuf := sc_buf (fr_scratch s).

(** [collect]: None when nothing may be drained yet *)
Definition fdec_collect (d : fdec) : option (list Z) * fdec :=
  match fd_state d with
  | None => (None, d)
  | Some s =>
      if st_is_finished s then
        let '(out, b) := db_drain_all (st_buf s) in (Some out, fdec_with_state d (st_set_buf s b))
      else
        match db_can_drain_to_window (st_buf s) with
        | None => (None, d)
        | Some n => let '(out, b) := db_drain_amount (st_buf s) n in (Some out, fdec_with_state d (st_set_buf s b))
        end
  end.

Definition fdec_can_collect (d : fdec) : Z :=
  match fd_state d with
  | None => 0
  | Some s => if st_is_finished s then db_len (st_buf s)
              else match db_can_drain_to_window (st_buf s) with Some n => n | None => 0 end
  end.

(** [collect_to_writer] *)
Definition fdec_collect_to_writer {St} (sstep : St -> Z -> sink_resp * St) (d : fdec) (split : Z) (st : St)
  : list Z * fdec * bool * St :=
  match fd_state d with
  | None => ([], d, true, st)
  | Some s =>
      let amount := if st_is_finished s then db_len (st_buf s)
                    else match db_can_drain_to_window (st_buf s) with Some n => n | None => 0 end in
      let '(out, b, ok, st) := db_drain_to_sink St sstep (st_buf s) amount split st in
      (out, fdec_with_state d (st_set_buf s b), ok, st)
  end.

(** Read for FrameDecoder *)
Definition fdec_read (d : fdec) (target_len : Z) : list Z * fdec :=
  match fd_state d with
  | None => ([], d)
  | Some s =>
      let '(out, b) := if fr_finished s then db_read_all (st_buf s) target_len else db_read (st_buf s) target_len in
      (out, fdec_with_state d (st_set_buf s b))
  end.

(** low 32 bits of the hash of the delivered bytes: the hash function itself is a parameter of the theorems *)
Definition fdec_hashed (d : fdec) : list Z :=
  match fd_state d with None => [] | Some s => rev' (db_hashed_rev (st_buf s)) end.

(** *** decode_from_to: returns (decoder, bytes consumed from [source], bytes written to target) *)
Fixpoint dft_loop (fuel : nat) (s : fstate) (src : list Z) : res (fstate * list Z) :=
  match fuel with
  | O => RPanic "fuel"
  | S f =>
      if zlen src <? 3 then ROk (s, src)
      else
        let* (last, ty, dsize, csize, src1) := read_block_header_src src in
        if zlen src1 <? csize then ROk (s, src)
        else
          let s := set_scratch s (fr_scratch s) 3 0 in
          let* (sc, nbytes, src2) := decode_block_content ty dsize csize (fr_scratch s) src1 in
          let s := set_scratch s sc nbytes 1 in
          if last then
            if checksum_flag s then
              if 4 <=? zlen src2 then ROk (finish s 4 (Some (le_val (take_z 4 src2))), drop_z 4 src2)
              else ROk (finish s 0 (fr_checksum s), src2)
            else ROk (finish s 0 (fr_checksum s), src2)
          else dft_loop f s src2
  end.

Definition fdec_decode_from_to (d : fdec) (source : list Z) (target_len : Z) : res (fdec * Z * list Z) :=
  let start := match fd_state d with Some s => fr_bytes_read s | None => 0 end in
  let* (d1, early) :=
    (if negb (fdec_is_finished d) || negb (is_some (fd_state d)) then
       let* (d0, src) :=
         (match fd_state d with
          | None => let* (d0, rest, _) := fdec_reset d source in ROk (d0, rest)
          | Some _ => ROk (d, source)
          end) in
       match fd_state d0 with
       | None => RPanic "Bug in library"
       | Some s =>
           if checksum_flag s && fr_finished s && negb (is_some (fr_checksum s)) then
             if 4 <=? zlen src then
               ROk (fdec_with_state d0 (finish s 4 (Some (le_val (take_z 4 src)))), Some (4, 0))
             else ROk (d0, Some (0, 0))
           else
             let* (s', _) := dft_loop (S (S (length src))) s src in
             ROk (fdec_with_state d0 s', None)
       end
     else ROk (d, None)) in
  match early with
  | Some (r, w) => ROk (d1, r, [])
  | None =>
      let '(out, d2) := fdec_read d1 target_len in
      match fd_state d2 with
      | None => RPanic "Bug in library"
      | Some s => ROk (d2, fr_bytes_read s - start, out)
      end
  end.

(** *** decode_all: input holds whole frames (and skippable frames); output has [cap] bytes of room *)
Fixpoint decode_all_inner (fuel : nat) (d : fdec) (input : list Z) (room : Z) (written_rev : list Z)
  : res (fdec * list Z * Z * list Z) :=
  match fuel with
  | O => RPanic "fuel"
  | S f =>
      let* (d, input, _) := fdec_decode_blocks d input (SUptoBytes (1024 * 1024)) in
      let '(out, d) := fdec_read d room in
      let room := room - zlen out in
      let written_rev := rev_append out written_rev in
      if negb (fdec_can_collect d =? 0) then RErr "TargetTooSmall"
      else if fdec_is_finished d then ROk (d, input, room, written_rev)
      else decode_all_inner f d input room written_rev
  end.

Fixpoint decode_all_outer (fuel : nat) (d : fdec) (input : list Z) (room : Z) (written_rev : list Z)
  : res (fdec * list Z) :=
  match fuel with
  | O => RPanic "fuel"
  | S f =>
      match input with
      | [] => ROk (d, rev' written_rev)
      | _ =>
          match frame_front input (fd_max_window d) with
          | inr (_, len) =>
              (* init consumed 8 bytes of the skippable frame header, then input.get(length..) *)
              let rest := drop_z 8 input in
              if zlen rest <? len then RErr "FailedToSkipFrame"
              else decode_all_outer f d (drop_z len rest) room written_rev
          | inl _ =>
              let* (d, input, _) := fdec_reset d input in
              let* (d, input, room, written_rev) := decode_all_inner (S (S (length input))) d input room written_rev in
              decode_all_outer f d input room written_rev
          end
      end
  end.

Definition fdec_decode_all (d : fdec) (input : list Z) (cap : Z) : res (fdec * list Z) :=
  decode_all_outer (S (S (length input))) d input cap [].

(** *** StreamingDecoder::read *)
Fixpoint stream_fill (fuel : nat) (d : fdec) (src : list Z) (want : Z) : res (fdec * list Z) :=
  match fuel with
  | O => RPanic "fuel"
  | S f =>
      if (fdec_can_collect d <? want) && negb (fdec_is_finished d) then
        let* (d, src, _) := fdec_decode_blocks d src (SUptoBytes (want - fdec_can_collect d)) in
        stream_fill f d src want
      else ROk (d, src)
  end.

Definition stream_read (d : fdec) (src : list Z) (buf_len : Z) : res (fdec * list Z * list Z) :=
  if fdec_is_finished d && (fdec_can_collect d =? 0) then ROk (d, src, [])
  else
    let* (d, src) := stream_fill (S (S (length src))) d src buf_len in
    let '(out, d) := fdec_read d buf_len in
    ROk (d, src, out).
