(** The compressor's FSE table description writer ([FSETable::write_table], fse/fse_encoder.rs) as a list of
    (value, width) fields for the forward bit writer: accuracy log, the variable-width probability values, the 2-bit
    zero-run repeat flags; zeros up to the byte boundary. *)
Require Import Zrs.lib.RsPrelude Zrs.model.BitIO Zrs.model.BitStream.
Open Scope Z_scope.

(** zeros directly following a zero probability, and the rest of the table *)
Fixpoint count_zeros (l : list Z) : nat * list Z :=
  match l with
  | p :: t => if p =? 0 then let '(n, r) := count_zeros t in (S n, r) else (O, l)
  | [] => (O, [])
  end.

(** a run of [z] further zeros: a flag 3 per three zeros, then the remainder *)
Fixpoint zero_fields (z : nat) : list field :=
  match z with
  | S (S (S k)) => (3, 2%nat) :: zero_fields k
  | _ => [(Z.of_nat z, 2%nat)]
  end.

Definition value_field (max_remaining value : Z) : field :=
  let bits := highest_bit_set max_remaining in
  let low_threshold := (2 ^ bits - 1) - max_remaining in
  let mask := 2 ^ (bits - 1) - 1 in
  if value <? low_threshold then (value, Z.to_nat (bits - 1))
  else if mask <? value then (value + low_threshold, Z.to_nat bits)
  else (value, Z.to_nat bits).

(** the main loop; [None]: the loop runs off the end of the 256-entry table (index out of bounds) *)
Fixpoint write_probs (fuel : nat) (probs : list Z) (sum counter : Z) : option (list field) :=
  match fuel with
  | O => None
  | S f =>
      if counter <? sum then
        match probs with
        | [] => None
        | p :: t =>
            let f0 := value_field (sum - counter + 1) (p + 1) in
            if p =? -1 then option_map (cons f0) (write_probs f t sum (counter + 1))
            else if 0 <? p then option_map (cons f0) (write_probs f t sum (counter + p))
            else
              let '(z, r) := count_zeros t in
              match r with
              | [] => None
              | _ => option_map (fun rest => f0 :: zero_fields z ++ rest) (write_probs f r sum counter)
              end
        end
      else Some []
  end.

Definition desc_fields (acc_log : Z) (probs : list Z) : option (list field) :=
  option_map (cons (acc_log - 5, 4%nat)) (write_probs (S (length probs)) probs (2 ^ acc_log) 0).

(** zero bits up to the byte boundary ([write_bits(0, misaligned())]) *)
Definition pad_bits (b : list bit) : list bit := b ++ repeat false ((8 - length b mod 8) mod 8).

Definition desc_bytes (acc_log : Z) (probs : list Z) : option (list Z) :=
  option_map (fun fs => let b := pad_bits (fields_bits fs) in bytes_of_bits b (S (length b))) (desc_fields acc_log probs).

(** a normalised distribution: probabilities >= -1 ("less than one" counts 1), total 2^acc_log, last entry non-zero *)
Definition pw (p : Z) : Z := if p =? -1 then 1 else p.
Fixpoint weight (l : list Z) : Z := match l with [] => 0 | p :: t => pw p + weight t end.
Definition dist_okb (acc_log : Z) (probs : list Z) : bool :=
  forallb (fun p => -1 <=? p) probs && (weight probs =? 2 ^ acc_log) && negb (last probs 1 =? 0).
