(** Model of the block layer of the decoder: literals section, sequences section, sequence execution on the
    decode buffer, block content decoding (literals_section_decoder.rs, sequence_section_decoder.rs,
    sequence_execution.rs, decode_buffer.rs (abstractly: a byte queue, licensed by C04), block_decoder.rs,
    scratch.rs).  Arithmetic kernels and tables are the *generated* definitions. *)
Require Import Zrs.lib.RsPrelude Zrs.gen.Generated Zrs.model.Headers Zrs.model.BitIO Zrs.model.FseDec Zrs.model.HufDec.
Open Scope Z_scope.

(** *** decode buffer, abstractly: the window contents newest byte first, the dictionary content, counters;
    [db_hashed] is the sequence of bytes fed to the hasher so far (newest first) *)
Record dbuf := {
  db_rev : list Z;          (* buffer contents, newest first *)
  db_len : Z;               (* = length db_rev *)
  db_dict : list Z;
  db_window : Z;
  db_total_out : Z;
  db_hashed_rev : list Z;
}.
Definition db_new (window : Z) : dbuf :=
  {| db_rev := []; db_len := 0; db_dict := []; db_window := window; db_total_out := 0; db_hashed_rev := [] |}.
Definition db_reset (b : dbuf) (window : Z) : dbuf := db_new window.

(** [push] counts the bytes; the raw appends below do not (extend_and_fill / extend_from_reader / dictionary) *)
Definition db_append_raw (b : dbuf) (data : list Z) : dbuf :=
  {| db_rev := rev_append data (db_rev b); db_len := db_len b + Z.of_nat (length data); db_dict := db_dict b;
     db_window := db_window b; db_total_out := db_total_out b; db_hashed_rev := db_hashed_rev b |}.
Definition db_add_total (b : dbuf) (n : Z) : dbuf :=
  {| db_rev := db_rev b; db_len := db_len b; db_dict := db_dict b; db_window := db_window b;
     db_total_out := db_total_out b + n; db_hashed_rev := db_hashed_rev b |}.
Definition db_push (b : dbuf) (data : list Z) : dbuf :=
  db_add_total (db_append_raw b data) (Z.of_nat (length data)).

(** append [n] bytes each equal to the byte [off] positions back (overlap allowed): the LZ77 copy *)
Fixpoint lz_copy (n : nat) (off : nat) (rev_buf : list Z) : list Z :=
  match n with
  | O => rev_buf
  | S k => lz_copy k off (nth (off - 1) rev_buf 0 :: rev_buf)
  end.

(** the same copy done in chunks of at most [off] bytes, as [repeat_in_chunks] does (cost O(n + off) instead of
    O(n * off)); proved equal to [lz_copy] in proofs/C09_Lz.v *)
Fixpoint lz_copy_chunks (fuel : nat) (n off : nat) (rev_buf : list Z) : list Z :=
  match fuel with
  | O => rev_buf
  | S f =>
      match n with
      | O => rev_buf
      | _ =>
          let c := Nat.min off n in
          match c with
          | O => rev_buf
          | _ => lz_copy_chunks f (n - c) off (firstn c (skipn (off - c) rev_buf) ++ rev_buf)
          end
      end
  end.
Definition lz_copy_fast (n off : nat) (rev_buf : list Z) : list Z := lz_copy_chunks n n off rev_buf.

(** [firstn n l, skipn n l] when [l] has at least [n] elements, in O(n) *)
Fixpoint split_at (n : nat) (l : list Z) : option (list Z * list Z) :=
  match n with
  | O => Some ([], l)
  | S k => match l with
           | [] => None
           | x :: t => match split_at k t with Some (a, b) => Some (x :: a, b) | None => None end
           end
  end.

Definition db_set_rev (b : dbuf) (r : list Z) (added : Z) : dbuf :=
  {| db_rev := r; db_len := db_len b + added; db_dict := db_dict b; db_window := db_window b;
     db_total_out := db_total_out b; db_hashed_rev := db_hashed_rev b |}.

(** [DecodeBuffer::repeat] (with [repeat_in_chunks] folded into [lz_copy], and [repeat_from_dict]) *)
Definition db_repeat (b : dbuf) (offset match_length : Z) : res dbuf :=
  if db_len b <? offset then
    (* repeat_from_dict *)
    if db_total_out b <=? db_window b then
      let bytes_from_dict := offset - db_len b in
      let dl := Z.of_nat (length (db_dict b)) in
      if dl <? bytes_from_dict then RErr "NotEnoughBytesInDictionary"
      else if bytes_from_dict <? match_length then
        let slice := skipn (Z.to_nat (dl - bytes_from_dict)) (db_dict b) in
        let b1 := db_add_total (db_append_raw b slice) bytes_from_dict in
        (* self.repeat(self.buffer.len(), match_length - bytes_from_dict): offset = whole buffer *)
        let rest := match_length - bytes_from_dict in
        if db_len b1 =? 0 then RPanic "repeat with offset 0 (endless loop)" else
        ROk (db_add_total (db_set_rev b1 (lz_copy_fast (Z.to_nat rest) (Z.to_nat (db_len b1)) (db_rev b1)) rest) rest)
      else
        let low := dl - bytes_from_dict in
        ROk (db_append_raw b (firstn (Z.to_nat match_length) (skipn (Z.to_nat low) (db_dict b))))
    else RErr "OffsetTooBig"
  else
    if (offset =? 0) && (0 <? match_length) then RPanic "repeat with offset 0 (endless loop)" else
    ROk (db_add_total (db_set_rev b (lz_copy_fast (Z.to_nat match_length) (Z.to_nat offset) (db_rev b)) match_length)
                      match_length).

(** *** literals section (decode_literals / decompress_literals) *)
Record lit_section := { ls_type : Z; ls_regen : Z; ls_comp : option Z; ls_streams : option Z }.

Definition take_z (n : Z) (l : list Z) : list Z := firstn (Z.to_nat n) l.
Definition drop_z (n : Z) (l : list Z) : list Z := skipn (Z.to_nat n) l.
Definition zlen (l : list Z) : Z := Z.of_nat (length l).

Fixpoint repeat_z (b : Z) (n : nat) : list Z := match n with O => [] | S k => b :: repeat_z b k end.

(** returns (new Huffman table, literals, bytes read) *)
Definition decode_literals (sec : lit_section) (ht : huf_table) (source : list Z) : res (huf_table * list Z * Z) :=
  if ls_type sec =? 0 then
    if zlen source <? ls_regen sec then RPanic "slice index out of range"
    else ROk (ht, take_z (ls_regen sec) source, ls_regen sec)
  else if ls_type sec =? 1 then
    match source with
    | [] => RPanic "index out of bounds"
    | b :: _ => ROk (ht, repeat_z b (Z.to_nat (ls_regen sec)), 1)
    end
  else
    match ls_comp sec, ls_streams sec with
    | None, _ => RErr "MissingCompressedSize"
    | _, None => RErr "MissingNumStreams"
    | Some csize, Some nstreams =>
        if zlen source <? csize then RPanic "slice index out of range" else
        let source := take_z csize source in
        let* (ht, bytes_read) :=
          (if ls_type sec =? 2 then huf_build_decoder ht source
           else if ht_max_bits ht =? 0 then RErr "UninitializedHuffmanTable"
           else ROk (ht, 0)) in
        if zlen source <? bytes_read then RPanic "slice index out of range" else
        let source := drop_z bytes_read source in
        let* (out_rev, bytes_read) :=
          (if nstreams =? 4 then
             if zlen source <? 6 then RErr "MissingBytesForJumpHeader"
             else
               let jump1 := nth_z source 0 + nth_z source 1 * 256 in
               let jump2 := jump1 + nth_z source 2 + nth_z source 3 * 256 in
               let jump3 := jump2 + nth_z source 4 + nth_z source 5 * 256 in
               let src := drop_z 6 source in
               if zlen src <? jump3 then RErr "MissingBytesForLiterals"
               else
                 let s1 := take_z jump1 src in
                 let s2 := take_z (jump2 - jump1) (drop_z jump1 src) in
                 let s3 := take_z (jump3 - jump2) (drop_z jump2 src) in
                 let s4 := drop_z jump3 src in
                 let* o := huf_decode_stream ht s1 [] true in
                 let* o := huf_decode_stream ht s2 o true in
                 let* o := huf_decode_stream ht s3 o true in
                 let* o := huf_decode_stream ht s4 o true in
                 ROk (o, bytes_read + 6 + zlen src)
           else if nstreams =? 1 then
             let* o := huf_decode_stream ht source [] false in
             ROk (o, bytes_read + zlen source)
           else RPanic "assert num_streams == 1") in
        if negb (zlen out_rev =? ls_regen sec) then RErr "DecodedLiteralCountMismatch"
        else ROk (ht, rev' out_rev, bytes_read)
    end.

(** *** sequences section *)
Record fse_scratch := {
  fs_of : fse_table; fs_of_rle : option Z;
  fs_ll : fse_table; fs_ll_rle : option Z;
  fs_ml : fse_table; fs_ml_rle : option Z;
}.
Definition fse_scratch_new : fse_scratch :=
  {| fs_of := fse_new MAX_OFFSET_CODE; fs_of_rle := None;
     fs_ll := fse_new MAX_LITERAL_LENGTH_CODE; fs_ll_rle := None;
     fs_ml := fse_new MAX_MATCH_LENGTH_CODE; fs_ml_rle := None |}.
Definition fse_scratch_reset (s : fse_scratch) : fse_scratch :=
  {| fs_of := fse_reset (fs_of s); fs_of_rle := None; fs_ll := fse_reset (fs_ll s); fs_ll_rle := None;
     fs_ml := fse_reset (fs_ml s); fs_ml_rle := None |}.
Definition fse_scratch_reinit_from (s other : fse_scratch) : fse_scratch :=
  {| fs_of := fse_reinit_from (fs_of s) (fs_of other); fs_of_rle := fs_of_rle other;
     fs_ll := fse_reinit_from (fs_ll s) (fs_ll other); fs_ll_rle := fs_ll_rle other;
     fs_ml := fse_reinit_from (fs_ml s) (fs_ml other); fs_ml_rle := fs_ml_rle other |}.

(** one table of [maybe_update_fse_tables]: mode 0 predefined, 1 RLE, 2 FSE, 3 repeat.
    returns (table, rle, bytes used) *)
Definition update_one_table (mode : Z) (src : list Z) (t : fse_table) (rle : option Z)
           (max_log max_code def_log : Z) (def_dist : list Z) (rle_err : string)
  : res (fse_table * option Z * Z) :=
  if mode =? 2 then
    let* (t, bytes) := fse_build_decoder t src max_log in ROk (t, None, bytes)
  else if mode =? 1 then
    match src with
    | [] => RErr rle_err
    | b :: _ => if max_code <? b then RErr "MissingByteForRleMlTable" else ROk (t, Some b, 1)
    end
  else if mode =? 0 then
    let* t := fse_build_from_probabilities t def_log def_dist in ROk (t, None, 0)
  else ROk (t, rle, 0).

Definition maybe_update_fse_tables (modes : option Z) (source : list Z) (s : fse_scratch) : res (fse_scratch * Z) :=
  match modes with
  | None => RErr "MissingCompressionMode"
  | Some m =>
      let ll_mode := m / 64 in let of_mode := (m / 16) mod 4 in let ml_mode := (m / 4) mod 4 in
      let* (ll, ll_rle, n1) := update_one_table ll_mode source (fs_ll s) (fs_ll_rle s) LL_MAX_LOG
                                   MAX_LITERAL_LENGTH_CODE LL_DEFAULT_ACC_LOG LITERALS_LENGTH_DEFAULT_DISTRIBUTION
                                   "MissingByteForRleLlTable" in
      if zlen source <? n1 then RPanic "slice index out of range" else
      let of_src := drop_z n1 source in
      let* (of, of_rle, n2) := update_one_table of_mode of_src (fs_of s) (fs_of_rle s) OF_MAX_LOG
                                   MAX_OFFSET_CODE OF_DEFAULT_ACC_LOG OFFSET_DEFAULT_DISTRIBUTION
                                   "MissingByteForRleOfTable" in
      if zlen source <? n1 + n2 then RPanic "slice index out of range" else
      let ml_src := drop_z (n1 + n2) source in
      let* (ml, ml_rle, n3) := update_one_table ml_mode ml_src (fs_ml s) (fs_ml_rle s) ML_MAX_LOG
                                   MAX_MATCH_LENGTH_CODE ML_DEFAULT_ACC_LOG MATCH_LENGTH_DEFAULT_DISTRIBUTION
                                   "MissingByteForRleMlTable" in
      ROk ({| fs_of := of; fs_of_rle := of_rle; fs_ll := ll; fs_ll_rle := ll_rle; fs_ml := ml; fs_ml_rle := ml_rle |},
           n1 + n2 + n3)
  end.

Record sequence := { sq_ll : Z; sq_ml : Z; sq_of : Z }.

Definition code_of (rle : option Z) (st : fse_entry) : Z := match rle with Some c => c | None => e_sym st end.

(** the interleaved three-state loop (decode_sequences_with_rle / _without_rle are the same loop) *)
Fixpoint seq_loop (n : nat) (total : Z) (s : fse_scratch) (ll ml of : fse_entry) (br : rbr) (done : Z)
         (acc_rev : list sequence) : res (list sequence * rbr) :=
  match n with
  | O => ROk (acc_rev, br)
  | S k =>
      let ll_code := code_of (fs_ll_rle s) ll in
      let ml_code := code_of (fs_ml_rle s) ml in
      let of_code := code_of (fs_of_rle s) of in
      let* (ll_value, ll_bits) := lookup_ll_code ll_code in
      let* (ml_value, ml_bits) := lookup_ml_code ml_code in
      if MAX_OFFSET_CODE <? of_code then RErr "UnsupportedOffset"
      else
        let '(obits, ml_add, ll_add, br) := rbr_get_bits_triple br of_code ml_bits ll_bits in
        let offset := obits + 2 ^ of_code in
        if offset =? 0 then RErr "ZeroOffset"
        else
          let sq := {| sq_ll := ll_value + ll_add; sq_ml := ml_value + ml_add; sq_of := offset |} in
          let done := done + 1 in
          let* (ll, ml, of, br) :=
            (if done <? total then
               let* (ll, br) := (match fs_ll_rle s with None => fse_update_state (fs_ll s) ll br | Some _ => ROk (ll, br) end) in
               let* (ml, br) := (match fs_ml_rle s with None => fse_update_state (fs_ml s) ml br | Some _ => ROk (ml, br) end) in
               let* (of, br) := (match fs_of_rle s with None => fse_update_state (fs_of s) of br | Some _ => ROk (of, br) end) in
               ROk (ll, ml, of, br)
             else ROk (ll, ml, of, br)) in
          if rbr_bits_remaining br <? 0 then RErr "NotEnoughBytesForNumSequences"
          else seq_loop k total s ll ml of br done (sq :: acc_rev)
  end.

Definition decode_sequences (num_sequences : Z) (modes : option Z) (source : list Z) (s : fse_scratch)
  : res (fse_scratch * list sequence) :=
  let* (s, bytes_read) := maybe_update_fse_tables modes source s in
  if zlen source <? bytes_read then RPanic "slice index out of range" else
  let br := rbr_new (drop_z bytes_read source) in
  match rbr_skip_padding br with
  | None => RErr "ExtraPadding"
  | Some br =>
      let* (ll, br) := (match fs_ll_rle s with None => fse_init_state (fs_ll s) br | Some _ => ROk (fse_dec_new (fs_ll s), br) end) in
      let* (of, br) := (match fs_of_rle s with None => fse_init_state (fs_of s) br | Some _ => ROk (fse_dec_new (fs_of s), br) end) in
      let* (ml, br) := (match fs_ml_rle s with None => fse_init_state (fs_ml s) br | Some _ => ROk (fse_dec_new (fs_ml s), br) end) in
      let* (acc_rev, br) := seq_loop (Z.to_nat num_sequences) num_sequences s ll ml of br 0 [] in
      if 0 <? rbr_bits_remaining br then RErr "ExtraBits" else ROk (s, rev' acc_rev)
  end.

(** *** sequence execution *)
Record scratch := {
  sc_huf : huf_table;
  sc_fse : fse_scratch;
  sc_buf : dbuf;
  sc_hist : list Z;        (* offset history, 3 entries *)
}.

Fixpoint exec_loop (seqs : list sequence) (lits : list Z) (buf : dbuf) (hist : list Z) (seq_sum : Z)
  : res (dbuf * list Z * list Z * Z) :=
  match seqs with
  | [] => ROk (buf, hist, lits, seq_sum)
  | sq :: t =>
      if MAX_BLOCK_SIZE <? seq_sum + sq_ll sq + sq_ml sq then RErr "BlockTooLarge" else
      let* (buf, lits) :=
        (if 0 <? sq_ll sq then
           match split_at (Z.to_nat (sq_ll sq)) lits with
           | None => RErr "NotEnoughBytesForSequence"
           | Some (a, rest) => ROk (db_push buf a, rest)
           end
         else ROk (buf, lits)) in
      let '(actual, hist) := do_offset_history (sq_of sq) (sq_ll sq) hist in
      if actual =? 0 then RErr "ZeroOffset"
      else
        let* buf := (if 0 <? sq_ml sq then db_repeat buf actual (sq_ml sq) else ROk buf) in
        let seq_sum := seq_sum + sq_ml sq + sq_ll sq in
        if 2 ^ 32 <=? seq_sum then RPanic "attempt to add with overflow" else
        exec_loop t lits buf hist seq_sum
  end.

Definition execute_sequences (seqs : list sequence) (lits : list Z) (buf : dbuf) (hist : list Z)
  : res (dbuf * list Z) :=
  let old := db_len buf in
  let* (buf, hist, rest, seq_sum) := exec_loop seqs lits buf hist 0 in
  if (0 <? zlen rest) && (MAX_BLOCK_SIZE <? seq_sum + zlen rest) then RErr "BlockTooLarge" else
  let buf := if 0 <? zlen rest then db_push buf rest else buf in
  let seq_sum := seq_sum + zlen rest in
  if negb (seq_sum mod 2 ^ 32 =? db_len buf - old) then RPanic "assert seq_sum == diff"
  else ROk (buf, hist).

(** *** one block body *)
Definition decompress_block (content_size : Z) (sc : scratch) (raw : list Z) : res scratch :=
  match lit_header_parse raw with
  | RErr e => RErr e
  | RPanic e => RPanic e
  | ROk (used, ty, regen, comp, streams) =>
      let raw1 := drop_z used raw in
      if MAX_BLOCK_SIZE <? regen then RErr "LiteralsTooLarge" else
      let upper := match comp with Some x => x | None => if ty =? 1 then 1 else regen end in
      if zlen raw1 <? upper then RErr "MalformedSectionHeader"
      else
        let sec := {| ls_type := ty; ls_regen := regen; ls_comp := comp; ls_streams := streams |} in
        let* (ht, lits, used_lit) := decode_literals sec (sc_huf sc) (take_z upper raw1) in
        if negb (regen =? zlen lits) then RPanic "assert regenerated_size == literals_buffer.len()"
        else if negb (used_lit =? upper) then RPanic "assert bytes_used_in_literals_section == upper_limit"
        else
          let raw2 := drop_z upper raw1 in
          match sequences_header_parse 0 None raw2 with
          | RErr e => RErr e
          | RPanic e => RPanic e
          | ROk (used_seq, nseq, modes) =>
              let raw3 := drop_z used_seq raw2 in
              if negb (used + used_lit + used_seq + zlen raw3 =? content_size) then RPanic "assert section sizes"
              else if negb (nseq =? 0) then
                let* (fs, seqs) := decode_sequences nseq modes raw3 (sc_fse sc) in
                let* (buf, hist) := execute_sequences seqs lits (sc_buf sc) (sc_hist sc) in
                ROk {| sc_huf := ht; sc_fse := fs; sc_buf := buf; sc_hist := hist |}
              else if negb (zlen raw3 =? 0) then RErr "ExtraBits"
              else ROk {| sc_huf := ht; sc_fse := sc_fse sc; sc_buf := db_push (sc_buf sc) lits; sc_hist := sc_hist sc |}
          end
  end.

(** source = the remaining input bytes; read_exact n *)
Definition read_exact (n : Z) (src : list Z) : option (list Z * list Z) :=
  if zlen src <? n then None else Some (take_z n src, drop_z n src).

(** [decode_block_content]: returns (scratch, bytes read, remaining source) *)
Definition decode_block_content (ty decompressed_size content_size : Z) (sc : scratch) (src : list Z)
  : res (scratch * Z * list Z) :=
  if ty =? 1 then
    match read_exact 1 src with
    | None => RErr "ReadError"
    | Some (b, rest) =>
        let buf := db_append_raw (sc_buf sc) (repeat_z (nth_z b 0) (Z.to_nat decompressed_size)) in
        ROk ({| sc_huf := sc_huf sc; sc_fse := sc_fse sc; sc_buf := buf; sc_hist := sc_hist sc |}, 1, rest)
    end
  else if ty =? 0 then
    match read_exact decompressed_size src with
    | None => RErr "ReadError"
    | Some (d, rest) =>
        ROk ({| sc_huf := sc_huf sc; sc_fse := sc_fse sc; sc_buf := db_append_raw (sc_buf sc) d; sc_hist := sc_hist sc |},
             decompressed_size, rest)
    end
  else if ty =? 2 then
    match read_exact content_size src with
    | None => RErr "ReadError"
    | Some (raw, rest) => let* sc := decompress_block content_size sc raw in ROk (sc, content_size, rest)
    end
  else RPanic "reserved block type".
