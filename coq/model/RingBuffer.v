(** Model of ruzstd/src/decoding/ringbuffer.rs (the crate's only unsafe code).

    State: [cap], [head], [tail] and the allocation as a function [nat -> option Z]: [None] is a cell that was
    never written since the allocation was made (reading it is a fault), indices [>= cap] are outside the
    allocation (touching them is a fault).  Every raw-pointer access of the Rust code goes through
    [copy_region] / [write_region] / [fill_region], which return [None] (= memory fault: out of bounds, read of
    uninitialised memory, or overlap in a [copy_nonoverlapping]) exactly when the access would be undefined
    behaviour.  Operation results: [Done s'], [Panic] (a Rust panic: division by zero, explicit panic!) or
    [Fault] (undefined behaviour).

    Modelling decisions (all validated by the correspondence run, which compares (cap, head, tail), contents and
    the recorded (src, dst, copy_at_least) triples of [copy_bytes_overshooting] with this model):
    - a chunked / overshooting copy is modelled by the *set of cells it touches* ([touched]) and a bulk copy of
      that many cells; the bulk copy faults on overlap, which is stronger than what the chunk loop needs;
    - allocation always succeeds; [usize] arithmetic is unbounded [nat] (sizes here are bounded by the window and
      block sizes, far below 2^63). *)
From Coq Require Import String Arith Bool Lia ZArith List.
Import ListNotations.

Record rb := mkrb { cap : nat; head : nat; tail : nat; mem : nat -> option Z }.

Inductive out (A : Type) := Done (a : A) | Panic (s : string) | Fault (s : string).
Arguments Done {A} a.
Arguments Panic {A} s.
Arguments Fault {A} s.

Definition new_rb : rb := mkrb 0 0 0 (fun _ => None).

(** [data_slice_lengths] : (len_after_head, len_to_tail) *)
Definition data_lens (s : rb) : nat * nat :=
  if head s <=? tail s then (tail s - head s, 0) else (cap s - head s, tail s).
(** [free_slice_lengths] : (len_to_head, len_after_tail) *)
Definition free_lens (s : rb) : nat * nat :=
  if tail s <? head s then (0, head s - tail s) else (head s, cap s - tail s).

Definition len (s : rb) : nat := fst (data_lens s) + snd (data_lens s).
Definition free (s : rb) : nat := fst (free_lens s) + snd (free_lens s) - 1.   (* saturating_sub(1) *)

Definition clear (s : rb) : rb := mkrb (cap s) 0 0 (mem s).

(** *** raw memory accesses *)
Definition is_some {A} (o : option A) : bool := match o with Some _ => true | None => false end.
Definition all_init (m : nat -> option Z) (src n : nat) : bool :=
  forallb (fun i => is_some (m (src + i))) (seq 0 n).
Definition disjoint (a b n : nat) : bool := (n =? 0) || (a + n <=? b) || (b + n <=? a).

(** ptr::copy_nonoverlapping(src, dst, n) inside an allocation of [c] cells *)
Definition copy_region (m : nat -> option Z) (c src dst n : nat) : option (nat -> option Z) :=
  if (src + n <=? c) && (dst + n <=? c) && disjoint src dst n && all_init m src n
  then Some (fun j => if (dst <=? j) && (j <? dst + n) then m (src + (j - dst)) else m j)
  else None.

(** copy from a (safe) Rust slice into the allocation *)
Definition write_region (m : nat -> option Z) (c dst : nat) (data : list Z) : option (nat -> option Z) :=
  if dst + length data <=? c
  then Some (fun j => if (dst <=? j) && (j <? dst + length data) then Some (nth (j - dst) data 0%Z) else m j)
  else None.

(** ptr::write_bytes *)
Definition fill_region (m : nat -> option Z) (c dst : nat) (b : Z) (n : nat) : option (nat -> option Z) :=
  if dst + n <=? c
  then Some (fun j => if (dst <=? j) && (j <? dst + n) then Some b else m j)
  else None.

(** *** usize::next_power_of_two, reserve *)
Definition npot (x : nat) : nat := if x <=? 1 then 1 else 2 ^ (Nat.log2_up x).

Definition reserve_amortized (s : rb) (amount : nat) : out rb :=
  let new_cap := Nat.max (npot (cap s)) (npot (cap s + amount)) + 1 in
  let fresh : nat -> option Z := fun _ => None in
  if 0 <? cap s then
    let '(l1, l2) := data_lens s in
    (* new_buf[0..l1] <- old[head..head+l1] ; new_buf[l1..l1+l2] <- old[0..l2]  (two distinct allocations) *)
    if (head s + l1 <=? cap s) && (l2 <=? cap s) && all_init (mem s) (head s) l1 && all_init (mem s) 0 l2
       && (l1 + l2 <=? new_cap)
    then Done (mkrb new_cap 0 (l1 + l2)
                    (fun j => if j <? l1 then mem s (head s + j)
                              else if j <? l1 + l2 then mem s (j - l1) else None))
    else Fault "reserve: copy out of bounds or from uninitialised memory"
  else Done (mkrb new_cap (head s) (tail s) fresh).

Definition reserve (s : rb) (amount : nat) : out rb :=
  if amount <=? free s then Done s else reserve_amortized s (amount - free s).

Definition bind {A B} (o : out A) (f : A -> out B) : out B :=
  match o with Done a => f a | Panic e => Panic e | Fault e => Fault e end.

Definition advance_tail (s : rb) (m : nat -> option Z) (n : nat) : out rb :=
  if cap s =? 0 then Panic "remainder by zero" else Done (mkrb (cap s) (head s) ((tail s + n) mod cap s) m).

(** *** extend (append a slice) *)
Definition extend (s : rb) (data : list Z) : out rb :=
  match data with
  | [] => Done s
  | _ =>
      bind (reserve s (length data)) (fun s =>
      let '(to_head, after_tail) := free_lens s in
      let in_f1 := Nat.min (length data) after_tail in
      let in_f2 := length data - in_f1 in
      match write_region (mem s) (cap s) (tail s) (firstn in_f1 data) with
      | None => Fault "extend: first part out of bounds"
      | Some m1 =>
          match (if 0 <? in_f2 then write_region m1 (cap s) 0 (skipn in_f1 data) else Some m1) with
          | None => Fault "extend: second part out of bounds"
          | Some m2 => advance_tail s m2 (length data)
          end
      end)
  end.

Definition extend_and_fill (s : rb) (b : Z) (n : nat) : out rb :=
  if n =? 0 then Done s else
  bind (reserve s n) (fun s =>
  let '(to_head, after_tail) := free_lens s in
  let fill1 := Nat.min after_tail n in
  match fill_region (mem s) (cap s) (tail s) b fill1 with
  | None => Fault "fill: first part out of bounds"
  | Some m1 =>
      match (if fill1 <? n then fill_region m1 (cap s) 0 b (n - fill1) else Some m1) with
      | None => Fault "fill: second part out of bounds"
      | Some m2 => advance_tail s m2 n
      end
  end).

(** [extend_from_reader]: zero-fill, then two [read_exact]s; the reader is an oracle giving either [n] bytes
    or failing ([None]) *before* or *between* the halves (the tail is only advanced on success) *)
Definition extend_from_reader (s : rb) (n : nat) (r1 r2 : option (list Z)) : out (rb * bool) :=
  if n =? 0 then Done (s, true) else
  bind (reserve s n) (fun s =>
  let '(to_head, after_tail) := free_lens s in
  let fill1 := Nat.min after_tail n in
  match fill_region (mem s) (cap s) (tail s) 0%Z fill1 with
  | None => Fault "reader: first part out of bounds"
  | Some m1 =>
      match r1 with
      | None => Done (mkrb (cap s) (head s) (tail s) m1, false)
      | Some d1 =>
          match write_region m1 (cap s) (tail s) (firstn fill1 d1) with
          | None => Fault "reader: first part out of bounds"
          | Some m1' =>
              if fill1 <? n then
                match fill_region m1' (cap s) 0 0%Z (n - fill1) with
                | None => Fault "reader: second part out of bounds"
                | Some m2 =>
                    match r2 with
                    | None => Done (mkrb (cap s) (head s) (tail s) m2, false)
                    | Some d2 =>
                        match write_region m2 (cap s) 0 (firstn (n - fill1) d2) with
                        | None => Fault "reader: second part out of bounds"
                        | Some m2' => bind (advance_tail s m2' n) (fun s' => Done (s', true))
                        end
                    end
                end
              else bind (advance_tail s m1' n) (fun s' => Done (s', true))
          end
      end
  end).

Definition drop_first_n (s : rb) (amount : nat) : out rb :=
  let amount := Nat.min amount (len s) in
  if cap s =? 0 then Panic "remainder by zero"
  else Done (mkrb (cap s) ((head s + amount) mod cap s) (tail s) (mem s)).

(** [as_slices]: reading the two live segments (fault if not inside the allocation or not initialised) *)
Definition read_region (m : nat -> option Z) (c src n : nat) : option (list Z) :=
  if (src + n <=? c) && all_init m src n
  then Some (map (fun i => match m (src + i) with Some b => b | None => 0%Z end) (seq 0 n))
  else None.

Definition as_slices (s : rb) : out (list Z * list Z) :=
  let '(l1, l2) := data_lens s in
  match read_region (mem s) (cap s) (head s) l1, read_region (mem s) (cap s) 0 l2 with
  | Some a, Some b => Done (a, b)
  | _, _ => Fault "as_slices: uninitialised or out of bounds"
  end.

(** *** copy_bytes_overshooting: how many cells one call touches, for chunk size [K] *)
Definition next_multiple (n k : nat) : nat := ((n + k - 1) / k) * k.
Definition touched (k src_len dst_len n : nat) : nat :=
  let mn := Nat.min src_len dst_len in
  if (k <=? mn) && (n <=? k) then k
  else let mult := next_multiple n k in
       if mult <=? mn then mult else n.

(** one call: (src offset, src region length) (dst offset, dst region length) copy_at_least *)
Definition copy_overshooting (k : nat) (m : nat -> option Z) (c : nat) (src : nat * nat) (dst : nat * nat) (n : nat)
  : option (nat -> option Z) :=
  copy_region m c (fst src) (fst dst) (touched k (snd src) (snd dst) n).

(** [extend_from_within_unchecked] with its three geometric cases *)
Definition extend_from_within_unchecked (k : nat) (s : rb) (start n : nat) : out rb :=
  let c := cap s in let h := head s in let t := tail s in
  let r :=
    if h <? t then
      let after_tail := Nat.min n (c - t) in
      let src := (h + start, t - h - start) in
      let dst := (t, c - t) in
      match copy_overshooting k (mem s) c src dst after_tail with
      | None => None
      | Some m1 =>
          if after_tail <? n then
            copy_overshooting k m1 c (fst src + after_tail, snd src - after_tail) (0, h) (n - after_tail)
          else Some m1
      end
    else if c <? h + start then
      if c =? 0 then None else
      let start' := (h + start) mod c in
      copy_overshooting k (mem s) c (start', t - start') (t, h - t) n
    else
      let after_start := Nat.min n (c - h - start) in
      let src := (h + start, c - h - start) in
      let dst := (t, h - t) in
      match copy_overshooting k (mem s) c src dst after_start with
      | None => None
      | Some m1 =>
          if after_start <? n then
            copy_overshooting k m1 c (0, t) (fst dst + after_start, snd dst - after_start) (n - after_start)
          else Some m1
      end in
  match r with
  | None => Fault "extend_from_within: out of bounds, uninitialised source or overlapping copy"
  | Some m' => advance_tail s m' n
  end.

(** the safe wrapper *)
Definition extend_from_within (k : nat) (s : rb) (start n : nat) : out rb :=
  if len s <? start + n then Panic "start + len > self.len()"
  else bind (reserve s n) (fun s => extend_from_within_unchecked k s start n).

(** *** abstraction: the byte queue the buffer represents *)
Definition idx (s : rb) (i : nat) : nat := if head s + i <? cap s then head s + i else head s + i - cap s.
Definition cell (s : rb) (i : nat) : Z := match mem s (idx s i) with Some b => b | None => 0%Z end.
Definition abs (s : rb) : list Z := map (cell s) (seq 0 (len s)).

(** cells of the live region *)
Definition live (s : rb) (i : nat) : Prop :=
  if head s <=? tail s then head s <= i < tail s else (head s <= i < cap s \/ i < tail s).

(** the documented invariants 1-4 *)
Definition Inv (s : rb) : Prop :=
  (cap s = 0 -> head s = 0 /\ tail s = 0) /\
  (0 < cap s -> head s < cap s /\ tail s < cap s) /\
  (forall i, live s i -> i < cap s /\ exists b, mem s i = Some b).

(** *** operations of the op-sequence interface used by the correspondence and by the lifted theorems *)
Inductive op :=
| OExtend (data : list Z)
| OFill (b : Z) (n : nat)
| OReader (n : nat) (r1 r2 : option (list Z))
| ODrop (n : nat)
| OReserve (n : nat)
| OClear
| OWithin (start n : nat).          (* the safe wrapper: checks start + n <= len, reserves, then the unsafe copy *)

Definition step (k : nat) (s : rb) (o : op) : out rb :=
  match o with
  | OExtend d => extend s d
  | OFill b n => extend_and_fill s b n
  | OReader n r1 r2 => bind (extend_from_reader s n r1 r2) (fun p => Done (fst p))
  | ODrop n => drop_first_n s n
  | OReserve n => reserve s n
  | OClear => Done (clear s)
  | OWithin st n => extend_from_within k s st n
  end.

Fixpoint run (k : nat) (s : rb) (ops : list op) : out rb :=
  match ops with
  | [] => Done s
  | o :: t => bind (step k s o) (fun s' => run k s' t)
  end.
