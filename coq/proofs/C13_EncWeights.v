(** C13: the weights the table writer derives back from the code lengths ([HuffmanEncoder::weights], model
    [enc_weights]) are the weights the code was built from, for every complete weight list whose smallest weight is 1
    (the compressor's shape has that for every alphabet size); symbols of weight 0 get no code. *)
Require Import Zrs.lib.RsPrelude Zrs.lib.Sweep Zrs.model.HufEnc.
Require Import Zrs.proofs.C13_Huffman Zrs.proofs.C13_EncCanon.
Open Scope Z_scope.

Lemma assign_enc_length es : forall M cc cw cb codes, Forall (fun e => 0 <= fst e < Z.of_nat (length codes)) es ->
  length (assign_enc es M cc cw cb codes) = length codes.
Proof.
  induction es as [|[sym w] t IH]; intros M cc cw cb codes Hr; cbn [assign_enc]; [reflexivity|].
  inversion Hr as [|? ? Hsym Hr']; subst. cbn [fst] in Hsym.
  destruct (if negb (cw =? w) then (cc / 2 ^ (w - cw), M - w + 1, w) else (cc, cb, cw)) as [[cc1 cb1] cw1].
  assert (L1 : length (firstn (Z.to_nat sym) codes ++ [(cc1, cb1)] ++ skipn (S (Z.to_nat sym)) codes) = length codes).
  { rewrite !app_length, firstn_length, skipn_length. cbn [length]. lia. }
  rewrite IH; [exact L1|]. rewrite L1. exact Hr'.
Qed.

Theorem enc_codes_length W nmax codes : Forall (fun w => 0 <= w <= Z.of_nat nmax) W ->
  enc_build_from_weights W = ROk codes -> length codes = length W.
Proof.
  intros Hw Hb. unfold enc_build_from_weights in Hb. destruct (is_pow2z (kraft W)); cbn [negb] in Hb; [|discriminate]. injection Hb as <-.
  rewrite (sorted_entries_groups nmax W 0 Hw). rewrite assign_enc_length; [apply map_length|].
  apply Forall_forall. intros e He. destruct (groups_spec _ _ _ _ _ He) as (_ & B & _). rewrite map_length. lia.
Qed.

Theorem enc_codes_unused W nmax codes : Forall (fun w => 0 <= w <= Z.of_nat nmax) W ->
  enc_build_from_weights W = ROk codes ->
  forall s, 0 <= s < Z.of_nat (length W) -> nth (Z.to_nat s) W (-1) = 0 -> nth (Z.to_nat s) codes (0, 0) = (0, 0).
Proof.
  intros Hw Hb s Hs Hz. unfold enc_build_from_weights in Hb.
  destruct (is_pow2z (kraft W)) eqn:Ep; cbn [negb] in Hb; [|discriminate]. injection Hb as <-.
  unfold is_pow2z in Ep. apply andb_prop in Ep as [Ep1 Ep2].
  set (M := Z.log2 (kraft W)) in *. assert (HK : kraft W = 2 ^ M) by lia. pose proof (Z.log2_nonneg (kraft W)) as HM0. fold M in HM0.
  rewrite (sorted_entries_groups nmax W 0 Hw).
  rewrite assign_enc_nth; [|apply groups_nodup| |lia].
  2:{ apply Forall_forall. intros e He. destruct (groups_spec _ _ _ _ _ He) as (_ & B & _). rewrite map_length. lia. }
  change 0 with (Z.of_nat 0) at 1.
  rewrite (acode_groups W M nmax 0 0 0 0 s ltac:(lia) ltac:(cbn [below]; lia)); [|intros k Hk; apply (kraft_divides W nmax M Hw HK HM0); lia|lia].
  cbv zeta. rewrite Hz. assert (Z.of_nat 0 <? 0 = false) as -> by lia. rewrite andb_false_r. cbn [andb].
  clear. generalize (Z.to_nat s). induction W as [|x t IH]; intros [|i]; cbn [map nth]; auto.
Qed.

Lemma fold_max_snd (codes : list (Z * Z)) M : 0 <= M -> (forall c, In c codes -> snd c <= M) -> (exists c, In c codes /\ snd c = M) ->
  fold_right (fun c acc => Z.max (snd c) acc) 0 codes = M.
Proof.
  intros HM Hle [c0 [Hin E]].
  assert (Hub : fold_right (fun c acc => Z.max (snd c) acc) 0 codes <= M).
  { clear Hin. induction codes as [|c t IH]; cbn [fold_right]; [lia|]. pose proof (Hle c (or_introl eq_refl)). specialize (IH (fun x Hx => Hle x (or_intror Hx))). lia. }
  assert (Hlb : M <= fold_right (fun c acc => Z.max (snd c) acc) 0 codes).
  { clear Hub Hle. induction codes as [|c t IH]; cbn [fold_right In] in *; [contradiction|]. destruct Hin as [->|Hin]; [lia|]. specialize (IH Hin). lia. }
  lia.
Qed.

Theorem enc_weights_are_the_weights W codes : let M := Z.log2 (kraft W) in
  Forall (fun w => 0 <= w <= M) W -> In 1 W -> enc_build_from_weights W = ROk codes -> enc_weights codes = W.
Proof.
  intros M Hw H1 Hb.
  assert (HM0 : 0 <= M) by apply Z.log2_nonneg.
  assert (Hw' : Forall (fun w => 0 <= w <= Z.of_nat (Z.to_nat M)) W) by (eapply Forall_impl; [|exact Hw]; cbn; intros; lia).
  pose proof (enc_codes_length W _ codes Hw' Hb) as L.
  pose proof (enc_codes_closed_form W _ codes Hw' Hb) as Hused. cbv zeta in Hused. fold M in Hused.
  pose proof (enc_codes_unused W _ codes Hw' Hb) as Hun.
  assert (Hnth : forall i, (i < length W)%nat -> 0 <= nth i W (-1) <= M).
  { intros i Hi. rewrite Forall_forall in Hw. apply Hw. apply nth_In. exact Hi. }
  assert (Hsnd : forall i, (i < length W)%nat -> snd (nth i codes (0, 0)) = if 0 <? nth i W (-1) then M - nth i W (-1) + 1 else 0).
  { intros i Hi. pose proof (Hnth i Hi) as R. destruct (Z.ltb_spec 0 (nth i W (-1))) as [Hp|Hp].
    - pose proof (Hused (Z.of_nat i) ltac:(lia)) as E. rewrite Nat2Z.id in E. rewrite (E Hp). reflexivity.
    - pose proof (Hun (Z.of_nat i) ltac:(lia)) as E. rewrite Nat2Z.id in E. rewrite E by lia. reflexivity. }
  assert (Emx : fold_right (fun c acc => Z.max (snd c) acc) 0 codes = M).
  { apply fold_max_snd; [exact HM0| |].
    - intros c Hc. destruct (In_nth _ _ (0, 0) Hc) as (i & Hi & <-). rewrite L in Hi. rewrite (Hsnd i Hi). pose proof (Hnth i Hi). destruct (0 <? nth i W (-1)) eqn:E; lia.
    - destruct (In_nth _ _ (-1) H1) as (i & Hi & Ei). exists (nth i codes (0, 0)). split; [apply nth_In; lia|]. rewrite (Hsnd i Hi), Ei. cbn [Z.ltb Z.compare]. lia. }
  unfold enc_weights. rewrite Emx. set (f := fun c : Z * Z => if snd c =? 0 then 0 else M - snd c + 1).
  apply (nth_ext _ _ 0 (-1)); [rewrite map_length; exact L|].
  intros i Hi. rewrite map_length, L in Hi.
  rewrite (nth_indep (map f codes) 0 (f (0, 0))) by (rewrite map_length; lia). rewrite map_nth. unfold f.
  rewrite (Hsnd i Hi). pose proof (Hnth i Hi). destruct (Z.ltb_spec 0 (nth i W (-1))).
  - destruct (Z.eqb_spec (M - nth i W (-1) + 1) 0); lia.
  - cbn [Z.eqb]. lia.
Qed.

(** the compressor's weight multiset contains the weight 1 for every alphabet size *)
Definition shape_one_check (n : Z) : bool := match shape n with ROk ws => existsb (Z.eqb 1) ws | _ => false end.
Lemma shape_one_sweep : sweep shape_one_check 2 257 = true.
Proof. vm_compute. reflexivity. Qed.
Theorem shape_has_one n sh : 2 <= n <= 256 -> shape n = ROk sh -> In 1 sh.
Proof.
  intros H E. pose proof (sweep_spec _ _ _ shape_one_sweep n ltac:(lia)) as C. unfold shape_one_check in C. rewrite E in C.
  apply existsb_exists in C as (x & Hx & Ex). apply Z.eqb_eq in Ex. subst x. exact Hx.
Qed.
