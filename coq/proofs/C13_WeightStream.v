(** C13: the FSE-compressed Huffman weights.  The compressor writes the weights with two interleaved FSE states sharing
    one table ([FSEEncoder::encode_interleaved]); the decoder's two-state loop ([fse_weights_loop]) reads them back in
    order and stops exactly when the stream is exhausted (which needs every state to carry at least one bit -- the
    "avoid zero bits" option of the table builder). *)
Require Import Zrs.lib.RsPrelude Zrs.model.BitIO Zrs.model.BitStream Zrs.model.FseDec Zrs.model.HufDec Zrs.model.BlockDec Zrs.model.SeqEnc Zrs.model.WeightEnc.
Require Import Zrs.proofs.C12_Stream Zrs.proofs.C12_SeqStream.
Open Scope Z_scope.

Lemma tfields_step s0 s1 s2 r : tfields (s0 :: s1 :: s2 :: r) = (es_index s2 - es_base s0, es_bits s0) :: tfields (s1 :: s2 :: r).
Proof. reflexivity. Qed.

Definition ent (sym : Z) (s : enc_state) : fse_entry := {| e_base := es_base s; e_bits := Z.of_nat (es_bits s); e_sym := sym |}.

Lemma sts_length E data : length (sts E data) = length data.
Proof. induction data as [|x t IH]; cbn [sts length]; congruence. Qed.

Lemma beyond_reads n : 1 <= n -> rbr_get_bits (rd []) n = (0, {| r_rest := []; r_left := 0; r_extra := n |}).
Proof.
  intros Hn. unfold rbr_get_bits, rd. cbn [r_left r_rest r_extra length]. destruct (Z.leb_spec n 0); [lia|].
  destruct (Z.leb_spec n (Z.of_nat 0)); [lia|]. cbn. f_equal. f_equal. lia.
Qed.

Section W.
  Variables (D : fse_table) (E : enc_table) (syms : list Z).
  Hypothesis Hag : agree D E syms.
  Hypothesis Hbits : forall sym, In sym syms -> (1 <= es_bits (et_start E sym))%nat /\ forall idx, 0 <= idx < t_len D -> (1 <= es_bits (et_next E sym idx))%nat.
  Hypothesis Hbase : forall sym, In sym syms -> es_base (et_start E sym) < t_len D.

  (** every state is the decoder's entry at its index, carries a bit, and has its base inside the table *)
  Definition good (sym : Z) (s : enc_state) : Prop :=
    entry_is D sym s /\ (1 <= es_bits s)%nat /\ es_base s < t_len D.

  Lemma sts_good data : Forall (fun x => In x syms) data -> Forall2 good data (sts E data).
  Proof.
    induction data as [|x t IH]; intros H; cbn [sts]; [constructor|]. inversion H as [|? ? Hx Ht]; subst. specialize (IH Ht).
    constructor; [|exact IH].
    destruct Hag as (_ & _ & G). destruct (G x Hx) as (Gs & Gn). destruct (Hbits x Hx) as (Bs & Bn).
    destruct (sts E t) as [|s1 [|s2 r]] eqn:Es.
    - split; [exact Gs|]. split; [exact Bs|apply Hbase; exact Hx].
    - split; [exact Gs|]. split; [exact Bs|apply Hbase; exact Hx].
    - (* the state two places later is a good state: its index is in range *)
      assert (Hi : 0 <= es_index s2 < t_len D).
      { inversion IH as [|? ? ? ? _ IH1]; subst. inversion IH1 as [|? ? ? ? G2 _]; subst. destruct G2 as ((Hi & _) & _). exact Hi. }
      destruct (Gn _ Hi) as (Ge & Hr). split; [exact Ge|]. split; [apply Bn; exact Hi|lia].
  Qed.

  (** a failing update: the stream is exhausted, the state carries a bit, so the reader goes negative *)
  Lemma update_beyond sym s : good sym s ->
    exists st' br', fse_update_state D (ent sym s) (rd []) = ROk (st', br') /\ rbr_bits_remaining br' <= -1.
  Proof.
    intros (_ & Hb & Hbs). unfold fse_update_state, ent. cbn [e_bits e_base].
    rewrite beyond_reads by lia. destruct (Z.leb_spec (t_len D) (es_base s + 0)); [lia|].
    eexists _, _. split; [reflexivity|]. unfold rbr_bits_remaining. cbn [r_left r_extra]. lia.
  Qed.

  Lemma ent_is sym s : entry_is D sym s -> nth_e (t_decode D) (es_index s) = ent sym s.
  Proof. intros (_ & He). exact He. Qed.

  (** a real transition from the state of [x] into the state [s2] two places later *)
  Lemma update_real x s0 s2 A : In x syms -> 0 <= es_index s2 < t_len D -> s0 = et_next E x (es_index s2) ->
    fse_update_state D (ent x s0) (rd (rev (fields_bits (A ++ [(es_index s2 - es_base s0, es_bits s0)]))))
    = ROk (nth_e (t_decode D) (es_index s2), rd (rev (fields_bits A))).
  Proof. intros Hx Hi ->. apply (update_reads D E syms x _ (es_index s2) A Hag Hx Hi eq_refl). Qed.

  Lemma rd_nonneg s : rbr_bits_remaining (rd s) <=? -1 = false.
  Proof. rewrite rd_remaining. apply Z.leb_gt. lia. Qed.

  Lemma weights_loop_reads data : forall fuel acc n,
    (2 <= length data)%nat -> Forall (fun x => In x syms) data -> n + Z.of_nat (length data) <= 257 -> (length data < fuel + 2)%nat ->
    match sts E data, data with
    | s0 :: s1 :: _, a :: b :: _ =>
        fse_weights_loop fuel D (ent a s0) (ent b s1) (rd (rev (fields_bits (rev (tfields (sts E data)))))) acc n = ROk (rev data ++ acc)
    | _, _ => True
    end.
  Proof.
    assert (G : forall k dat, (length dat <= k)%nat -> forall fuel acc n,
      (2 <= length dat)%nat -> Forall (fun x => In x syms) dat -> n + Z.of_nat (length dat) <= 257 -> (length dat < fuel + 2)%nat ->
      match sts E dat, dat with
      | s0 :: s1 :: _, a :: b :: _ =>
          fse_weights_loop fuel D (ent a s0) (ent b s1) (rd (rev (fields_bits (rev (tfields (sts E dat)))))) acc n = ROk (rev dat ++ acc)
      | _, _ => True
      end).
    { induction k as [|k IH]; intros dat Hk fuel acc n Hl Hin Hn Hf; [lia|].
      destruct dat as [|a [|b rest]]; try (cbn in Hl; lia).
      pose proof (sts_good _ Hin) as HG. cbn [sts] in HG |- *.
      inversion Hin as [|? ? Ha Hin1]; subst. inversion Hin1 as [|? ? Hb Hin2]; subst.
      destruct fuel as [|f]; [cbn in Hf; cbn in Hl; lia|]. cbn [fse_weights_loop].
      destruct rest as [|c rest2].
      - (* exactly two symbols left: no transition; the update of the first state goes beyond the stream *)
        cbn [sts] in HG |- *. cbn [tfields rev fields_bits flat_map].
        inversion HG as [|? ? ? ? Ga HG1]; subst. inversion HG1 as [|? ? ? ? Gb _]; subst.
        destruct (update_beyond a _ Ga) as (st' & br' & -> & Hneg). cbn [rbind e_sym ent].
        destruct (Z.leb_spec (rbr_bits_remaining br') (-1)); [|lia]. reflexivity.
      - destruct rest2 as [|e rest3].
        + (* three symbols: one transition, then the second state's update goes beyond *)
          cbn [sts] in HG |- *. cbn [tfields rev app].
          inversion HG as [|? ? ? ? Ga HG1]; subst. inversion HG1 as [|? ? ? ? Gb HG2]; subst. inversion HG2 as [|? ? ? ? Gc _]; subst.
          change ([(es_index (et_start E c) - es_base (et_next E a (es_index (et_start E c))), es_bits (et_next E a (es_index (et_start E c))))])
            with ([] ++ [(es_index (et_start E c) - es_base (et_next E a (es_index (et_start E c))), es_bits (et_next E a (es_index (et_start E c))))]).
          rewrite (update_real a _ (et_start E c) [] Ha (proj1 (proj1 Gc)) eq_refl). cbn [rbind].
          rewrite rd_nonneg. cbn [fields_bits flat_map rev].
          rewrite (ent_is c _ (proj1 Gc)).
          destruct (update_beyond b _ Gb) as (st' & br' & -> & Hneg). cbn [rbind e_sym ent].
          destruct (Z.leb_spec (rbr_bits_remaining br') (-1)); [|lia]. cbn [rev app]. reflexivity.
        + (* at least four: two transitions, then the loop continues two places further *)
          specialize (IH (c :: e :: rest3) ltac:(cbn [length] in Hk |- *; lia) f (b :: a :: acc) (n + 2) ltac:(cbn [length]; lia) Hin2
                         ltac:(cbn [length] in Hn |- *; lia) ltac:(cbn [length] in Hf |- *; lia)).
          cbn [sts] in HG, IH |- *.
          set (R' := sts E rest3) in *.
          set (s_e := match R' with _ :: s2 :: _ => et_next E e (es_index s2) | _ => et_start E e end) in *.
          set (s_c := match s_e :: R' with _ :: s2 :: _ => et_next E c (es_index s2) | _ => et_start E c end) in *.
          inversion HG as [|? ? ? ? Ga HG1]; subst. inversion HG1 as [|? ? ? ? Gb HG2]; subst. inversion HG2 as [|? ? ? ? Gc HG3]; subst.
          inversion HG3 as [|? ? ? ? Ge _]; subst.
          rewrite !tfields_step. cbn [rev].
          rewrite (update_real a _ s_c _ Ha (proj1 (proj1 Gc)) eq_refl). cbn [rbind].
          rewrite rd_nonneg.
          rewrite (update_real b _ s_e _ Hb (proj1 (proj1 Ge)) eq_refl). cbn [rbind].
          rewrite rd_nonneg.
          destruct (Z.ltb_spec 255 (n + 2)) as [Hbad|_]; [cbn [length] in Hn; lia|].
          rewrite (ent_is c _ (proj1 Gc)), (ent_is e _ (proj1 Ge)).
          cbn [e_sym ent]. rewrite IH. cbn [rev]. rewrite <- !app_assoc. reflexivity. }
    intros fuel acc n. apply (G (length data)). lia.
  Qed.
End W.

Lemma skip_stream F : rbr_skip_padding (rbr_new (stream_bytes F)) = Some (rd (rev (fields_bits F))).
Proof.
  rewrite reader_of_stream. unfold stream_bits. rewrite rev_app_distr. cbn [rev]. rewrite <- app_assoc. cbn [app].
  unfold rbr_skip_padding. rewrite rev_repeat. apply skip_zeros.
  - pose proof (Nat.mod_upper_bound (length (fields_bits F)) 8 ltac:(lia)). lia.
  - lia.
Qed.

(** the stream alone: skip the padding, read the two start states, run the loop *)
Theorem weight_stream_roundtrip D E syms data :
  agree D E syms ->
  (forall sym, In sym syms -> (1 <= es_bits (et_start E sym))%nat /\ forall idx, 0 <= idx < t_len D -> (1 <= es_bits (et_next E sym idx))%nat) ->
  (forall sym, In sym syms -> es_base (et_start E sym) < t_len D) ->
  (2 <= length data <= 257)%nat -> Forall (fun x => In x syms) data ->
  let cw := stream_bytes (weight_fields E data) in
  exists br0 s1 br1 s2 br2,
    rbr_skip_padding (rbr_new cw) = Some br0 /\ fse_init_state D br0 = ROk (s1, br1) /\ fse_init_state D br1 = ROk (s2, br2) /\
    fse_weights_loop (S (8 * length cw + 256)) D s1 s2 br2 [] 0 = ROk (rev data).
Proof.
  intros Hag Hbits Hbase Hl Hin cw.
  pose proof (weights_loop_reads D E syms Hag Hbits Hbase data (S (8 * length cw + 256)) [] 0 ltac:(lia) Hin ltac:(lia) ltac:(lia)) as HL.
  pose proof (sts_good D E syms Hag Hbits Hbase data Hin) as HG.
  unfold cw, weight_fields in *.
  destruct data as [|a [|b rest]]; try (cbn in Hl; lia).
  destruct (sts E (a :: b :: rest)) as [|s0 [|s1 R]] eqn:ES; try (pose proof (sts_length E (a :: b :: rest)) as X; rewrite ES in X; cbn in X; lia).
  inversion HG as [|? ? ? ? Ga HG1]; subst. inversion HG1 as [|? ? ? ? Gb _]; subst.
  cbn [rev]. set (T := tfields (s0 :: s1 :: R)) in *.
  rewrite skip_stream. eexists _, _, _, _, _. split; [reflexivity|].
  split; [apply (init_reads D E syms (es_index s0) _ Hag (proj1 (proj1 Ga)))|].
  split; [apply (init_reads D E syms (es_index s1) _ Hag (proj1 (proj1 Gb)))|].
  rewrite (ent_is D a _ (proj1 Ga)), (ent_is D b _ (proj1 Gb)). rewrite app_nil_r in HL. cbn [rev] in HL. exact HL.
Qed.
