(** C12: the FSE table description the compressor writes ([FSETable::write_table]) is read back by the decoder
    ([read_probabilities]) as exactly the distribution and accuracy log it was written from -- for every normalised
    distribution, whatever follows the description (at least one byte, as inside every frame). *)
Require Import Zrs.lib.RsPrelude Zrs.model.BitIO Zrs.model.BitStream Zrs.model.FseDec Zrs.model.FseEnc Zrs.proofs.C12_Stream.
Open Scope Z_scope.
Ltac Zify.zify_post_hook ::= Z.div_mod_to_equations.

Definition rdr (P T : list bit) : fbr := {| f_past := P; f_rest := T |}.

Lemma bits_val_lsb_app a : forall b, bits_val_lsb (a ++ b) = bits_val_lsb a + 2 ^ Z.of_nat (length a) * bits_val_lsb b.
Proof.
  induction a as [|x a IH]; intros b; cbn [app bits_val_lsb length].
  - change (2 ^ Z.of_nat 0) with 1. lia.
  - rewrite IH. rewrite Nat2Z.inj_succ, Z.pow_succ_r by lia. lia.
Qed.

Lemma get_bits_prefix B P T : (length B <= 64)%nat ->
  fbr_get_bits (rdr P (B ++ T)) (Z.of_nat (length B)) = ROk (bits_val_lsb B, rdr (rev B ++ P) T).
Proof.
  intros Hn. unfold fbr_get_bits, fbr_bits_left, rdr; cbn [f_rest f_past].
  destruct (Z.ltb_spec 64 (Z.of_nat (length B))) as [H|H]; [lia|].
  rewrite app_length.
  destruct (Z.ltb_spec (Z.of_nat (length B + length T)) (Z.of_nat (length B))) as [H1|H1]; [lia|].
  rewrite Nat2Z.id.
  rewrite firstn_app, Nat.sub_diag, firstn_O, app_nil_r, firstn_all.
  rewrite skipn_app, Nat.sub_diag, skipn_O, skipn_all. cbn [app].
  rewrite rev_append_rev. reflexivity.
Qed.

Lemma get_field n v P T : (n <= 64)%nat -> 0 <= v < 2 ^ Z.of_nat n ->
  fbr_get_bits (rdr P (byte_bits_lsb n v ++ T)) (Z.of_nat n) = ROk (v, rdr (rev (byte_bits_lsb n v) ++ P) T).
Proof.
  intros Hn Hv. pose proof (get_bits_prefix (byte_bits_lsb n v) P T) as G.
  rewrite byte_bits_lsb_length in G. rewrite G by assumption. rewrite val_of_byte_bits by assumption. reflexivity.
Qed.

(** a field one bit shorter than what the reader takes: the next bit of the stream is read as well and given back *)
Lemma get_short_field n v b P T : (S n <= 64)%nat -> 0 <= v < 2 ^ Z.of_nat n ->
  fbr_get_bits (rdr P (byte_bits_lsb n v ++ b :: T)) (Z.of_nat (S n)) =
    ROk (v + 2 ^ Z.of_nat n * b2z b, rdr (b :: rev (byte_bits_lsb n v) ++ P) T).
Proof.
  intros Hn Hv. pose proof (get_bits_prefix (byte_bits_lsb n v ++ [b]) P T) as G.
  rewrite app_length, byte_bits_lsb_length in G. cbn [length] in G. replace (n + 1)%nat with (S n) in G by lia.
  rewrite <- app_assoc in G. cbn [app] in G. rewrite G by assumption.
  rewrite bits_val_lsb_app, byte_bits_lsb_length, val_of_byte_bits by assumption.
  cbn [bits_val_lsb]. rewrite rev_app_distr. cbn [rev app]. do 2 f_equal. lia.
Qed.

Lemma return_one b P T : fbr_return_bits (rdr (b :: P) T) 1 = ROk (rdr P (b :: T)).
Proof.
  unfold fbr_return_bits, fbr_bits_read, rdr; cbn [f_past f_rest length].
  destruct (Z.ltb_spec (Z.of_nat (S (length P))) 1) as [H|H]; [lia|]. reflexivity.
Qed.

(** *** one probability value *)
Lemma read_value_ok M value P T : 2 <= M <= 2 ^ 62 -> 0 <= value <= M -> T <> [] ->
  read_value (rdr P (byte_bits_lsb (snd (value_field M value)) (fst (value_field M value)) ++ T)) M =
    ROk (value, rdr (rev (byte_bits_lsb (snd (value_field M value)) (fst (value_field M value))) ++ P) T) /\
  (1 <= snd (value_field M value))%nat.
Proof.
  intros HM Hv HT. unfold read_value, value_field, highest_bit_set.
  pose proof (Z.log2_spec M ltac:(lia)) as [L1 L2].
  pose proof (Z.log2_nonneg M) as L0.
  assert (L3 : 1 <= Z.log2 M) by (apply Z.log2_le_pow2; lia).
  assert (L4 : Z.log2 M <= 62).
  { pose proof (Z.log2_le_mono M (2 ^ 62) ltac:(lia)) as H. rewrite Z.log2_pow2 in H by lia. exact H. }
  remember (Z.log2 M) as k eqn:Ek.
  replace (k + 1 - 1) with k by lia.
  rewrite Z.pow_succ_r in L2 by lia. change (Z.succ k) with (k + 1) in *.
  replace (2 ^ (k + 1)) with (2 * 2 ^ k) by (rewrite Z.pow_add_r by lia; lia).
  remember (2 ^ k) as X eqn:EX.
  assert (Hk : Z.of_nat (Z.to_nat k) = k) by lia.
  assert (Hk1 : Z.of_nat (S (Z.to_nat k)) = k + 1) by lia.
  assert (Hk1' : Z.to_nat (k + 1) = S (Z.to_nat k)) by lia.
  destruct (Z.ltb_spec value (2 * X - 1 - M)) as [Hlo|Hlo]; cbn [fst snd].
  - (* short field *)
    destruct T as [|b T']; [congruence|].
    rewrite <- Hk1. rewrite get_short_field by (first [lia | rewrite Hk, <- EX; lia]).
    cbn [rbind]. rewrite Hk, <- EX.
    assert (Hs : (value + X * b2z b) mod X = value).
    { rewrite Z.mul_comm, Z_mod_plus_full. apply Z.mod_small. lia. }
    rewrite Hs. destruct (Z.ltb_spec value (2 * X - 1 - M)) as [_|H]; [|lia].
    rewrite return_one. cbn [rbind]. split; [reflexivity|lia].
  - destruct (Z.ltb_spec (X - 1) value) as [Hm|Hm]; cbn [fst snd]; rewrite Hk1'; rewrite <- Hk1.
    + rewrite get_field by (first [lia | rewrite Hk1, Z.pow_add_r, <- EX by lia; lia]).
      cbn [rbind].
      assert (Hs : (value + (2 * X - 1 - M)) mod X = value + (2 * X - 1 - M) - X).
      { symmetry. apply (Z.mod_unique _ _ 1); [left; lia|lia]. }
      rewrite Hs.
      destruct (Z.ltb_spec (value + (2 * X - 1 - M) - X) (2 * X - 1 - M)) as [H|_]; [lia|].
      destruct (Z.ltb_spec (X - 1) (value + (2 * X - 1 - M))) as [_|H]; [|lia].
      split; [|lia]. f_equal. f_equal. lia.
    + rewrite get_field by (first [lia | rewrite Hk1, Z.pow_add_r, <- EX by lia; lia]).
      cbn [rbind]. rewrite Z.mod_small by lia.
      destruct (Z.ltb_spec value (2 * X - 1 - M)) as [H|_]; [lia|].
      destruct (Z.ltb_spec (X - 1) value) as [H|_]; [lia|].
      split; [reflexivity|lia].
Qed.

(** *** zero runs *)
Lemma zeros_snoc k l : zeros k ++ 0 :: l = 0 :: zeros k ++ l.
Proof. induction k as [|k IH]; cbn [zeros app]; [reflexivity|]. rewrite IH. reflexivity. Qed.

Lemma rev_zeros k : rev (zeros k) = zeros k.
Proof.
  induction k as [|k IH]; cbn [zeros rev]; [reflexivity|]. rewrite IH.
  pose proof (zeros_snoc k []) as H. rewrite !app_nil_r in H. exact H.
Qed.

Lemma fields_bits_cons f fs : fields_bits (f :: fs) = byte_bits_lsb (snd f) (fst f) ++ fields_bits fs.
Proof. reflexivity. Qed.

Lemma skip_zero_ok : forall z fuel P T acc, (length (zero_fields z) <= fuel)%nat ->
  skip_zero_runs fuel (rdr P (fields_bits (zero_fields z) ++ T)) acc =
    ROk (rdr (rev (fields_bits (zero_fields z)) ++ P) T, zeros z ++ acc).
Proof.
  intros z. induction z as [z IH] using lt_wf_ind. intros fuel P T acc Hf.
  assert (Small : forall v : Z, 0 <= v < 3 -> zero_fields z = [(v, 2%nat)] -> zeros z = zeros (Z.to_nat v) ->
            skip_zero_runs fuel (rdr P (fields_bits (zero_fields z) ++ T)) acc =
            ROk (rdr (rev (fields_bits (zero_fields z)) ++ P) T, zeros z ++ acc)).
  { intros v Hv E Ez. rewrite E in *. cbn [length] in Hf. destruct fuel as [|f]; [lia|].
    cbn [skip_zero_runs]. rewrite fields_bits_cons. cbn [fst snd fields_bits flat_map]. rewrite app_nil_r.
    change 2 with (Z.of_nat 2). rewrite get_field by (try lia; change (2 ^ Z.of_nat 2) with 4; lia).
    cbn [rbind]. destruct (Z.eqb_spec v 3) as [H|_]; [lia|]. rewrite Ez. reflexivity. }
  destruct z as [|[|[|k]]].
  - apply (Small 0); [lia|reflexivity|reflexivity].
  - apply (Small 1); [lia|reflexivity|reflexivity].
  - apply (Small 2); [lia|reflexivity|reflexivity].
  - change (zero_fields (S (S (S k)))) with ((3, 2%nat) :: zero_fields k) in *.
    cbn [length] in Hf. destruct fuel as [|f]; [lia|].
    cbn [skip_zero_runs]. rewrite fields_bits_cons. cbn [fst snd]. rewrite <- app_assoc.
    change 2 with (Z.of_nat 2). rewrite get_field by (try lia; change (2 ^ Z.of_nat 2) with 4; lia).
    cbn [rbind]. change (3 =? 3) with true. cbv iota.
    rewrite IH by lia. rewrite rev_app_distr, <- app_assoc.
    change (Z.to_nat 3) with 3%nat. cbn [zeros app].
    rewrite !zeros_snoc. reflexivity.
Qed.

(** *** the distribution *)

Lemma weight_nonneg l : Forall (fun p => -1 <= p) l -> 0 <= weight l.
Proof.
  induction 1 as [|p t Hp _ IH]; cbn [weight]; [lia|]. unfold pw. destruct (Z.eqb_spec p (-1)); lia.
Qed.

Lemma pw_ge p : -1 <= p -> 0 <= pw p /\ p <= pw p.
Proof. intros H. unfold pw. destruct (Z.eqb_spec p (-1)); lia. Qed.

Lemma last_cons (p : Z) t d : t <> [] -> last (p :: t) d = last t d.
Proof. destruct t; [congruence|reflexivity]. Qed.

Lemma weight_zero_nil l : Forall (fun p => -1 <= p) l -> weight l <= 0 -> last l 1 <> 0 -> l = [].
Proof.
  induction 1 as [|p t Hp Ht IH]; intros Hw Hl; [reflexivity|]. exfalso.
  cbn [weight] in Hw. pose proof (weight_nonneg t Ht). pose proof (pw_ge p Hp) as [P1 P2].
  assert (p = 0) by (unfold pw in *; destruct (Z.eqb_spec p (-1)); lia). subst p.
  destruct t as [|q t]; [cbn in Hl; congruence|].
  rewrite last_cons in Hl by congruence. specialize (IH ltac:(cbn [pw] in *; lia) Hl). congruence.
Qed.

Lemma count_zeros_spec t : forall z r, count_zeros t = (z, r) ->
  t = zeros z ++ r /\ weight t = weight r /\ (length r <= length t)%nat /\ (z <= length t)%nat.
Proof.
  induction t as [|p t IH]; intros z r H; cbn [count_zeros] in H.
  - inversion H; subst. cbn. repeat split; lia.
  - destruct (Z.eqb_spec p 0) as [E|E].
    + destruct (count_zeros t) as [n r'] eqn:Ec. inversion H; subst.
      destruct (IH n r eq_refl) as (I1 & I2 & I3 & I4).
      cbn [zeros app weight length]. rewrite <- I1, I2. repeat split; try lia; try reflexivity.
    + inversion H; subst. cbn [zeros app]. repeat split; lia.
Qed.

Lemma zero_fields_bits z : (length (zero_fields z) <= length (fields_bits (zero_fields z)))%nat.
Proof.
  induction z as [z IH] using lt_wf_ind. destruct z as [|[|[|k]]]; try (cbn; lia).
  change (zero_fields (S (S (S k)))) with ((3, 2%nat) :: zero_fields k).
  rewrite fields_bits_cons, app_length, byte_bits_lsb_length. cbn [length snd]. specialize (IH k ltac:(lia)). lia.
Qed.

Lemma description_loop sum : 0 < sum < 2 ^ 62 -> forall fw probs counter, (length probs < fw)%nat -> 0 <= counter ->
  Forall (fun p => -1 <= p) probs -> weight probs = sum - counter -> last probs 1 <> 0 ->
  exists fs, write_probs fw probs sum counter = Some fs /\
    (length fs <= length (fields_bits fs))%nat /\
    forall fr P T acc, (length fs < fr)%nat -> T <> [] ->
      read_probs_loop fr (rdr P (fields_bits fs ++ T)) sum counter acc =
        ROk (rdr (rev (fields_bits fs) ++ P) T, sum, rev probs ++ acc).
Proof.
  intros Hsum fw. induction fw as [|fw IH]; intros probs counter Hlen Hc0 Hall Hw Hlast; [lia|].
  cbn [write_probs].
  destruct probs as [|p t].
  - cbn [weight] in Hw. destruct (Z.ltb_spec counter sum) as [H|H]; [lia|].
    exists []. split; [reflexivity|]. split; [cbn; lia|]. intros fr P T acc Hfr HT.
    destruct fr as [|fr]; [cbn in Hfr; lia|]. cbn [read_probs_loop].
    destruct (Z.ltb_spec counter sum) as [H'|_]; [lia|]. cbn [fields_bits flat_map rev app]. do 3 f_equal. lia.
  - destruct (Z.ltb_spec counter sum) as [Hc|Hc].
    2:{ exfalso. assert (E : p :: t = []) by (apply weight_zero_nil; [assumption|lia|assumption]). congruence. }
    inversion Hall as [|p' t' Hp Ht]; subst p' t'. cbn [weight] in Hw.
    pose proof (weight_nonneg t Ht) as Wt. pose proof (pw_ge p Hp) as [P1 P2].
    cbn [length] in Hlen.
    assert (HM : 2 <= sum - counter + 1 <= 2 ^ 62) by lia.
    assert (HV : 0 <= p + 1 <= sum - counter + 1) by lia.
    remember (value_field (sum - counter + 1) (p + 1)) as f0 eqn:Ef0.
    assert (Step : forall t' counter' zf acc0, (length t' < fw)%nat -> 0 <= counter' -> Forall (fun p => -1 <= p) t' ->
               weight t' = sum - counter' -> last t' 1 <> 0 ->
               (length zf <= length (fields_bits zf))%nat ->
               (forall f P T acc, (length zf <= f)%nat ->
                  (if p =? 0 then skip_zero_runs f (rdr P (fields_bits zf ++ T)) (p :: acc)
                   else ROk (rdr P (fields_bits zf ++ T), p :: acc)) =
                  ROk (rdr (rev (fields_bits zf) ++ P) T, acc0 ++ p :: acc)) ->
               (if p =? 0 then counter' = counter else if 0 <? p then counter' = counter + p else counter' = counter + 1) ->
               rev (p :: t) = rev t' ++ acc0 ++ [p] ->
               exists fs, option_map (fun rest => f0 :: zf ++ rest) (write_probs fw t' sum counter') = Some fs /\
                 (length fs <= length (fields_bits fs))%nat /\
                 forall fr P T acc, (length fs < fr)%nat -> T <> [] ->
                   read_probs_loop fr (rdr P (fields_bits fs ++ T)) sum counter acc =
                     ROk (rdr (rev (fields_bits fs) ++ P) T, sum, rev (p :: t) ++ acc)).
    { intros t' counter' zf acc0 L1 L0 L2 L3 L4 Lz Hskip Hcnt Hrev.
      destruct (IH t' counter' L1 L0 L2 L3 L4) as (fs' & W & Wl & R).
      exists (f0 :: zf ++ fs'). rewrite W. split; [reflexivity|].
      pose proof (read_value_ok (sum - counter + 1) (p + 1)) as RV. rewrite <- Ef0 in RV.
      split.
      { cbn [length]. rewrite fields_bits_cons, fields_bits_app, !app_length.
        destruct (RV [] [true] HM HV ltac:(congruence)) as [_ W1]. rewrite byte_bits_lsb_length. lia. }
      intros fr P T acc Hfr HT. destruct fr as [|fr]; [lia|].
      cbn [length] in Hfr. rewrite app_length in Hfr.
      cbn [read_probs_loop]. destruct (Z.ltb_spec counter sum) as [_|H]; [|lia].
      rewrite fields_bits_cons, <- app_assoc.
      assert (HT' : fields_bits (zf ++ fs') ++ T <> []) by (destruct (fields_bits (zf ++ fs')); [assumption|discriminate]).
      destruct (RV P _ HM HV HT') as [RV1 _]. rewrite RV1. cbn [rbind].
      replace (p + 1 - 1) with p by lia.
      rewrite fields_bits_app, <- app_assoc.
      specialize (Hskip fr (rev (byte_bits_lsb (snd f0) (fst f0)) ++ P) (fields_bits fs' ++ T) acc ltac:(lia)).
      assert (Hfin : read_probs_loop fr (rdr (rev (fields_bits zf) ++ rev (byte_bits_lsb (snd f0) (fst f0)) ++ P) (fields_bits fs' ++ T)) sum counter' (acc0 ++ p :: acc) =
                ROk (rdr (rev (byte_bits_lsb (snd f0) (fst f0) ++ fields_bits zf ++ fields_bits fs') ++ P) T, sum, rev (p :: t) ++ acc)).
      { rewrite R by (try assumption; lia). rewrite Hrev. rewrite !rev_app_distr, <- !app_assoc. cbn [app]. reflexivity. }
      destruct (Z.eqb_spec p 0) as [E0|E0].
      - rewrite Hskip. cbn [rbind]. subst counter'. exact Hfin.
      - assert (Hs : (rdr (rev (byte_bits_lsb (snd f0) (fst f0)) ++ P) (fields_bits zf ++ fields_bits fs' ++ T), p :: acc) =
                     (rdr (rev (fields_bits zf) ++ rev (byte_bits_lsb (snd f0) (fst f0)) ++ P) (fields_bits fs' ++ T), acc0 ++ p :: acc))
          by (injection Hskip as Hs1 Hs2 Hs3; congruence).
        apply pair_equal_spec in Hs as [Hs1 Hs2].
        destruct (Z.ltb_spec 0 p) as [Hpos|Hneg].
        + subst counter'. rewrite Hs1, Hs2. exact Hfin.
        + destruct (Z.eqb_spec p (-1)) as [Em|Em]; [|lia]. subst counter'.
          rewrite Hs1, Hs2. exact Hfin. }
    assert (NoSkip : p <> 0 -> forall f P T acc, (length (@nil field) <= f)%nat ->
               (if p =? 0 then skip_zero_runs f (rdr P (fields_bits [] ++ T)) (p :: acc)
                else ROk (rdr P (fields_bits [] ++ T), p :: acc)) =
               ROk (rdr (rev (fields_bits []) ++ P) T, [] ++ p :: acc)).
    { intros Hp0 f P T acc _. destruct (Z.eqb_spec p 0); [contradiction|]. reflexivity. }
    assert (Lt : t <> [] -> last t 1 <> 0) by (intros Hn; rewrite <- (last_cons p t 1 Hn); exact Hlast).
    assert (Lt' : last t 1 <> 0) by (destruct t as [|q t0]; [cbn; lia|apply Lt; congruence]).
    destruct (Z.eqb_spec p (-1)) as [Em|Em].
    + subst p. change (pw (-1)) with 1 in *.
      destruct (Step t (counter + 1) [] [] ltac:(lia) ltac:(lia) Ht ltac:(lia) Lt' ltac:(cbn; lia) (NoSkip ltac:(lia)) eq_refl ltac:(cbn [rev app]; reflexivity))
        as (fs & W & Wl & R).
      exists fs. split; [|split; assumption]. cbn [app] in W. exact W.
    + destruct (Z.ltb_spec 0 p) as [Hpos|Hnp].
      * assert (Epw : pw p = p) by (unfold pw; destruct (Z.eqb_spec p (-1)); lia).
        assert (Hcond : if p =? 0 then counter + p = counter else counter + p = counter + p).
        { destruct (Z.eqb_spec p 0); [lia|reflexivity]. }
        destruct (Step t (counter + p) [] [] ltac:(lia) ltac:(lia) Ht ltac:(lia) Lt' ltac:(cbn; lia) (NoSkip ltac:(lia)) Hcond ltac:(cbn [rev app]; reflexivity))
          as (fs & W & Wl & R).
        exists fs. split; [|split; assumption]. cbn [app] in W. exact W.
      * assert (p = 0) by lia. subst p. change (pw 0) with 0 in *.
        destruct (count_zeros t) as [z r] eqn:Ec.
        destruct (count_zeros_spec t z r Ec) as (Et & Ew & El & Ez).
        assert (Hr : r <> []).
        { intros ->. rewrite app_nil_r in Et. apply Hlast. rewrite Et.
          clear. induction z as [|z IHz]; [reflexivity|]. cbn [zeros]. rewrite last_cons by discriminate. exact IHz. }
        assert (Lr : last r 1 <> 0).
        { rewrite Et in Lt'. revert Lt'. clear - Hr. induction z as [|z IHz]; cbn [zeros app]; [tauto|].
          rewrite last_cons by (destruct (zeros z); destruct r; cbn; congruence). exact IHz. }
        assert (Fr : Forall (fun p => -1 <= p) r) by (rewrite Et in Ht; apply Forall_app in Ht; tauto).
        assert (Hsk : forall f P T acc, (length (zero_fields z) <= f)%nat ->
                 (if 0 =? 0 then skip_zero_runs f (rdr P (fields_bits (zero_fields z) ++ T)) (0 :: acc)
                  else ROk (rdr P (fields_bits (zero_fields z) ++ T), 0 :: acc)) =
                 ROk (rdr (rev (fields_bits (zero_fields z)) ++ P) T, zeros z ++ 0 :: acc)).
        { intros f P T acc Hf. change (0 =? 0) with true. cbv iota. apply skip_zero_ok. exact Hf. }
        assert (Hrev : rev (0 :: t) = rev r ++ zeros z ++ [0]).
        { cbn [rev]. rewrite Et at 1. rewrite rev_app_distr, rev_zeros, <- app_assoc. reflexivity. }
        destruct (Step r counter (zero_fields z) (zeros z) ltac:(lia) ltac:(lia) Fr ltac:(lia) Lr (zero_fields_bits z) Hsk eq_refl Hrev)
          as (fs & W & Wl & R).
        exists fs. split; [|split; assumption].
        destruct r as [|q r0]; [congruence|]. exact W.
Qed.

(** *** the whole description *)
Definition dist_ok (acc_log : Z) (probs : list Z) : Prop :=
  Forall (fun p => -1 <= p) probs /\ weight probs = 2 ^ acc_log /\ last probs 1 <> 0.

Lemma dist_okb_ok acc_log probs : dist_okb acc_log probs = true -> dist_ok acc_log probs.
Proof.
  unfold dist_okb, dist_ok. intros H. apply andb_prop in H as [H H3]. apply andb_prop in H as [H1 H2].
  split; [|split].
  - apply Forall_forall. intros p Hp. rewrite forallb_forall in H1. specialize (H1 p Hp). lia.
  - lia.
  - destruct (Z.eqb_spec (last probs 1) 0); [discriminate|assumption].
Qed.

Lemma pad_aligned b : exists k, length (pad_bits b) = (8 * k)%nat.
Proof.
  unfold pad_bits. rewrite app_length, repeat_length.
  exists ((length b + (8 - length b mod 8) mod 8) / 8)%nat.
  pose proof (Nat.div_mod (length b) 8 ltac:(lia)). pose proof (Nat.mod_upper_bound (length b) 8 ltac:(lia)).
  remember (length b mod 8)%nat as m. remember (length b / 8)%nat as q.
  destruct (Nat.eq_dec m 0) as [E|E].
  - rewrite E. change ((8 - 0) mod 8)%nat with 0%nat. rewrite H. rewrite E, !Nat.add_0_r.
    rewrite Nat.mul_comm, Nat.div_mul by lia. lia.
  - rewrite (Nat.mod_small (8 - m) 8) by lia. rewrite H.
    replace (8 * q + m + (8 - m))%nat with ((q + 1) * 8)%nat by lia. rewrite Nat.div_mul by lia. lia.
Qed.

Theorem description_roundtrip acc_log probs max_symbol max_log rest :
  5 <= acc_log <= 20 -> acc_log <= max_log -> dist_ok acc_log probs ->
  Z.of_nat (length probs) <= max_symbol + 1 -> rest <> [] ->
  exists d, desc_bytes acc_log probs = Some d /\
    read_probabilities max_symbol (d ++ rest) max_log = ROk (acc_log, probs, Z.of_nat (length d)).
Proof.
  intros Hal Hml (Hall & Hw & Hlast) Hms Hrest.
  assert (Hsum : 0 < 2 ^ acc_log < 2 ^ 62) by (split; [lia|apply Z.pow_lt_mono_r; lia]).
  destruct (description_loop (2 ^ acc_log) Hsum (S (length probs)) probs 0 ltac:(lia) ltac:(lia) Hall ltac:(lia) Hlast)
    as (fs & W & Wl & R).
  unfold desc_bytes, desc_fields. rewrite W. cbn [option_map].
  remember (pad_bits (fields_bits ((acc_log - 5, 4%nat) :: fs))) as pb eqn:Epb.
  remember (bytes_of_bits pb (S (length pb))) as d eqn:Ed.
  exists d. split; [reflexivity|].
  destruct (pad_aligned (fields_bits ((acc_log - 5, 4%nat) :: fs))) as [k Hk]. rewrite <- Epb in Hk.
  assert (Hbits : bits_of_bytes_lsb d = pb).
  { rewrite Ed. apply bits_of_bytes_of_bits; [lia|]. exists k. exact Hk. }
  assert (Hlen : length pb = (8 * length d)%nat).
  { rewrite <- Hbits at 1. apply bits_of_bytes_length. }
  remember ((8 - (4 + length (fields_bits fs)) mod 8) mod 8)%nat as padn eqn:Epad.
  assert (Hpb : pb = byte_bits_lsb 4 (acc_log - 5) ++ fields_bits fs ++ repeat false padn).
  { rewrite Epb. unfold pad_bits. rewrite fields_bits_cons. cbn [fst snd]. rewrite app_length, byte_bits_lsb_length.
    rewrite <- Epad, <- app_assoc. reflexivity. }
  assert (Hpbl : length pb = (4 + length (fields_bits fs) + padn)%nat).
  { rewrite Hpb, !app_length, byte_bits_lsb_length, repeat_length. lia. }
  assert (Hfuel : (length fs < S (8 * length (d ++ rest)))%nat) by (rewrite app_length; lia).
  assert (HT : repeat false padn ++ bits_of_bytes_lsb rest <> []).
  { destruct rest as [|x rest']; [congruence|]. intros E. apply (f_equal (@length bit)) in E.
    rewrite app_length in E. unfold bits_of_bytes_lsb in E. cbn [flat_map] in E. rewrite app_length, byte_bits_lsb_length in E.
    cbn [length] in E. lia. }
  unfold read_probabilities, fbr_new.
  assert (Hsrc : bits_of_bytes_lsb (d ++ rest) =
                 byte_bits_lsb 4 (acc_log - 5) ++ fields_bits fs ++ repeat false padn ++ bits_of_bytes_lsb rest).
  { unfold bits_of_bytes_lsb. rewrite flat_map_app. fold (bits_of_bytes_lsb d). rewrite Hbits, Hpb, <- !app_assoc. reflexivity. }
  rewrite Hsrc.
  fold (rdr [] (byte_bits_lsb 4 (acc_log - 5) ++ fields_bits fs ++ repeat false padn ++ bits_of_bytes_lsb rest)).
  change 4 with (Z.of_nat 4) at 1.
  rewrite get_field by (try lia; change (2 ^ Z.of_nat 4) with 16; lia).
  cbn [rbind]. unfold ACC_LOG_OFFSET. replace (5 + (acc_log - 5)) with acc_log by lia.
  destruct (Z.ltb_spec max_log acc_log) as [H|_]; [lia|].
  destruct (Z.eqb_spec acc_log 0) as [H|_]; [lia|].
  rewrite R by assumption.
  cbn [rbind]. rewrite Z.eqb_refl. cbn [negb]. rewrite app_nil_r, rev_length.
  destruct (Z.ltb_spec (max_symbol + 1) (Z.of_nat (length probs))) as [H|_]; [lia|].
  rewrite rev_involutive. do 2 f_equal.
  unfold fbr_bits_read, rdr; cbn [f_past]. rewrite app_nil_r, app_length, !rev_length.
  rewrite byte_bits_lsb_length.
  assert (Hp8 : (padn < 8)%nat) by (rewrite Epad; apply Nat.mod_upper_bound; lia).
  remember (length (fields_bits fs)) as n eqn:En.
  assert (Hd : (8 * length d = 4 + n + padn)%nat) by lia.
  assert (Hpad : ((4 + n + padn) mod 8 = 0)%nat) by (rewrite <- Hd, Nat.mul_comm; apply Nat.mod_mul; lia).
  clear - Hd Hp8 Hpad.
  destruct (Z.eqb_spec (Z.of_nat (n + 4) mod 8) 0) as [E|E]; lia.
Qed.

(** the distributions the format predefines are normalised: the theorem applies to them *)
Example dist_ok_non_vacuous : dist_ok 5 [31; -1] /\ dist_ok 6 [1; 0; 0; 0; 0; 0; 0; 0; 0; 0; 0; 30; -1; 0; 32].
Proof. split; apply dist_okb_ok; vm_compute; reflexivity. Qed.
