(** C19: decision logic of the command-line tool *)
Require Import Zrs.lib.RsPrelude Zrs.model.FrameEnc Zrs.model.Cli.
Require Import Ascii.
Open Scope Z_scope.

Theorem level_total opt : (exists l, cli_map_level opt = CliLevel l) \/ cli_map_level opt = CliRefuse.
Proof. unfold cli_map_level. destruct (_ =? 0); [left; eexists; reflexivity|]. destruct (_ =? 1); [left; eexists; reflexivity|right; reflexivity]. Qed.

Theorem level_absent_is_implemented : cli_map_level None = CliLevel LFastest.
Proof. reflexivity. Qed.

Theorem level_spec l : cli_map_level (Some l) =
  if l =? 0 then CliLevel LUncompressed else if l =? 1 then CliLevel LFastest else CliRefuse.
Proof. reflexivity. Qed.

(** a refusal never touches the output; an output is only created on the way to writing a frame *)
Theorem refusal_creates_nothing opt ex : In EvFail (cli_compress_events opt ex) -> ~ In EvCreateOutput (cli_compress_events opt ex).
Proof.
  unfold cli_compress_events. destruct (cli_map_level opt); [destruct ex|]; cbn; intros H C;
    repeat (destruct H as [H|H]; try discriminate); repeat (destruct C as [C|C]; try discriminate); auto.
Qed.

Lemma last_dot_app s : forall pos found t, last_dot (s ++ t) pos found = last_dot t (pos + length s) (last_dot s pos found).
Proof.
  induction s as [|c s IH]; intros pos found t; cbn [app last_dot length]; [rewrite Nat.add_0_r; reflexivity|].
  rewrite IH. f_equal. lia.
Qed.

(** default names round trip: decompress's default output for the archive compress creates by default is the
    original name (for every non-empty name) *)
Theorem default_names_roundtrip name : name <> [] -> file_stem (add_extension name zst_ext) = name.
Proof.
  intros Hne. unfold file_stem, add_extension. rewrite last_dot_app. cbn [Nat.add].
  assert (E : forall p f, last_dot zst_ext p f = Some p) by (intros; reflexivity).
  rewrite E. destruct name as [|c t]; [congruence|]. cbn [length].
  change (S (length t)) with (length (c :: t)).
  rewrite firstn_app, Nat.sub_diag, firstn_all. cbn [firstn]. rewrite app_nil_r. reflexivity.
Qed.
