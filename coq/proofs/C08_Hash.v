(** C08: the hasher state of the decoder as a function of the calls made. *)
Require Import Zrs.lib.RsPrelude Zrs.gen.Generated Zrs.model.Headers Zrs.model.BlockDec Zrs.model.FrameDec.
Require Import Zrs.proofs.C06_Drain Zrs.proofs.C05_Block Zrs.proofs.C06_Frame Zrs.proofs.C11_Reset.
Open Scope Z_scope.

Lemma reset_hash_empty d src d' rest evs :
  bytes_ok src = true -> Forall dict_ok (fd_dicts d) -> fdec_reset d src = ROk (d', rest, evs) ->
  fdec_hashed d' = [].
Proof.
  intros B HD H. destruct (fdec_reset_spec _ _ _ _ _ B HD H) as (s & hd & Hs & _ & _ & _ & _ & Hh & _).
  unfold fdec_hashed. rewrite Hs. fold (st_buf s). rewrite Hh. reflexivity.
Qed.

Lemma decode_does_not_hash d src strat d' rest fin s :
  fd_state d = Some s -> st_ok s -> bytes_ok src = true ->
  fdec_decode_blocks d src strat = ROk (d', rest, fin) -> fdec_hashed d' = fdec_hashed d.
Proof.
  intros Hd Hs B H.
  destruct (decode_blocks_spec _ _ _ _ _ _ _ Hd Hs B H) as (s' & Hd' & _ & _ & _ & (_ & _ & M) & _).
  unfold fdec_hashed. rewrite Hd, Hd'. rewrite M. reflexivity.
Qed.

Lemma hash_is_delivered St (sstep : St -> Z -> sink_resp * St) ops d s st :
  fd_state d = Some s -> st_ok s -> 0 <= db_window (st_buf s) ->
  let '(l, d', st') := drain_run St sstep d st ops in fdec_hashed d' = fdec_hashed d ++ l.
Proof.
  intros Hd Hs Hw. pose proof (drain_run_spec St sstep ops d s st Hd Hs Hw) as T.
  destruct (drain_run St sstep d st ops) as [[l d'] st']. destruct T as (s' & Hd' & (_ & _ & _ & Hh)).
  unfold fdec_hashed. rewrite Hd, Hd'. unfold db_hashed in Hh. rewrite !rev'_rev. exact Hh.
Qed.
