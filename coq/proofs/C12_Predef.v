(** C12: the hypotheses of the sequences-stream theorem are decidable, and they hold for the three predefined tables
    (all symbols of each alphabet): the round trip is unconditional for frames coded with the predefined tables. *)
Require Import Zrs.lib.RsPrelude Zrs.gen.Generated Zrs.model.BitIO Zrs.model.BitStream Zrs.model.FseDec Zrs.model.HufDec
  Zrs.model.BlockDec Zrs.model.SeqEnc Zrs.model.FseEnc Zrs.model.SeqSection.
Require Import Zrs.proofs.C12_Stream Zrs.proofs.C12_SeqStream.
Open Scope Z_scope.

Lemma covers_b_sound D sym : covers_b D sym = true -> covers D sym.
Proof.
  unfold covers_b, covers. intros H. apply andb_prop in H. destruct H as [H1 H2]. split.
  - destruct (min_base (t_decode D) 0 sym None); [discriminate|discriminate H1].
  - intros idx Hidx. rewrite forallb_forall in H2. specialize (H2 (Z.to_nat idx)).
    rewrite Z2Nat.id in H2 by lia.
    assert (Hin : In (Z.to_nat idx) (seq 0 (Z.to_nat (t_len D)))) by (apply in_seq; lia).
    specialize (H2 Hin). destruct (find_entry _ _ _); [discriminate|discriminate H2].
Qed.

Lemma table_wf_b_sound D : table_wf_b D = true -> table_wf D.
Proof.
  unfold table_wf_b, table_wf. intros H. apply andb_prop in H. destruct H as [H H3]. apply andb_prop in H. destruct H as [H1 H2].
  split; [lia|]. split; [|lia]. rewrite Forall_forall. rewrite forallb_forall in H2. intros e He. specialize (H2 e He). lia.
Qed.

Definition predef (max_symbol acc_log : Z) (dist : list Z) : fse_table :=
  match fse_build_from_probabilities (fse_new max_symbol) acc_log dist with ROk t => t | _ => fse_new max_symbol end.
Definition D_ll := predef MAX_LITERAL_LENGTH_CODE LL_DEFAULT_ACC_LOG LITERALS_LENGTH_DEFAULT_DISTRIBUTION.
Definition D_ml := predef MAX_MATCH_LENGTH_CODE ML_DEFAULT_ACC_LOG MATCH_LENGTH_DEFAULT_DISTRIBUTION.
Definition D_of := predef MAX_OFFSET_CODE OF_DEFAULT_ACC_LOG OFFSET_DEFAULT_DISTRIBUTION.
Definition codes (n : nat) : list Z := map Z.of_nat (seq 0 n).

Lemma predefined_tables_ok :
  table_wf D_ll /\ table_wf D_ml /\ table_wf D_of /\
  Forall (covers D_ll) (codes 36) /\ Forall (covers D_ml) (codes 53) /\ Forall (covers D_of) (codes 29).
Proof.
  assert (F : forall D l, forallb (covers_b D) l = true -> Forall (covers D) l).
  { intros D l H. rewrite Forall_forall. rewrite forallb_forall in H. intros x Hx. apply covers_b_sound. apply H. exact Hx. }
  repeat split; try (apply table_wf_b_sound; vm_compute; reflexivity); apply F; vm_compute; reflexivity.
Qed.

(** sequences coded with the predefined tables: every list of sequences whose codes lie in the alphabets (literal
    length codes 0..35, match length codes 0..52, offset codes 0..28) round-trips, unconditionally *)
Theorem predefined_sequences_roundtrip qs :
  qs <> [] -> Forall cseq_ok qs -> Forall (q_in (codes 36) (codes 53) (codes 29)) qs ->
  let bytes := stream_bytes (enc_fields (enc_of_dec D_ll) (enc_of_dec D_ml) (enc_of_dec D_of) qs) in
  exists r0 ll r1 of r2 ml r3 vals rf,
    rbr_skip_padding (rbr_new bytes) = Some r0 /\
    fse_init_state D_ll r0 = ROk (ll, r1) /\ fse_init_state D_of r1 = ROk (of, r2) /\ fse_init_state D_ml r2 = ROk (ml, r3) /\
    seq_loop (length qs) (Z.of_nat (length qs)) (sc D_ll D_ml D_of) ll ml of r3 0 [] = ROk (rev vals, rf) /\
    Forall2 (fun q v => cseq_value q = Some v) qs vals /\
    rbr_bits_remaining rf = 0.
Proof.
  destruct predefined_tables_ok as (W1 & W2 & W3 & C1 & C2 & C3).
  apply derived_encoder_roundtrip; assumption.
Qed.

Example predefined_roundtrip_non_vacuous :
  let q := {| c_ll := 3; a_ll := 0; n_ll := 0%nat; c_ml := 2; a_ml := 0; n_ml := 0%nat; c_of := 5; a_of := 17 |} in
  stream_bytes (enc_fields (enc_of_dec D_ll) (enc_of_dec D_ml) (enc_of_dec D_of) [q; q]) <> [].
Proof. vm_compute. discriminate. Qed.
