(** C04: basic facts about the memory primitives of the ring-buffer model. *)
From Coq Require Import String Arith Bool Lia ZArith List.
Import ListNotations.
From Coq Require Import ZifyBool ZifyNat.
Require Import Zrs.model.RingBuffer.

Lemma mod_sub c a : 0 < c -> a < 2 * c -> a mod c = if a <? c then a else a - c.
Proof.
  intros Hc Ha. destruct (a <? c) eqn:E.
  - apply Nat.mod_small. lia.
  - symmetry. apply Nat.mod_unique with (q := 1); lia.
Qed.

Lemma all_init_spec m src n :
  all_init m src n = true <-> (forall i, i < n -> exists b, m (src + i) = Some b).
Proof.
  unfold all_init. rewrite forallb_forall. split.
  - intros H i Hi. specialize (H i). rewrite in_seq in H. specialize (H ltac:(lia)).
    destruct (m (src + i)) as [b|]; [eauto|discriminate].
  - intros H i Hi. apply in_seq in Hi. destruct (H i ltac:(lia)) as [b ->]. reflexivity.
Qed.

Lemma next_multiple_ge n k : 1 <= k -> n <= next_multiple n k.
Proof.
  intros Hk. unfold next_multiple.
  pose proof (Nat.div_mod_eq (n + k - 1) k) as E.
  pose proof (Nat.mod_upper_bound (n + k - 1) k ltac:(lia)) as B.
  rewrite Nat.mul_comm. lia.
Qed.

(** an overshooting copy touches at least [n] and never more than the shorter of the two regions *)
Lemma touched_bounds k sl dl n : 1 <= k -> n <= sl -> n <= dl ->
  n <= touched k sl dl n <= Nat.min sl dl.
Proof.
  intros Hk Hs Hd. unfold touched.
  destruct ((k <=? Nat.min sl dl) && (n <=? k)) eqn:E1; [lia|].
  pose proof (next_multiple_ge n k Hk).
  destruct (next_multiple n k <=? Nat.min sl dl) eqn:E2; lia.
Qed.

Lemma copy_region_ok m c src dst n :
  src + n <= c -> dst + n <= c -> (n = 0 \/ src + n <= dst \/ dst + n <= src) ->
  (forall i, i < n -> exists b, m (src + i) = Some b) ->
  exists m', copy_region m c src dst n = Some m' /\
    (forall j, j < n -> m' (dst + j) = m (src + j)) /\
    (forall j, ~ (dst <= j < dst + n) -> m' j = m j).
Proof.
  intros Hs Hd Hdis Hinit. unfold copy_region.
  assert (all_init m src n = true) as -> by (apply all_init_spec; exact Hinit).
  assert (disjoint src dst n = true) as -> by (unfold disjoint; lia).
  assert ((src + n <=? c) && (dst + n <=? c) = true) as -> by lia.
  cbn [andb]. eexists. split; [reflexivity|]. split.
  - intros j Hj. assert ((dst <=? dst + j) && (dst + j <? dst + n) = true) as -> by lia.
    f_equal. lia.
  - intros j Hj. assert ((dst <=? j) && (j <? dst + n) = false) as -> by lia. reflexivity.
Qed.

(** the contract of [copy_bytes_overshooting], for every chunk size *)
Lemma copy_over_ok k m c src sl dst dl n :
  1 <= k -> n <= sl -> n <= dl -> src + sl <= c -> dst + dl <= c ->
  (src + sl <= dst \/ dst + dl <= src) ->
  (forall i, i < sl -> exists b, m (src + i) = Some b) ->
  exists m', copy_overshooting k m c (src, sl) (dst, dl) n = Some m' /\
    (forall j, j < n -> m' (dst + j) = m (src + j)) /\
    (forall j, ~ (dst <= j < dst + dl) -> m' j = m j) /\
    (forall j, dst <= j < dst + dl -> (exists b, m j = Some b) -> exists b, m' j = Some b).
Proof.
  intros Hk Hs Hd Hsc Hdc Hdis Hinit. unfold copy_overshooting. cbn [fst snd].
  pose proof (touched_bounds k sl dl n Hk Hs Hd) as [T1 T2].
  set (t := touched k sl dl n) in *.
  destruct (copy_region_ok m c src dst t) as (m' & E & A & B); try lia.
  { intros i Hi. apply Hinit. lia. }
  exists m'. split; [exact E|]. split; [|split].
  - intros j Hj. apply A. lia.
  - intros j Hj. apply B. lia.
  - intros j Hj [b Hb]. destruct (Nat.lt_ge_cases j (dst + t)).
    + replace j with (dst + (j - dst)) by lia. rewrite A by lia. apply Hinit. lia.
    + rewrite B by lia. eauto.
Qed.

Lemma write_region_ok m c dst data : dst + length data <= c ->
  exists m', write_region m c dst data = Some m' /\
    (forall j, j < length data -> m' (dst + j) = Some (nth j data 0%Z)) /\
    (forall j, ~ (dst <= j < dst + length data) -> m' j = m j).
Proof.
  intros H. unfold write_region. assert (dst + length data <=? c = true) as -> by lia.
  eexists. split; [reflexivity|]. split.
  - intros j Hj. assert ((dst <=? dst + j) && (dst + j <? dst + length data) = true) as -> by lia.
    do 2 f_equal. lia.
  - intros j Hj. assert ((dst <=? j) && (j <? dst + length data) = false) as -> by lia. reflexivity.
Qed.

Lemma fill_region_ok m c dst b n : dst + n <= c ->
  exists m', fill_region m c dst b n = Some m' /\
    (forall j, j < n -> m' (dst + j) = Some b) /\
    (forall j, ~ (dst <= j < dst + n) -> m' j = m j).
Proof.
  intros H. unfold fill_region. assert (dst + n <=? c = true) as -> by lia.
  eexists. split; [reflexivity|]. split.
  - intros j Hj. assert ((dst <=? dst + j) && (dst + j <? dst + n) = true) as -> by lia. reflexivity.
  - intros j Hj. assert ((dst <=? j) && (j <? dst + n) = false) as -> by lia. reflexivity.
Qed.

(** list extensionality through [nth] *)
Lemma list_eq_nth (a b : list Z) :
  length a = length b -> (forall i, i < length a -> nth i a 0%Z = nth i b 0%Z) -> a = b.
Proof. intros L H. apply (nth_ext a b 0%Z 0%Z L H). Qed.

Lemma abs_length s : length (abs s) = len s.
Proof. unfold abs. rewrite map_length, seq_length. reflexivity. Qed.

Lemma abs_nth s i : i < len s -> nth i (abs s) 0%Z = cell s i.
Proof.
  intros H. unfold abs.
  rewrite (nth_indep _ 0%Z (cell s 0)) by (rewrite map_length, seq_length; exact H).
  rewrite (map_nth (cell s) (seq 0 (len s)) 0 i). rewrite seq_nth by exact H. reflexivity.
Qed.

Lemma nth_firstn_lt (l : list Z) n i d : i < n -> nth i (firstn n l) d = nth i l d.
Proof.
  revert n i. induction l as [|x l IH]; intros n i H; destruct n; destruct i; cbn; try reflexivity; try lia.
  apply IH. lia.
Qed.
Lemma nth_skipn_add (l : list Z) k i d : nth i (skipn k l) d = nth (k + i) l d.
Proof.
  revert k. induction l as [|x l IH]; intros k; destruct k; cbn; try reflexivity.
  - destruct i; reflexivity.
  - apply IH.
Qed.
