(** C03: the literals section never panics.  The header parser returns one of the shapes of the format for any bytes;
    decoding the section with a Huffman table that is unset or complete returns exactly the announced number of literals
    and consumes exactly the announced number of bytes, or an error. *)
Require Import Zrs.lib.RsPrelude Zrs.lib.Sweep Zrs.gen.Generated Zrs.model.Headers Zrs.model.BitIO Zrs.model.FseDec Zrs.model.HufDec Zrs.model.BlockDec.
Require Import Zrs.proofs.C06_Drain Zrs.proofs.C05_Block Zrs.proofs.C11_Reset Zrs.proofs.C03_Desc.
Require Import Zrs.proofs.C03_FseBuild Zrs.proofs.C03_HufBuild.
Open Scope Z_scope.

Definition need_spec (r0 : Z) : Z :=
  let ty := r0 mod 4 in let sf := (r0 / 4) mod 4 in
  if ty <? 2 then (if (sf =? 0) || (sf =? 2) then 1 else if sf =? 1 then 2 else 3)
  else (if (sf =? 0) || (sf =? 1) then 3 else if sf =? 2 then 4 else 5).

Definition first_byte_check (r0 : Z) : bool :=
  match literals_section_type (r0 mod 4), header_bytes_needed r0 with
  | ROk ty, ROk need => (ty =? r0 mod 4) && (need =? need_spec r0)
  | _, _ => false
  end.
Lemma first_byte_sweep : sweep first_byte_check 0 256 = true.
Proof. vm_compute. reflexivity. Qed.
Lemma first_byte_facts r0 : 0 <= r0 < 256 ->
  literals_section_type (r0 mod 4) = ROk (r0 mod 4) /\ header_bytes_needed r0 = ROk (need_spec r0).
Proof.
  intros H. pose proof (sweep_spec _ _ _ first_byte_sweep r0 H) as F. unfold first_byte_check in F.
  destruct (literals_section_type (r0 mod 4)) as [ty|e|e]; try discriminate.
  destruct (header_bytes_needed r0) as [need|e|e]; try discriminate.
  apply andb_true_iff in F as [A B]. split; f_equal; lia.
Qed.

Lemma znth_byte raw i : bytes_ok raw = true -> 0 <= znth raw i < 256.
Proof. intros H. apply (bytes_ok_nth raw i H). Qed.

(** the shapes [parse_from_header] returns *)
Definition lit_shape (raw : list Z) (r : Z * Z * Z * option Z * option Z) : Prop :=
  let '(used, ty, regen, comp, streams) := r in
  1 <= used <= zlen raw /\ 0 <= regen /\
  ((ty = 0 \/ ty = 1) /\ comp = None /\ streams = None \/
   (ty = 2 \/ ty = 3) /\ (exists c, comp = Some c /\ 0 <= c) /\ (streams = Some 1 \/ streams = Some 4)).

Theorem lit_header_parse_shape raw : bytes_ok raw = true ->
  match lit_header_parse raw with ROk r => lit_shape raw r | RErr _ => True | RPanic _ => False end.
Proof.
  intros B. unfold lit_header_parse. destruct raw as [|r0 t] eqn:Eraw; [exact I|]. rewrite <- Eraw in *.
  assert (H0 : 0 <= r0 < 256). { pose proof (znth_byte raw 0 B) as Z0. rewrite Eraw in Z0. exact Z0. }
  destruct (first_byte_facts r0 H0) as (-> & ->). cbn [rbind].
  pose proof (znth_byte raw 1 B) as Z1. pose proof (znth_byte raw 2 B) as Z2. pose proof (znth_byte raw 3 B) as Z3. pose proof (znth_byte raw 4 B) as Z4.
  unfold need_spec. cbv zeta.
  assert (Ht : 0 <= r0 mod 4 < 4) by (apply Z.mod_pos_bound; lia).
  assert (Hs : 0 <= (r0 / 4) mod 4 < 4) by (apply Z.mod_pos_bound; lia).
  assert (D16 : 0 <= r0 / 16) by (apply Z.div_pos; lia). assert (D8 : 0 <= r0 / 8) by (apply Z.div_pos; lia).
  assert (M1 : 0 <= znth raw 1 mod 64 < 64) by (apply Z.mod_pos_bound; lia).
  assert (M2 : 0 <= znth raw 2 mod 4 < 4) by (apply Z.mod_pos_bound; lia).
  assert (M3 : 0 <= znth raw 2 mod 64 < 64) by (apply Z.mod_pos_bound; lia).
  assert (V1 : 0 <= znth raw 1 / 64) by (apply Z.div_pos; lia).
  assert (V2 : 0 <= znth raw 2 / 4) by (apply Z.div_pos; lia).
  assert (V3 : 0 <= znth raw 2 / 64) by (apply Z.div_pos; lia).
  unfold lit_shape, zlen.
  destruct (Z.ltb_spec (r0 mod 4) 2) as [T|T].
  - assert (((r0 mod 4 =? 1) || (r0 mod 4 =? 0)) = true) as -> by lia.
    assert (Hty : r0 mod 4 = 0 \/ r0 mod 4 = 1) by lia.
    destruct ((((r0 / 4) mod 4) =? 0) || (((r0 / 4) mod 4) =? 2)).
    + destruct (Z.ltb_spec (Z.of_nat (length raw)) 1); [exact I|]. split; [lia|]. split; [lia|]. left. tauto.
    + destruct (((r0 / 4) mod 4) =? 1).
      * destruct (Z.ltb_spec (Z.of_nat (length raw)) 2); [exact I|]. split; [lia|]. split; [lia|]. left. tauto.
      * destruct (Z.ltb_spec (Z.of_nat (length raw)) 3); [exact I|]. split; [lia|]. split; [lia|]. left. tauto.
  - assert (((r0 mod 4 =? 1) || (r0 mod 4 =? 0)) = false) as -> by lia.
    assert (Hty : r0 mod 4 = 2 \/ r0 mod 4 = 3) by lia.
    assert (Hst : forall b : bool, Some (if b then 1 else 4) = Some 1 \/ Some (if b then 1 else 4) = Some 4) by (intros []; tauto).
    destruct ((((r0 / 4) mod 4) =? 0) || (((r0 / 4) mod 4) =? 1)).
    + destruct (Z.ltb_spec (Z.of_nat (length raw)) 3); [exact I|]. split; [lia|]. split; [lia|]. right.
      split; [exact Hty|]. split; [eexists; split; [reflexivity|lia]|apply Hst].
    + destruct (((r0 / 4) mod 4) =? 2).
      * destruct (Z.ltb_spec (Z.of_nat (length raw)) 4); [exact I|]. split; [lia|]. split; [lia|]. right.
        split; [exact Hty|]. split; [eexists; split; [reflexivity|lia]|apply Hst].
      * destruct (Z.ltb_spec (Z.of_nat (length raw)) 5); [exact I|]. split; [lia|]. split; [lia|]. right.
        split; [exact Hty|]. split; [eexists; split; [reflexivity|lia]|apply Hst].
Qed.

(** *** decoding the section *)
Definition sec_ok (sec : lit_section) : Prop :=
  0 <= ls_regen sec /\
  ((ls_type sec = 0 \/ ls_type sec = 1) /\ ls_comp sec = None \/
   (ls_type sec = 2 \/ ls_type sec = 3) /\ (exists c, ls_comp sec = Some c /\ 0 <= c) /\
   (ls_streams sec = Some 1 \/ ls_streams sec = Some 4)).
Definition sec_upper (sec : lit_section) : Z :=
  match ls_comp sec with Some x => x | None => if ls_type sec =? 1 then 1 else ls_regen sec end.

Lemma bytes_nonneg l : bytes_ok l = true -> Forall (fun b => 0 <= b) l.
Proof. unfold bytes_ok. rewrite forallb_forall, Forall_forall. intros H x Hx. specialize (H x Hx). unfold byte_ok in H. lia. Qed.
Lemma repeat_z_len b n : length (repeat_z b n) = n.
Proof. induction n as [|n IH]; cbn [repeat_z length]; congruence. Qed.
Lemma take_all n (l : list Z) : zlen l = n -> take_z n l = l.
Proof. unfold zlen, take_z. intros <-. rewrite Nat2Z.id. apply firstn_all. Qed.
Lemma drop_len n (l : list Z) : 0 <= n <= zlen l -> zlen (drop_z n l) = zlen l - n.
Proof. unfold zlen, drop_z. intros H. rewrite skipn_length. lia. Qed.

Definition np_used (n : Z) (r : res (list Z * Z)) : Prop :=
  match r with ROk (o, used) => used = n | RErr _ => True | RPanic _ => False end.
Lemma np_bind {A} n (r : res A) f : no_panic r -> (forall o, np_used n (f o)) -> np_used n (rbind r f).
Proof. intros H1 H2. destruct r as [a|e|e]; cbn [rbind]; [apply H2|exact I|exact H1]. Qed.

Theorem decode_literals_ok sec ht source :
  sec_ok sec -> huf_good ht -> bytes_ok source = true -> zlen source = sec_upper sec ->
  match decode_literals sec ht source with
  | ROk (ht', lits, used) => huf_good ht' /\ zlen lits = ls_regen sec /\ used = zlen source
  | RErr _ => True
  | RPanic _ => False
  end.
Proof.
  intros (Hreg & Hshape) G B Hup. unfold decode_literals, sec_upper in *.
  destruct Hshape as [(Hty & Hc)|(Hty & (c & Hc & Hc0) & Hst)].
  - rewrite Hc in Hup. destruct Hty as [E|E]; rewrite E in *; cbn [Z.eqb Pos.eqb] in *.
    + destruct (Z.ltb_spec (zlen source) (ls_regen sec)); [lia|]. split; [exact G|]. rewrite take_all by exact Hup. split; lia.
    + destruct source as [|b t]; [unfold zlen in Hup; cbn [length] in Hup; lia|]. split; [exact G|].
      unfold zlen in *. rewrite repeat_z_len. split; lia.
  - assert (T0 : ls_type sec =? 0 = false) by lia. assert (T1 : ls_type sec =? 1 = false) by lia. rewrite T0, T1, Hc in *.
    destruct (ls_streams sec) as [ns|] eqn:Ens; [|destruct Hst; discriminate].
    destruct (Z.ltb_spec (zlen source) c); [lia|]. rewrite take_all by exact Hup.
    (* the table *)
    assert (HT : match (if ls_type sec =? 2 then huf_build_decoder ht source
                        else if ht_max_bits ht =? 0 then RErr "UninitializedHuffmanTable"%string else ROk (ht, 0)) with
                 | ROk (t', br) => huf_complete t' /\ huf_good t' /\ 0 <= br <= zlen source
                 | RErr _ => True | RPanic _ => False end).
    { destruct (ls_type sec =? 2).
      - apply huf_build_decoder_good; [exact (proj1 G)|apply bytes_nonneg; exact B].
      - destruct (Z.eqb_spec (ht_max_bits ht) 0) as [|Hn]; [exact I|]. destruct G as (G1 & [G2|G2]); [contradiction|].
        split; [exact G2|]. split; [split; [exact G1|right; exact G2]|unfold zlen; lia]. }
    destruct (if ls_type sec =? 2 then _ else _) as [[t' br]|e|e]; cbn [rbind]; [|exact I|contradiction].
    destruct HT as (C & G' & Hbr).
    destruct (Z.ltb_spec (zlen source) br); [lia|].
    pose proof (drop_len br source Hbr) as Ld. remember (drop_z br source) as src1 eqn:Es1.
    assert (HS : np_used (zlen source) (if ns =? 4 then
             if zlen src1 <? 6 then RErr "MissingBytesForJumpHeader"%string
             else
               let jump1 := nth_z src1 0 + nth_z src1 1 * 256 in
               let jump2 := jump1 + nth_z src1 2 + nth_z src1 3 * 256 in
               let jump3 := jump2 + nth_z src1 4 + nth_z src1 5 * 256 in
               let src := drop_z 6 src1 in
               if zlen src <? jump3 then RErr "MissingBytesForLiterals"%string
               else
                 let s1 := take_z jump1 src in
                 let s2 := take_z (jump2 - jump1) (drop_z jump1 src) in
                 let s3 := take_z (jump3 - jump2) (drop_z jump2 src) in
                 let s4 := drop_z jump3 src in
                 let* o := huf_decode_stream t' s1 [] true in
                 let* o := huf_decode_stream t' s2 o true in
                 let* o := huf_decode_stream t' s3 o true in
                 let* o := huf_decode_stream t' s4 o true in
                 ROk (o, br + 6 + zlen src)
           else if ns =? 1 then
             let* o := huf_decode_stream t' src1 [] false in
             ROk (o, br + zlen src1)
           else RPanic "assert num_streams == 1")).
    { assert (Hns : ns = 1 \/ ns = 4) by (destruct Hst as [E|E]; injection E; lia).
      destruct (Z.eqb_spec ns 4) as [E4|N4].
      - destruct (Z.ltb_spec (zlen src1) 6) as [|H6]; [exact I|]. cbv zeta.
        destruct (_ <? _); [exact I|].
        apply np_bind; [apply complete_stream_no_panic; exact C|intros o1].
        apply np_bind; [apply complete_stream_no_panic; exact C|intros o2].
        apply np_bind; [apply complete_stream_no_panic; exact C|intros o3].
        apply np_bind; [apply complete_stream_no_panic; exact C|intros o4]. unfold np_used.
        rewrite (drop_len 6 src1) by lia. lia.
      - destruct (Z.eqb_spec ns 1) as [E1|]; [|lia].
        apply np_bind; [apply complete_stream_no_panic; exact C|intros o1]. unfold np_used. lia. }
    unfold np_used in HS. destruct (if ns =? 4 then _ else _) as [[o used]|e|e]; cbn [rbind]; [|exact I|contradiction].
    destruct (Z.eqb_spec (zlen o) (ls_regen sec)) as [Eo|]; cbn [negb]; [|exact I].
    split; [exact G'|]. split; [|exact HS]. unfold zlen in *. rewrite rev'_rev, rev_length. exact Eo.
Qed.
