(** C01 / C10: the block loop composes the blocks.  A frame body assembled from any list of blocks -- raw, RLE or
    compressed, each written with the format's block header, the last one flagged -- is decoded block by block: the
    scratch space after the loop is the one obtained by running the blocks in order, the frame is finished, the optional
    checksum is read, and what follows the frame is left unread.  With the block theorems (raw, RLE, compressed in any
    layout and modes) this composes whole frames. *)
Require Import Zrs.lib.RsPrelude Zrs.gen.Generated Zrs.model.Headers Zrs.model.BitIO Zrs.model.FseDec Zrs.model.HufDec
  Zrs.model.BlockDec Zrs.model.FrameDec Zrs.model.FrameEnc.
Require Import Zrs.proofs.C14_Headers Zrs.proofs.C15_Frame Zrs.proofs.C06_Drain Zrs.proofs.C02_Roundtrip Zrs.proofs.C10_Prefix.
Open Scope Z_scope.

Record bitem := { bi_ty : Z; bi_size : nat; bi_payload : list Z }.
Definition bi_dsize (it : bitem) : Z := if (bi_ty it =? 0) || (bi_ty it =? 1) then Z.of_nat (bi_size it) else 0.
Definition bi_csize (it : bitem) : Z := if bi_ty it =? 1 then 1 else Z.of_nat (bi_size it).

(** what one block does to the scratch space: its content decoder, on exactly its payload *)
Definition item_run (sc : scratch) (it : bitem) : res scratch :=
  match decode_block_content (bi_ty it) (bi_dsize it) (bi_csize it) sc (bi_payload it) with
  | ROk (sc', _, []) => ROk sc'
  | ROk _ => RErr "payload longer than the block"
  | RErr e => RErr e
  | RPanic e => RPanic e
  end.
Fixpoint items_run (sc : scratch) (items : list bitem) : res scratch :=
  match items with
  | [] => ROk sc
  | it :: t => let* sc' := item_run sc it in items_run sc' t
  end.

(** the bytes of the frame body: header + payload per block, the last block flagged *)
Fixpoint items_bytes (items : list bitem) : res (list Z) :=
  match items with
  | [] => ROk []
  | [it] => block_bytes (bi_ty it) (bi_size it) true (bi_payload it)
  | it :: t => let* b := block_bytes (bi_ty it) (bi_size it) false (bi_payload it) in
               let* r := items_bytes t in ROk (b ++ r)
  end.

Definition item_ok (it : bitem) : Prop := 0 <= bi_ty it <= 2 /\ Z.of_nat (bi_size it) <= 131072.

Lemma item_run_ext sc it sc' rest : item_run sc it = ROk sc' ->
  exists n, decode_block_content (bi_ty it) (bi_dsize it) (bi_csize it) sc (bi_payload it ++ rest) = ROk (sc', n, rest).
Proof.
  unfold item_run. destruct (decode_block_content _ _ _ sc (bi_payload it)) as [[[sc1 n] r]|e|e] eqn:E; try discriminate.
  destruct r; [|discriminate]. intros [= <-]. exists n. apply (decode_block_content_ext _ _ _ _ _ _ _ _ rest E).
Qed.

Theorem blocks_loop_composes items : forall fuel s body tail rest lb bb sc',
  items <> [] -> Forall item_ok items -> items_bytes items = ROk body -> items_run (fr_scratch s) items = ROk sc' ->
  (length items < fuel)%nat ->
  (if checksum_flag s then exists ck, tail = ck ++ rest /\ length ck = 4%nat else tail = rest) ->
  exists s', decode_blocks_loop fuel s (body ++ tail) SAll lb bb = ROk (s', rest) /\
             fr_scratch s' = sc' /\ fr_finished s' = true /\ fr_header s' = fr_header s /\
             fr_blocks s' = fr_blocks s + Z.of_nat (length items) /\
             (checksum_flag s = false -> fr_checksum s' = fr_checksum s) /\
             (checksum_flag s = true -> exists ck, tail = ck ++ rest /\ length ck = 4%nat /\ fr_checksum s' = Some (le_val ck)).
Proof.
  induction items as [|it t IH]; intros fuel s body tail rest lb bb sc' Hne Hok Hb Hrun Hf Htail; [congruence|].
  destruct fuel as [|f]; [cbn in Hf; lia|]. inversion Hok as [|? ? (Hty & Hsz) Hok']; subst.
  cbn [items_run] in Hrun. destruct (item_run (fr_scratch s) it) as [sc1|e|e] eqn:Er; cbn [rbind] in Hrun; try discriminate.
  cbn [decode_blocks_loop].
  destruct t as [|it2 t2].
  - (* the last block *)
    cbn [items_bytes] in Hb. cbn [items_run] in Hrun. injection Hrun as <-.
    destruct (block_header_read (bi_ty it) (bi_size it) true (bi_payload it) tail Hty Hsz) as (hdr & E1 & L1 & R1).
    rewrite Hb in E1. injection E1 as ->. rewrite R1. cbn [rbind]. cbn [fr_scratch set_scratch].
    destruct (item_run_ext _ _ _ tail Er) as (n & Ec). fold (bi_dsize it) (bi_csize it). rewrite Ec. cbn [rbind].
    unfold checksum_flag in *. cbn [set_scratch fr_header] in *.
    destruct (content_checksum_flag (fh_desc (fr_header s))) eqn:Eck.
    + destruct Htail as (ck & -> & Lck).
      assert (Ere : read_exact 4 (ck ++ rest) = Some (ck, rest)).
      { replace 4 with (Z.of_nat (length ck)) by lia. apply read_exact_app. }
      rewrite Ere. eexists. split; [reflexivity|]. cbn [finish fr_finished fr_header fr_checksum fr_scratch fr_blocks set_scratch length].
      split; [reflexivity|]. split; [reflexivity|]. split; [reflexivity|]. split; [lia|]. split; [discriminate|].
      intros _. exists ck. repeat split; assumption.
    + subst tail. eexists. split; [reflexivity|]. cbn [finish fr_finished fr_header fr_checksum fr_scratch fr_blocks set_scratch length].
      split; [reflexivity|]. split; [reflexivity|]. split; [reflexivity|]. split; [lia|]. split; [reflexivity|discriminate].
  - remember (it2 :: t2) as t eqn:Et. cbn [items_bytes] in Hb. rewrite Et in Hb. rewrite <- Et in Hb.
    destruct (block_bytes (bi_ty it) (bi_size it) false (bi_payload it)) as [b|e|e] eqn:Eb; cbn [rbind] in Hb; try discriminate.
    destruct (items_bytes t) as [r|e|e] eqn:Erest; cbn [rbind] in Hb; try discriminate. injection Hb as <-.
    destruct (block_header_read (bi_ty it) (bi_size it) false (bi_payload it) (r ++ tail) Hty Hsz) as (hdr & E1 & L1 & R1).
    rewrite Eb in E1. injection E1 as ->.
    rewrite <- (app_assoc (hdr ++ bi_payload it) r tail). rewrite R1. cbn [rbind]. cbn [fr_scratch set_scratch].
    destruct (item_run_ext _ _ _ (r ++ tail) Er) as (n & Ec). fold (bi_dsize it) (bi_csize it). rewrite Ec. cbn [rbind].
    set (s1 := set_scratch (set_scratch s (fr_scratch s) 3 0) sc1 n 1).
    destruct (IH f s1 r tail rest lb bb sc' ltac:(rewrite Et; discriminate) Hok' eq_refl Hrun ltac:(cbn [length] in Hf; lia)) as (s' & El & F1 & F2 & F3 & F4 & F5 & F6).
    { unfold checksum_flag, s1 in *. cbn [set_scratch fr_header]. exact Htail. }
    rewrite El. exists s'. split; [reflexivity|]. split; [exact F1|]. split; [exact F2|]. split; [rewrite F3; reflexivity|].
    split; [rewrite F4; unfold s1; cbn [set_scratch fr_blocks length]; lia|].
    split; [intros Hc; rewrite F5 by exact Hc; reflexivity|exact F6].
Qed.

(** *** the three kinds of block as items *)
Lemma item_run_raw sc d : item_run sc {| bi_ty := 0; bi_size := length d; bi_payload := d |} = ROk (sc_push_raw sc d).
Proof.
  unfold item_run, bi_dsize, bi_csize. cbn [bi_ty bi_size bi_payload Z.eqb orb].
  pose proof (raw_content sc d []) as H. rewrite app_nil_r in H. rewrite H. reflexivity.
Qed.
Lemma item_run_rle sc b n : item_run sc {| bi_ty := 1; bi_size := n; bi_payload := [b] |} = ROk (sc_push_raw sc (repeat_z b n)).
Proof.
  unfold item_run, bi_dsize, bi_csize. cbn [bi_ty bi_size bi_payload Z.eqb Pos.eqb orb].
  pose proof (rle_content sc b n []) as H. cbn [app] in H. rewrite H. reflexivity.
Qed.
Lemma item_run_compressed sc body : 
  item_run sc {| bi_ty := 2; bi_size := length body; bi_payload := body |} = decompress_block (zlen body) sc body.
Proof.
  unfold item_run, bi_dsize, bi_csize. cbn [bi_ty bi_size bi_payload Z.eqb Pos.eqb orb]. unfold decode_block_content.
  cbn [Z.eqb Pos.eqb]. pose proof (read_exact_app body []) as H. rewrite app_nil_r in H. rewrite H. unfold zlen.
  destruct (decompress_block (Z.of_nat (length body)) sc body) as [sc'|e|e]; reflexivity.
Qed.

(** *** a whole frame: header, blocks, optional checksum, then whatever follows *)
Theorem frame_composes d hdr d1 ev s items body tail rest sc' :
  fdec_reset d hdr = ROk (d1, [], ev) -> fd_state d1 = Some s ->
  items <> [] -> Forall item_ok items -> items_bytes items = ROk body -> items_run (fr_scratch s) items = ROk sc' ->
  (if checksum_flag s then exists ck, tail = ck ++ rest /\ length ck = 4%nat else tail = rest) ->
  fdec_reset d (hdr ++ body ++ tail) = ROk (d1, body ++ tail, ev) /\
  exists d2 s', fdec_decode_blocks d1 (body ++ tail) SAll = ROk (d2, rest, true) /\ fd_state d2 = Some s' /\
    fr_scratch s' = sc' /\ fr_header s' = fr_header s /\ fr_blocks s' = fr_blocks s + Z.of_nat (length items) /\
    (checksum_flag s = true -> exists ck, tail = ck ++ rest /\ length ck = 4%nat /\ fr_checksum s' = Some (le_val ck)).
Proof.
  intros Hr Hs Hne Hok Hb Hrun Htail.
  split; [apply (fdec_reset_ext _ _ _ _ _ (body ++ tail) Hr)|].
  unfold fdec_decode_blocks. rewrite Hs.
  assert (Hlen : (length items <= length (body ++ tail))%nat).
  { clear - Hb. revert body Hb. induction items as [|it t IH]; intros body Hb; [cbn; lia|]. cbn [items_bytes] in Hb.
    destruct t as [|it2 t2].
    - pose proof (block_bytes_len _ _ _ _ _ Hb) as L. rewrite app_length. cbn [length]. lia.
    - remember (it2 :: t2) as t eqn:Et. destruct (block_bytes _ _ false _) as [b|e|e] eqn:Eb; cbn [rbind] in Hb; try discriminate.
      destruct (items_bytes t) as [r|e|e] eqn:Er; cbn [rbind] in Hb; try discriminate. injection Hb as <-.
      pose proof (block_bytes_len _ _ _ _ _ Eb) as L. specialize (IH r eq_refl). rewrite !app_length in *. cbn [length]. lia. }
  destruct (blocks_loop_composes items (S (S (length (body ++ tail)))) s body tail rest (db_len (sc_buf (fr_scratch s))) (fr_blocks s) sc' Hne Hok Hb Hrun ltac:(lia) Htail)
    as (s' & El & F1 & F2 & F3 & F4 & F5 & F6).
  rewrite El. cbn [rbind]. rewrite F2. eexists _, s'. split; [reflexivity|]. split; [reflexivity|]. repeat split; assumption.
Qed.
