(** C13 / C02: the code word read off a decoding table for a symbol (its first index, shortened to the code length) is
    well formed and is resolved by exactly the table indices that start with it -- for every table the decoder builds
    and every symbol that has a code.  These are the side conditions of the literals round-trip theorems
    ([code_ok_b], [resolves_b] of model/LitEnc.v), here proved for all tables instead of evaluated. *)
Require Import Zrs.lib.RsPrelude Zrs.gen.Generated Zrs.model.Headers Zrs.model.BitIO Zrs.model.FseDec Zrs.model.HufDec Zrs.model.BlockDec Zrs.model.LitEnc.
Require Import Zrs.proofs.C03_HufTable Zrs.proofs.C03_HufComplete Zrs.proofs.C13_Canonical.
Open Scope Z_scope.

Lemma find_sym_first l : forall i0 s k, (k < length l)%nat -> h_sym (nth k l hentry0) = s ->
  (forall j, (j < k)%nat -> h_sym (nth j l hentry0) <> s) -> find_sym l i0 s = Some (i0 + Z.of_nat k, nth k l hentry0).
Proof.
  induction l as [|e t IH]; intros i0 s k Hk Hs Hfirst; [cbn in Hk; lia|]. cbn [find_sym].
  destruct k as [|k].
  - cbn [nth] in *. rewrite Hs, Z.eqb_refl. replace (i0 + Z.of_nat 0) with i0 by lia. reflexivity.
  - destruct (Z.eqb_spec (h_sym e) s) as [E|_]; [exfalso; apply (Hfirst 0%nat ltac:(lia)); exact E|].
    cbn [nth]. rewrite (IH (i0 + 1) s k ltac:(cbn in Hk; lia) Hs); [replace (i0 + 1 + Z.of_nat k) with (i0 + Z.of_nat (S k)) by lia; reflexivity|].
    intros j Hj. apply (Hfirst (S j)). lia.
Qed.

Lemma nodup_key {A} (f : A -> Z) (l : list A) a b : NoDup (map f l) -> In a l -> In b l -> f a = f b -> a = b.
Proof.
  induction l as [|x t IH]; intros Hnd Ha Hb Hf; [contradiction|]. cbn [map] in Hnd. inversion Hnd as [|? ? Hnotin Hnd']; subst.
  destruct Ha as [->|Ha]; destruct Hb as [->|Hb]; [reflexivity| | |apply IH; assumption].
  - exfalso. apply Hnotin. rewrite Hf. apply in_map. exact Hb.
  - exfalso. apply Hnotin. rewrite <- Hf. apply in_map. exact Ha.
Qed.

Theorem built_table_codes ws dec M bits ranks idxs t : Forall (fun w => 0 <= w) ws -> (length ws <= 255)%nat ->
  build_table_from_weights ws = ROk (dec, M, bits, ranks, idxs) -> ht_decode t = dec -> ht_max_bits t = M ->
  (* every symbol the table can deliver, and every symbol with a code length *)
  (forall i, 0 <= i < 2 ^ M -> let s := h_sym (nth_h dec i) in
     code_ok_b (Z.to_nat M) (code_of_dec t) s = true /\ resolves_b t (Z.to_nat M) (code_of_dec t) s = true) /\
  (forall j, (j < length bits)%nat -> 0 < nth j bits 0 ->
     code_ok_b (Z.to_nat M) (code_of_dec t) (Z.of_nat j) = true /\ resolves_b t (Z.to_nat M) (code_of_dec t) (Z.of_nat j) = true /\
     snd (code_of_dec t (Z.of_nat j)) = Z.to_nat (nth j bits 0)).
Proof.
  intros Hnn Hlen Hb Hd Hm.
  destruct (built_table_blocks ws dec M bits ranks idxs Hnn Hlen Hb) as (placed & ND & Hblk & Hcover & Hsyms).
  destruct (build_table_setup ws dec M bits ranks idxs Hnn Hb) as (HM & _ & Hbits & _).
  assert (Ldec : Z.of_nat (length dec) = 2 ^ M).
  { destruct (built_huffman_table_complete ws dec M bits ranks idxs Hnn Hb) as (L & _). exact L. }
  (* the facts for one block *)
  assert (Hone : forall s base n, In (s, base, n) placed ->
            code_of_dec t s = (base / 2 ^ Z.of_nat n, Z.to_nat (M - Z.of_nat n)) /\
            code_ok_b (Z.to_nat M) (code_of_dec t) s = true /\ resolves_b t (Z.to_nat M) (code_of_dec t) s = true).
  { intros s base n Hin. destruct (Hblk s base n Hin) as (B1 & B2 & B3 & B4 & B5 & B6).
    assert (P : 0 < 2 ^ Z.of_nat n) by (apply Z.pow_pos_nonneg; lia).
    assert (Ecode : code_of_dec t s = (base / 2 ^ Z.of_nat n, Z.to_nat (M - Z.of_nat n))).
    { unfold code_of_dec. rewrite Hd, Hm.
      rewrite (find_sym_first dec 0 s (Z.to_nat base)).
      - change (nth (Z.to_nat base) dec hentry0) with (nth_h dec base). rewrite Z2Nat.id by lia.
        rewrite (B6 base ltac:(lia)). cbn [h_bits]. replace (M - (M - Z.of_nat n)) with (Z.of_nat n) by lia. rewrite Z.add_0_l. reflexivity.
      - lia.
      - change (nth (Z.to_nat base) dec hentry0) with (nth_h dec base). rewrite (B6 base ltac:(lia)). reflexivity.
      - intros j Hj Hs. destruct (Hcover (Z.of_nat j) ltac:(lia)) as (s' & base' & n' & Hin' & Hr').
        destruct (Hblk s' base' n' Hin') as (_ & _ & _ & _ & _ & B6').
        assert (E : h_sym (nth j dec hentry0) = s').
        { pose proof (B6' (Z.of_nat j) Hr') as X. unfold nth_h in X. rewrite Nat2Z.id in X. rewrite X. reflexivity. }
        assert (Es : s' = s) by congruence. clear E. rewrite Es in *. clear Es.
        pose proof (nodup_key blk_sym placed (s, base, n) (s, base', n') ND Hin Hin' eq_refl) as Eq. injection Eq as <- <-. lia. }
    split; [exact Ecode|]. rewrite Z.mod_divide in B5 by lia. destruct B5 as (q & Eq).
    assert (Eq' : base / 2 ^ Z.of_nat n = q) by (rewrite Eq; apply Z.div_mul; lia).
    assert (E2 : 2 ^ M = 2 ^ (M - Z.of_nat n) * 2 ^ Z.of_nat n) by (rewrite <- Z.pow_add_r by lia; f_equal; lia).
    split.
    - unfold code_ok_b. rewrite Ecode. cbn [fst snd]. rewrite Eq'.
      assert ((1 <=? Z.to_nat (M - Z.of_nat n))%nat = true) as -> by (apply Nat.leb_le; lia).
      assert ((Z.to_nat (M - Z.of_nat n) <=? Z.to_nat M)%nat = true) as -> by (apply Nat.leb_le; lia).
      rewrite Z2Nat.id by lia. cbn [andb].
      assert (0 <= q) by nia. assert (q < 2 ^ (M - Z.of_nat n)) by nia.
      destruct (Z.leb_spec 0 q); destruct (Z.ltb_spec q (2 ^ (M - Z.of_nat n))); try lia; reflexivity.
    - unfold resolves_b. rewrite Ecode. cbn [fst snd]. rewrite Eq'.
      replace (Z.to_nat M - Z.to_nat (M - Z.of_nat n))%nat with n by lia. rewrite <- Eq.
      apply forallb_forall. intros k Hk. apply in_seq in Hk. rewrite Hd.
      rewrite (B6 (base + Z.of_nat k)) by lia. cbn [h_sym h_bits]. rewrite Z.eqb_refl. rewrite Z2Nat.id by lia. rewrite Z.eqb_refl. reflexivity. }
  split.
  - intros i Hi. cbn zeta. destruct (Hcover i Hi) as (s & base & n & Hin & Hr). destruct (Hblk s base n Hin) as (_ & _ & _ & _ & _ & B6).
    rewrite (B6 i Hr). cbn [h_sym]. destruct (Hone s base n Hin) as (_ & A & B). split; assumption.
  - intros j Hj Hpos. destruct (Hsyms j Hj Hpos) as (base & Hin & _). destruct (Hone _ _ _ Hin) as (Ec & A & B).
    split; [exact A|]. split; [exact B|]. rewrite Ec. cbn [snd]. rewrite Forall_forall in Hbits. pose proof (Hbits _ (nth_In bits 0 Hj)) as Hle. f_equal. lia.
Qed.

(** for the tables of [build_decoder]: the side conditions of the literals round trip that concern the table hold for
    every symbol the table can deliver (in particular for every literal that was decoded with it) *)
Theorem decoder_table_side_conditions ht src t used : huf_build_decoder ht src = ROk (t, used) ->
  Forall (fun w => 0 <= w) (ht_weights t) -> (length (ht_weights t) <= 255)%nat ->
  let mn := Z.to_nat (ht_max_bits t) in
  table_side_b t mn = true /\
  forall i, 0 <= i < 2 ^ ht_max_bits t -> let s := h_sym (nth_h (ht_decode t) i) in
    code_ok_b mn (code_of_dec t) s = true /\ resolves_b t mn (code_of_dec t) s = true.
Proof.
  unfold huf_build_decoder. intros H Hw Hl.
  destruct (read_weights ht src) as [[[ws ft] bytes]|e|e]; cbn [rbind] in H; try discriminate.
  destruct (build_table_from_weights ws) as [[[[[dec M] bits] ranks] idxs]|e|e] eqn:Eb; cbn [rbind] in H; try discriminate.
  injection H as <- _. cbn [ht_weights ht_max_bits ht_decode] in *.
  destruct (built_huffman_table_complete ws dec M bits ranks idxs Hw Eb) as (Ld & HM & _).
  split.
  - unfold table_side_b. cbn [ht_max_bits ht_len]. rewrite Z2Nat.id by lia. rewrite !Z.eqb_refl.
    assert ((1 <=? Z.to_nat M)%nat = true) as -> by (apply Nat.leb_le; lia). reflexivity.
  - set (t := {| ht_decode := dec; ht_len := 2 ^ M; ht_weights := ws; ht_max_bits := M; ht_bits := bits; ht_bit_ranks := ranks; ht_rank_indexes := idxs; ht_fse := ft |}).
    destruct (built_table_codes ws dec M bits ranks idxs t Hw Hl Eb eq_refl eq_refl) as (A & _). exact A.
Qed.
