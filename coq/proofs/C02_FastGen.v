(** C02 / C16 / C17: one block of the Fastest level, end to end, for ANY literals-section encoding the decoder reads
    back (raw, Huffman with description, treeless): match finder report -> literal buffer and triples -> block body ->
    decoder appends exactly the block's data. *)
Require Import Zrs.lib.RsPrelude Zrs.gen.Generated Zrs.model.Headers Zrs.model.BitIO Zrs.model.FseDec Zrs.model.HufDec Zrs.model.BlockDec Zrs.model.Matcher.
Require Import Zrs.model.SeqEnc Zrs.model.SeqSection Zrs.model.BlockEnc Zrs.model.LitEnc.
Require Import Zrs.proofs.C06_Drain Zrs.proofs.C09_Lz Zrs.proofs.C17_Matcher Zrs.proofs.C12_SeqStream Zrs.proofs.C13_Stream Zrs.proofs.C02_Block.
Require Import Zrs.proofs.C17_Shape Zrs.proofs.C02_Glue Zrs.proofs.C02_FastBlock.
Require Import Zrs.proofs.C02_BlockGen Zrs.proofs.C13_LitSection Zrs.proofs.C02_HufBlock.
Open Scope Z_scope.

Section AnyLiterals.
  Variables (hdr payload : list Z) (ty regen : Z) (comp streams : option Z).
  Variable sc : scratch.
  Variables (ht' : huf_table) (lits : list Z).
  Hypothesis Hhdr : forall rest, lit_header_parse (hdr ++ rest) = ROk (zlen hdr, ty, regen, comp, streams).
  Hypothesis Hupper : match comp with Some x => x | None => if ty =? 1 then 1 else regen end = zlen payload.
  Hypothesis Hregen : regen = zlen lits /\ regen <= MAX_BLOCK_SIZE.
  Hypothesis Hlits : decode_literals {| ls_type := ty; ls_regen := regen; ls_comp := comp; ls_streams := streams |} (sc_huf sc) payload
                     = ROk (ht', lits, zlen payload).

  Theorem valid_parse_block ts tail H data dl do dm sp pre :
    lits = mseqs_lits (ts ++ tail) ->
    Forall is_triple ts -> (tail = [] \/ exists l, tail = [MLit l]) -> Forall long_enough (ts ++ tail) ->
    apply_seqs H (ts ++ tail) = Some (H ++ data) -> Z.of_nat (length data) <= MAX_BLOCK_SIZE ->
    seq_part dl do dm (mseqs_seqs (ts ++ tail)) = ROk sp ->
    (mseqs_seqs (ts ++ tail) <> [] -> section_hyps_b dl do dm (mseqs_seqs (ts ++ tail)) = true) ->
    t_max_symbol (fs_ll (sc_fse sc)) = MAX_LITERAL_LENGTH_CODE -> t_max_symbol (fs_of (sc_fse sc)) = MAX_OFFSET_CODE ->
    t_max_symbol (fs_ml (sc_fse sc)) = MAX_MATCH_LENGTH_CODE ->
    db_wf (sc_buf sc) -> db_rev (sc_buf sc) = rev H ++ pre -> hist3 (sc_hist sc) ->
    exists sc',
      decompress_block (zlen (hdr ++ payload ++ sp)) sc (hdr ++ payload ++ sp) = ROk sc' /\
      db_wf (sc_buf sc') /\ db_rev (sc_buf sc') = rev (H ++ data) ++ pre /\ hist3 (sc_hist sc') /\
      sc_huf sc' = ht' /\ db_dict (sc_buf sc') = db_dict (sc_buf sc) /\ db_window (sc_buf sc') = db_window (sc_buf sc) /\
      db_hashed_rev (sc_buf sc') = db_hashed_rev (sc_buf sc) /\
      t_max_symbol (fs_ll (sc_fse sc')) = MAX_LITERAL_LENGTH_CODE /\ t_max_symbol (fs_of (sc_fse sc')) = MAX_OFFSET_CODE /\
      t_max_symbol (fs_ml (sc_fse sc')) = MAX_MATCH_LENGTH_CODE.
  Proof.
    intros El Ht Htail Hlong Ha Hd Hsp Hh M1 M2 M3 W R H3.
    pose proof (apply_seqs_length _ _ _ Ha) as Ltot. rewrite app_length in Ltot.
    pose proof (mseqs_seqs_count _ Hlong) as Lseq.
    change MAX_BLOCK_SIZE with 131072 in *.
    pose proof (block_decodes hdr payload ty regen comp streams sc ht' lits Hhdr Hupper Hregen Hlits dl do dm _ sp Hsp ltac:(lia) Hh M1 M2 M3) as Hdec.
    destruct (mseqs_seqs (ts ++ tail)) as [|q qs] eqn:Es.
    - pose proof (mseqs_seqs_nil ts tail Ht Htail Es) as ->. cbn [app] in *.
      assert (El2 : H ++ mseqs_lits tail = H ++ data).
      { destruct Htail as [->|(l & ->)]; cbn [apply_seqs apply_seq] in Ha; injection Ha as Ha; unfold mseqs_lits; cbn; rewrite ?app_nil_r; congruence. }
      apply app_inv_head in El2. rewrite <- El in El2. rewrite El2 in Hdec.
      eexists. split; [exact Hdec|]. cbn [sc_buf sc_hist sc_huf sc_fse].
      unfold db_wf, db_push, db_add_total, db_append_raw in *. cbn [db_len db_rev db_dict db_window db_hashed_rev].
      rewrite rev_append_rev, R, app_length, rev_length, rev_app_distr, <- app_assoc, W, R.
      repeat split; try assumption; try reflexivity. lia.
    - rewrite <- Es in *.
      destruct (matcher_output_executes ts tail H data (sc_buf sc) (sc_hist sc) pre Ht Htail Ha W R H3 ltac:(change MAX_BLOCK_SIZE with 131072; lia))
        as (buf' & hist' & Ex & W' & R' & H3' & D' & Wi' & Hx').
      rewrite Es in Hdec. rewrite <- Es in Hdec. rewrite <- El in Ex.
      destruct (build_table MAX_LITERAL_LENGTH_CODE dl) as [Dll|e|e] eqn:B1.
      2,3: (specialize (Hh ltac:(rewrite Es; discriminate)); unfold section_hyps_b in Hh; rewrite B1 in Hh;
            destruct (map_res to_cseq (mseqs_seqs (ts ++ tail))); discriminate).
      destruct (build_table MAX_MATCH_LENGTH_CODE dm) as [Dml|e|e] eqn:B2.
      2,3: (specialize (Hh ltac:(rewrite Es; discriminate)); unfold section_hyps_b in Hh; rewrite B1, B2 in Hh;
            destruct (map_res to_cseq (mseqs_seqs (ts ++ tail))); destruct (build_table MAX_OFFSET_CODE do); discriminate).
      destruct (build_table MAX_OFFSET_CODE do) as [Dof|e|e] eqn:B3.
      2,3: (specialize (Hh ltac:(rewrite Es; discriminate)); unfold section_hyps_b in Hh; rewrite B1, B2, B3 in Hh;
            destruct (map_res to_cseq (mseqs_seqs (ts ++ tail))); discriminate).
      rewrite Ex in Hdec. cbn [rbind] in Hdec.
      eexists. split; [exact Hdec|]. cbn [sc_buf sc_hist sc_huf sc_fse]. unfold C12_SeqStream.sc. cbn [fs_ll fs_of fs_ml].
      unfold build_table, fse_build_from_probabilities in B1, B2, B3.
      assert (T : forall ms al P D, (if al =? 0 then RErr "AccLogIsZero"
                                     else let* (dec, counter) := build_decoding_table (t_max_symbol (fse_new ms)) al P in
                                          ROk {| t_max_symbol := t_max_symbol (fse_new ms); t_decode := dec; t_acc_log := al; t_probs := P; t_counter := counter |}) = ROk D ->
                                    t_max_symbol D = ms).
      { intros ms al P D E. destruct (al =? 0); [discriminate|].
        destruct (build_decoding_table _ al P) as [[dec counter]|e|e]; cbn [rbind] in E; try discriminate. injection E as <-. reflexivity. }
      repeat split; try assumption; try reflexivity; eapply T; eassumption.
  Qed.

  (** ... with the built-in match finder producing the parse *)
  Theorem fastest_block_step d data d' seqs dl do dm sp pre :
    DInv d -> (length data <= max_window d)%nat -> Z.of_nat (length data) <= MAX_BLOCK_SIZE ->
    mstep d (OpBlock data false) = ROk (d', Some seqs) ->
    lits = mseqs_lits seqs ->
    seq_part dl do dm (mseqs_seqs seqs) = ROk sp ->
    (mseqs_seqs seqs <> [] -> section_hyps_b dl do dm (mseqs_seqs seqs) = true) ->
    t_max_symbol (fs_ll (sc_fse sc)) = MAX_LITERAL_LENGTH_CODE -> t_max_symbol (fs_of (sc_fse sc)) = MAX_OFFSET_CODE ->
    t_max_symbol (fs_ml (sc_fse sc)) = MAX_MATCH_LENGTH_CODE ->
    db_wf (sc_buf sc) -> db_rev (sc_buf sc) = rev (retained d) ++ pre -> hist3 (sc_hist sc) ->
    exists sc' pre',
      decompress_block (zlen (hdr ++ payload ++ sp)) sc (hdr ++ payload ++ sp) = ROk sc' /\
      db_rev (sc_buf sc') = rev data ++ db_rev (sc_buf sc) /\
      db_wf (sc_buf sc') /\ db_rev (sc_buf sc') = rev (retained d') ++ pre' /\ hist3 (sc_hist sc') /\
      sc_huf sc' = ht' /\ db_dict (sc_buf sc') = db_dict (sc_buf sc) /\ db_window (sc_buf sc') = db_window (sc_buf sc) /\
      t_max_symbol (fs_ll (sc_fse sc')) = MAX_LITERAL_LENGTH_CODE /\ t_max_symbol (fs_of (sc_fse sc')) = MAX_OFFSET_CODE /\
      t_max_symbol (fs_ml (sc_fse sc')) = MAX_MATCH_LENGTH_CODE.
  Proof.
    intros HI Hfit Hd Hstep El Hsp Hh M1 M2 M3 W R H3.
    destruct (mstep_spec d (OpBlock data false) HI Hfit) as (d2 & out & E & _ & _ & dr & H & R1 & R2 & R3 & seqs2 & Eo & A & B).
    rewrite Hstep in E. injection E as <- <-. injection Eo as <-.
    destruct (mstep_block_shape d data d' seqs Hstep) as (ts & tail & -> & Ht & Htail).
    assert (Hlong : Forall long_enough (ts ++ tail)) by (eapply Forall_impl; [|exact B]; intros; eapply seq_bounds_long; eassumption).
    rewrite R1, rev_app_distr, <- app_assoc in R.
    destruct (valid_parse_block ts tail H data dl do dm sp (rev dr ++ pre) El Ht Htail Hlong A Hd Hsp Hh M1 M2 M3 W R H3)
      as (sc' & Hdec & W' & R' & H3' & Hu & Dd & Dw & _ & N1 & N2 & N3).
    exists sc', (rev dr ++ pre). split; [exact Hdec|]. split.
    { rewrite R', R, rev_app_distr, <- app_assoc. reflexivity. }
    split; [exact W'|]. split; [rewrite R2; exact R'|]. repeat split; assumption.
  Qed.
End AnyLiterals.
