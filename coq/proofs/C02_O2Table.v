(** C02 / C16: obligation O2 reduced to a comparison of bytes.  If the literals section the compressor writes is the
    section of the model -- header, table description, four streams coded with the code read off the table the DECODER
    builds from that description (or, treeless, off the table the decoder already holds) -- then it meets O2 ([lit_ok]):
    the decoder reads back exactly the literals.  No condition on the table remains: all of them hold for every table
    (C13_Canonical / C02_HufSide). *)
Require Import Zrs.lib.RsPrelude Zrs.gen.Generated Zrs.model.Headers Zrs.model.BitIO Zrs.model.BitStream Zrs.model.FseDec Zrs.model.HufDec Zrs.model.BlockDec Zrs.model.LitEnc Zrs.model.BlockEnc.
Require Import Zrs.proofs.C13_Stream Zrs.proofs.C13_LitSection Zrs.proofs.C02_HufSide Zrs.proofs.C02_Concrete.
Open Scope Z_scope.

Definition deliverable (t : huf_table) (lits : list Z) : Prop :=
  Forall (fun s => exists i, 0 <= i < 2 ^ ht_max_bits t /\ h_sym (nth_h (ht_decode t) i) = s) lits.
(** a table that came out of the decoder's builder, with at most 255 explicit weights *)
Definition built (t : huf_table) : Prop :=
  (exists ht0 src used, huf_build_decoder ht0 src = ROk (t, used)) /\ Forall (fun w => 0 <= w) (ht_weights t) /\ (length (ht_weights t) <= 255)%nat.

Theorem model_section_meets_O2 h t ty desc lits :
  built t -> deliverable t lits -> 16 <= Z.of_nat (length lits) <= 131072 ->
  let code := code_of_dec t in
  let payload := desc ++ huf4_bytes code lits in
  (ty = 2 /\ huf_build_decoder h payload = ROk (t, zlen desc)) \/ (ty = 3 /\ desc = [] /\ h = t) ->
  zlen payload < zlen lits ->
  lit_ok h lits (huf_lit_header ty (zlen lits) (zlen payload)) payload t.
Proof.
  intros ((ht0 & src & used & Hb) & Hw & Hl) Hdel Hn code payload Hty Hpl.
  pose proof (huf_side_holds ht0 src t used lits Hb Hw Hl Hn Hdel) as Hside.
  unfold huf_side_b in Hside. destruct (split4 lits) as [[[a b] c] d] eqn:Esp.
  apply andb_prop in Hside as [Hside S3]. apply andb_prop in Hside as [Hside S2]. apply andb_prop in Hside as [Hside S1].
  apply andb_prop in Hside as [Hside Hall]. apply andb_prop in Hside as [Hts H16].
  destruct (table_side_b_sound _ _ Hts) as (HM & HM1 & Hlen). set (Mn := Z.to_nat (ht_max_bits t)) in *.
  rewrite forallb_forall in Hall.
  assert (Hok : Forall (code_ok Mn code) lits).
  { apply Forall_forall. intros s Hs. specialize (Hall s ltac:(apply nodup_In; exact Hs)). apply andb_prop in Hall as [A _]. apply code_ok_b_sound. exact A. }
  assert (Hres : Forall (resolves t Mn code) lits).
  { apply Forall_forall. intros s Hs. specialize (Hall s ltac:(apply nodup_In; exact Hs)). apply andb_prop in Hall as [A B].
    apply resolves_b_sound; [apply code_ok_b_sound; exact A|exact B]. }
  apply Z.ltb_lt in S1, S2, S3. apply Nat.leb_le in H16.
  pose proof (split4_spec lits H16) as Sp. rewrite Esp in Sp. destruct Sp as (El & Na & Nb & Nc & Nd).
  assert (E4 : huf4_bytes code lits = four_bytes code a b c d) by (unfold huf4_bytes; rewrite Esp; reflexivity).
  assert (Ty : ty = 2 \/ ty = 3) by (destruct Hty as [(-> & _)|(-> & _)]; [left|right]; reflexivity).
  assert (P0 : 0 <= zlen payload) by apply zlen_nonneg.
  exists ty, (zlen lits), (Some (zlen payload)), (Some 4).
  split.
  { intros rest. rewrite huf_header_length.
    destruct (Z.ltb_spec (zlen lits) 16384) as [Hsm|Hlg].
    - apply huf_header_parse_small; [exact Ty|unfold zlen in *; lia|unfold zlen in *; lia].
    - apply huf_header_parse_large; [exact Ty|unfold zlen in *; lia|unfold zlen in *; lia]. }
  split; [reflexivity|]. split; [split; [reflexivity|change MAX_BLOCK_SIZE with 131072; unfold zlen; lia]|].
  unfold payload. rewrite E4, El.
  apply (huffman_payload_decodes t Mn HM HM1 Hlen code a b c d (conj Na (conj Nb (conj Nc Nd)))).
  - rewrite <- El. exact Hok.
  - rewrite <- El. exact Hres.
  - repeat split; assumption.
  - unfold payload in Hty. rewrite E4 in Hty. exact Hty.
Qed.
