(** C13: the compressor's code and the decoder's table agree -- for EVERY weight list the decoder accepts.  The code
    [build_from_weights] of the compressor gives a symbol (all weights including the last one, which the decoder infers)
    is exactly the code word read off the decoder's table for that symbol, with the same length. *)
Require Import Zrs.lib.RsPrelude Zrs.gen.Generated Zrs.model.Headers Zrs.model.BitIO Zrs.model.FseDec Zrs.model.HufDec Zrs.model.BlockDec Zrs.model.LitEnc Zrs.model.HufEnc.
Require Import Zrs.proofs.C03_HufTable Zrs.proofs.C03_HufComplete Zrs.proofs.C13_Canonical Zrs.proofs.C13_CanonCode Zrs.proofs.C13_EncCanon.
Open Scope Z_scope.

Definition bits_of (M : Z) (w : Z) : Z := if 0 <? w then M + 1 - w else 0.

Lemma cnt_map_bits M W : forall b, 1 <= b <= M -> Forall (fun w => 0 <= w <= M) W -> cnt b (map (bits_of M) W) = cnt (M + 1 - b) W.
Proof.
  intros b Hb H. induction H as [|x t Hx _ IH]; [reflexivity|]. cbn [map cnt]. rewrite IH. unfold bits_of.
  destruct (Z.ltb_spec 0 x) as [Hp|Hz].
  - destruct (Z.eqb_spec (M + 1 - x) b); destruct (Z.eqb_spec x (M + 1 - b)); lia.
  - destruct (Z.eqb_spec 0 b); destruct (Z.eqb_spec x (M + 1 - b)); lia.
Qed.

Lemma region_below M ranks W : 1 <= M -> Forall (fun w => 0 <= w <= M) W ->
  (forall b, 0 <= b -> nth_z ranks b = cnt b (map (bits_of M) W)) ->
  forall n, (n <= Z.to_nat M)%nat -> region M ranks n = below n W.
Proof.
  intros HM Hw Hr. induction n as [|n IH]; intros Hn; cbn [region below]; [reflexivity|]. rewrite IH by lia.
  rewrite Hr by lia. rewrite cnt_map_bits by (try exact Hw; lia). f_equal. f_equal. f_equal. lia.
Qed.

(** the code word the decoder's table holds for a symbol, from the canonical place of its block *)
Theorem built_table_code_values ws dec M bits ranks idxs t : Forall (fun w => 0 <= w) ws -> (length ws <= 255)%nat ->
  build_table_from_weights ws = ROk (dec, M, bits, ranks, idxs) -> ht_decode t = dec -> ht_max_bits t = M ->
  forall j, (j < length bits)%nat -> 0 < nth j bits 0 ->
    let x := nth j bits 0 in
    code_of_dec t (Z.of_nat j) = ((region M ranks (Z.to_nat (M - x)) + cnt x (firstn j bits) * 2 ^ (M - x)) / 2 ^ (M - x), Z.to_nat x).
Proof.
  intros Hnn Hlen Hb Hd Hm j Hj Hpos x.
  destruct (built_table_blocks ws dec M bits ranks idxs Hnn Hlen Hb) as (placed & ND & Hblk & Hcover & Hsyms).
  destruct (build_table_setup ws dec M bits ranks idxs Hnn Hb) as (HM & _ & Hbits & _).
  destruct (built_huffman_table_complete ws dec M bits ranks idxs Hnn Hb) as (Ldec & _).
  destruct (Hsyms j Hj Hpos) as (base & Hin & Ebase). fold x in Hin, Ebase.
  rewrite Forall_forall in Hbits. pose proof (Hbits _ (nth_In bits 0 Hj)) as Hx. fold x in Hx.
  set (n := Z.to_nat (M - x)) in *. destruct (Hblk _ base n Hin) as (B1 & B2 & B3 & B4 & B5 & B6).
  assert (P : 0 < 2 ^ Z.of_nat n) by (apply Z.pow_pos_nonneg; lia).
  unfold code_of_dec. rewrite Hd, Hm.
  rewrite (find_sym_first dec 0 (Z.of_nat j) (Z.to_nat base)).
  - change (nth (Z.to_nat base) dec hentry0) with (nth_h dec base). rewrite (B6 base ltac:(lia)). cbn [h_bits].
    replace (M - (M - Z.of_nat n)) with (Z.of_nat n) by lia. rewrite Z.add_0_l, Z2Nat.id by lia.
    rewrite Ebase. replace (M - x) with (Z.of_nat n) by (unfold n; lia). f_equal. f_equal. unfold n. lia.
  - lia.
  - change (nth (Z.to_nat base) dec hentry0) with (nth_h dec base). rewrite (B6 base ltac:(lia)). reflexivity.
  - intros k Hk Hs. destruct (Hcover (Z.of_nat k) ltac:(lia)) as (s' & base' & n' & Hin' & Hr').
    destruct (Hblk s' base' n' Hin') as (_ & _ & _ & _ & _ & B6').
    assert (E : h_sym (nth k dec hentry0) = s').
    { pose proof (B6' (Z.of_nat k) Hr') as X. unfold nth_h in X. rewrite Nat2Z.id in X. rewrite X. reflexivity. }
    assert (Es : s' = Z.of_nat j) by congruence. clear E. rewrite Es in *. clear Es.
    pose proof (nodup_key blk_sym placed (Z.of_nat j, base, n) (Z.of_nat j, base', n') ND Hin Hin' eq_refl) as Eq. injection Eq as <- <-. lia.
Qed.

(** *** the agreement *)
Theorem encoder_and_decoder_agree ws dec M bits ranks idxs t : Forall (fun w => 0 <= w) ws -> (length ws <= 255)%nat ->
  build_table_from_weights ws = ROk (dec, M, bits, ranks, idxs) -> ht_decode t = dec -> ht_max_bits t = M ->
  exists lw codes, 1 <= lw <= M /\ enc_build_from_weights (ws ++ [lw]) = ROk codes /\
    (forall s, 0 <= s <= Z.of_nat (length ws) -> 0 < nth (Z.to_nat s) (ws ++ [lw]) 0 ->
      code_of_dec t s = (fst (nth (Z.to_nat s) codes (0, 0)), Z.to_nat (snd (nth (Z.to_nat s) codes (0, 0))))) /\
    (* the last weight is the one the decoder infers: its code length is the last of the decoder's *)
    bits = map (bits_of M) (ws ++ [lw]).
Proof.
  intros Hnn Hlen Hb Hd Hm.
  destruct (build_table_setup ws dec M bits ranks idxs Hnn Hb) as (HM & Lb & Hbits & Hr0 & Hreg & idxs0 & Li & Gi & Gr & Ea & lw & Hlw & Ebits & Hk).
  set (W := ws ++ [lw]) in *. fold (kraft W) in Hk.
  assert (Eb : bits = map (bits_of M) W).
  { rewrite Ebits. unfold W. rewrite map_app. cbn [map]. unfold bits_of at 2. destruct (Z.ltb_spec 0 lw); [reflexivity|lia]. }
  (* every weight is at most M *)
  assert (HW : Forall (fun w => 0 <= w <= M) W).
  { apply Forall_forall. intros w Hw. unfold W in Hw. apply in_app_or in Hw as [Hw|[<-|[]]]; [|lia].
    rewrite Forall_forall in Hnn. specialize (Hnn w Hw). split; [exact Hnn|].
    destruct (Z.ltb_spec 0 w) as [Hp|]; [|lia].
    assert (Hb0 : In (bits_of M w) bits) by (rewrite Eb; apply in_map; unfold W; apply in_or_app; left; exact Hw).
    rewrite Forall_forall in Hbits. specialize (Hbits _ Hb0). unfold bits_of in Hbits. destruct (Z.ltb_spec 0 w); [|lia].
    (* w = M + 1 would make the sum exceed 2^M: the last weight contributes too *)
    destruct (Z.eq_dec w (M + 1)) as [->|]; [|lia]. exfalso.
    assert (Fge : forall l, In (M + 1) l -> 2 ^ M <= kraft l).
    { induction l as [|y u IHu]; intros Hy; [contradiction|]. unfold kraft in *. cbn [fold_right].
      assert (0 <= fold_right (fun w acc => (if 0 <? w then 2 ^ (w - 1) else 0) + acc) 0 u).
      { clear. induction u as [|z v IHv]; cbn [fold_right]; [lia|]. destruct (0 <? z); [|lia]. pose proof (Z.pow_nonneg 2 (z - 1) ltac:(lia)). lia. }
      destruct Hy as [->|Hy]; [destruct (Z.ltb_spec 0 (M + 1)); [replace (M + 1 - 1) with M by lia; lia|lia]|].
      specialize (IHu Hy). destruct (0 <? y); [|lia]. pose proof (Z.pow_nonneg 2 (y - 1) ltac:(lia)). lia. }
    assert (Kapp : kraft W = kraft ws + 2 ^ (lw - 1)).
    { unfold W, kraft. clear - Hlw. induction ws as [|y u IHu]; cbn [app fold_right]; [destruct (Z.ltb_spec 0 lw); lia|]. rewrite IHu. lia. }
    pose proof (Fge ws Hw). pose proof (Z.pow_pos_nonneg 2 (lw - 1) ltac:(lia) ltac:(lia)). lia. }
  set (nm := Z.to_nat M).
  assert (HW' : Forall (fun w => 0 <= w <= Z.of_nat nm) W) by (eapply Forall_impl; [|exact HW]; intros a Ha; cbv beta in *; unfold nm; lia).
  assert (Elog : Z.log2 (kraft W) = M) by (rewrite Hk; apply Z.log2_pow2; lia).
  assert (Hpow : is_pow2z (kraft W) = true).
  { unfold is_pow2z. rewrite Elog, Hk. pose proof (Z.pow_pos_nonneg 2 M ltac:(lia) ltac:(lia)). apply andb_true_intro. split; lia. }
  exists lw. change (ws ++ [lw]) with W. unfold enc_build_from_weights. rewrite Hpow. cbn [negb]. eexists. split; [exact Hlw|]. split; [reflexivity|]. split; [|exact Eb].
  intros s Hs Hpos.
  assert (LW : length W = S (length ws)) by (unfold W; rewrite app_length; cbn [length]; lia).
  pose proof (enc_codes_closed_form W nm _ HW' ltac:(unfold enc_build_from_weights; rewrite Hpow; reflexivity) s ltac:(lia)) as EC.
  cbv zeta in EC. rewrite (nth_indep W (-1) 0) in EC by lia. specialize (EC Hpos).
  set (w := nth (Z.to_nat s) W 0) in *.
  assert (Hwr : 1 <= w <= M) by (rewrite Forall_forall in HW; pose proof (HW w ltac:(apply nth_In; lia)); lia).
  (* the decoder side *)
  assert (Hj : (Z.to_nat s < length bits)%nat) by (rewrite Eb, map_length; lia).
  assert (Ex : nth (Z.to_nat s) bits 0 = M + 1 - w).
  { rewrite Eb. rewrite (nth_indep _ 0 (bits_of M 0)) by (rewrite map_length; lia). rewrite map_nth. fold w. unfold bits_of. destruct (Z.ltb_spec 0 w); lia. }
  pose proof (built_table_code_values ws dec M bits ranks idxs t Hnn Hlen Hb Hd Hm (Z.to_nat s) Hj ltac:(lia)) as DC.
  cbv zeta in DC. rewrite Z2Nat.id in DC by lia. rewrite Ex in DC.
  replace (M - (M + 1 - w)) with (w - 1) in DC by lia.
  rewrite (region_below M ranks W ltac:(lia) HW ltac:(intros b Hb0; rewrite Gr by exact Hb0; rewrite Eb; reflexivity)) in DC by lia.
  assert (Ecnt : cnt (M + 1 - w) (firstn (Z.to_nat s) bits) = cnt w (firstn (Z.to_nat s) W)).
  { rewrite Eb, firstn_map. rewrite cnt_map_bits; [f_equal; lia|lia|]. rewrite Forall_forall in *. intros y Hy. apply HW. rewrite <- (firstn_skipn (Z.to_nat s) W). apply in_or_app. left. exact Hy. }
  rewrite Ecnt in DC. rewrite Z.div_add in DC by (pose proof (Z.pow_pos_nonneg 2 (w - 1) ltac:(lia) ltac:(lia)); lia).
  rewrite DC, EC. rewrite Elog. cbn [fst snd]. f_equal. f_equal. lia.
Qed.
